"""Alpha-normalisation of local variable names in a few anchor functions.

Rules refer to the locals of the central functions by name (`lobj`, `current_scope`, ...). So that a mere
renaming of such a local is not mistaken for a change of behaviour, the roles are discovered structurally
(by what the variable is initialised from / iterated over) and the function's AST is rewritten in place to
the canonical names before any rule looks at it. Line numbers are unchanged. If a role cannot be discovered
the name is left alone (the rule that needs it will then report an analysis error or a refutation as usual).
"""
from __future__ import annotations

import ast


def _u(e):
    try:
        return ast.unparse(e)
    except Exception:
        return ''


def _assign_targets(fn, pred):
    out = []
    for n in ast.walk(fn):
        if isinstance(n, ast.Assign) and len(n.targets) == 1 and isinstance(n.targets[0], ast.Name) and pred(n.value):
            out.append(n.targets[0].id)
        elif isinstance(n, ast.AnnAssign) and isinstance(n.target, ast.Name) and n.value is not None and pred(n.value):
            out.append(n.target.id)
    return out


def _first(xs):
    return xs[0] if xs else None


def _roles_load_line_objects(fn):
    roles = {}
    roles['condition_stack'] = _first(_assign_targets(fn, lambda v: isinstance(v, ast.Call) and _u(v.func).endswith('ConditionStack')))
    roles['current_memzone'] = _first(_assign_targets(fn, lambda v: _u(v).endswith('.global_zone')))
    roles['current_scope'] = _first(_assign_targets(fn, lambda v: _u(v) == 'self.label_scope'))
    rets = [n.value.id for n in ast.walk(fn) if isinstance(n, ast.Return) and isinstance(n.value, ast.Name)]
    roles['line_objects'] = _first(rets)
    # the list receiving the factory's result, and the loop variable over it
    lst = None
    for n in ast.walk(fn):
        if isinstance(n, ast.Call) and isinstance(n.func, ast.Attribute) and n.func.attr == 'extend' and isinstance(n.func.value, ast.Name) \
                and n.args and 'parse_line' in _u(n.args[0]):
            lst = n.func.value.id
    roles['lobj_list'] = lst
    if lst:
        for n in ast.walk(fn):
            if isinstance(n, ast.For) and isinstance(n.iter, ast.Name) and n.iter.id == lst and isinstance(n.target, ast.Name):
                roles['lobj'] = n.target.id
    # the stripped text of the physical line
    outer = [n for n in ast.walk(fn) if isinstance(n, ast.For) and isinstance(n.target, ast.Name) and isinstance(n.iter, ast.Name) and n.iter.id != lst]
    for o in outer:
        t = o.target.id
        roles.setdefault('line_str', _first(_assign_targets(o, lambda v, t=t: _u(v) == f'{t}.strip()')))
        if roles.get('line_str'):
            roles['line'] = t
            break
    roles['line_num'] = _first(_assign_targets(fn, lambda v: isinstance(v, ast.Constant) and v.value == 0))
    return roles


def _roles_assemble_bytecode(fn):
    roles = {}
    roles['line_obs'] = _first(_assign_targets(fn, lambda v: isinstance(v, ast.Call) and _u(v.func).endswith('.load_line_objects')))
    roles['compilable_line_obs'] = _first(_assign_targets(fn, lambda v: isinstance(v, ast.ListComp) and any('.compilable' in _u(c) for g in v.generators for c in g.ifs)))
    roles['memzone_manager'] = _first(_assign_targets(fn, lambda v: isinstance(v, ast.Call) and _u(v.func) == 'MemoryZoneManager'))
    roles['preprocessor'] = _first(_assign_targets(fn, lambda v: isinstance(v, ast.Call) and _u(v.func) == 'Preprocessor'))
    roles['asm_file'] = _first(_assign_targets(fn, lambda v: isinstance(v, ast.Call) and _u(v.func) == 'AssemblyFile'))
    roles['global_label_scope'] = _first(_assign_targets(fn, lambda v: _u(v).endswith('.global_label_scope')))
    roles['bytecode'] = _first(_assign_targets(fn, lambda v: _u(v) == 'bytearray()'))
    # list of predefined data line objects: the list a PredefinedDataLine is appended to
    data_obj = _first(_assign_targets(fn, lambda v: isinstance(v, ast.Call) and _u(v.func) == 'PredefinedDataLine'))
    if data_obj:
        for n in ast.walk(fn):
            if isinstance(n, ast.Call) and isinstance(n.func, ast.Attribute) and n.func.attr == 'append' and n.args and _u(n.args[0]) == data_obj \
                    and isinstance(n.func.value, ast.Name):
                roles['predefined_line_obs'] = n.func.value.id
        roles['data_obj'] = data_obj
    # include directory handling
    incl = _assign_targets(fn, lambda v: 'os.path.dirname(self._source_file)' in _u(v))
    roles['include_dirs'] = _first(incl)
    rp = _assign_targets(fn, lambda v: isinstance(v, ast.Call) and _u(v.func) == 'os.path.realpath')
    if len(rp) >= 2:
        roles['left_path'], roles['right_path'] = rp[0], rp[1]
    roles['pretty_str'] = _first(_assign_targets(fn, lambda v: isinstance(v, ast.Call) and _u(v.func).endswith('.pretty_print')))
    roles['pprinter'] = _first(_assign_targets(fn, lambda v: isinstance(v, ast.Call) and _u(v.func).endswith('getPrettyPrinter')))
    return roles


def _roles_parse_line(fn):
    roles = {}
    roles['line_obj_list'] = _first([n.value.id for n in ast.walk(fn) if isinstance(n, ast.Return) and isinstance(n.value, ast.Name)])
    roles['instruction_str'] = _first(_assign_targets(fn, lambda v: isinstance(v, ast.Call) and _u(v.func).endswith('.resolve_symbols')))
    roles['line_obj'] = _first(_assign_targets(fn, lambda v: isinstance(v, ast.Call) and _u(v.func) == 'LabelLine.factory'))
    roles['instruction_match'] = _first(_assign_targets(fn, lambda v: isinstance(v, ast.Call) and 'PATTERN_INSTRUCTION_CONTENT' in _u(v)))
    roles['comment_match'] = _first(_assign_targets(fn, lambda v: isinstance(v, ast.Call) and 'PATTERN_COMMENTS' in _u(v)))
    cm = roles.get('comment_match')
    if cm:
        roles['comment_str'] = _first(_assign_targets(fn, lambda v: _u(v).startswith(f'{cm}.group(1)')))
    return roles


_TABLE = {
    'bespokeasm.assembler.assembly_file.AssemblyFile.load_line_objects': _roles_load_line_objects,
    'bespokeasm.assembler.engine.Assembler.assemble_bytecode': _roles_assemble_bytecode,
    'bespokeasm.assembler.line_object.factory.LineOjectFactory.parse_line': _roles_parse_line,
}


def canonicalise(repo) -> dict:
    """Rename discovered role variables to their canonical names. Returns {function: {canonical: original}} for the evidence."""
    done = {}
    for q, discover in _TABLE.items():
        fi = repo.functions.get(q)
        if fi is None:
            continue
        try:
            roles = {k: v for k, v in discover(fi.node).items() if v}
        except Exception:
            continue
        params = {a.arg for a in list(fi.node.args.args) + list(fi.node.args.kwonlyargs) + list(fi.node.args.posonlyargs)}
        ren = {orig: canon for canon, orig in roles.items() if orig != canon and orig not in params}
        # never merge two different variables into one name
        taken = {n.id for n in ast.walk(fi.node) if isinstance(n, ast.Name)} | params
        ren = {o: c for o, c in ren.items() if c not in taken or c in ren}
        if len(set(ren.values())) != len(ren):
            continue
        if not ren:
            continue
        for n in ast.walk(fi.node):
            if isinstance(n, ast.Name) and n.id in ren:
                n.id = ren[n.id]
        done[q] = {c: o for o, c in ren.items()}
    return done
