"""Partial evaluator for *constant* expressions of the analysed repository.

Folds literals, +, f-strings, str.format, join, set/union, comprehensions over constants,
re.compile(const, flags) and references to other module- or class-level constants. It never
imports or runs repository code; it evaluates only the closed constant sub-language below.
"""
from __future__ import annotations

import ast
import re
from dataclasses import dataclass

from .index import Repo, Module, ClassInfo, FuncInfo, AnalysisError


class NotConst(Exception):
    pass


@dataclass(frozen=True)
class Regex:
    pattern: str
    flags: int

    def __repr__(self):
        return f'Regex({self.pattern!r}, flags={self.flags})'


@dataclass(frozen=True)
class EnumConst:
    cls: str
    name: str
    value: object

    def __repr__(self):
        return f'{self.cls.rsplit(".", 1)[-1]}.{self.name}'


@dataclass(frozen=True)
class Ref:
    """An opaque reference to something that is not a foldable constant (operator.add, a class, ...)."""
    dotted: str

    def __repr__(self):
        return f'Ref({self.dotted})'


_RE_FLAGS = {
    'IGNORECASE': re.IGNORECASE, 'I': re.IGNORECASE, 'MULTILINE': re.MULTILINE, 'M': re.MULTILINE,
    'DOTALL': re.DOTALL, 'S': re.DOTALL, 'VERBOSE': re.VERBOSE, 'X': re.VERBOSE, 'ASCII': re.ASCII,
    'A': re.ASCII, 'UNICODE': re.UNICODE, 'U': re.UNICODE,
}


def _external_const(dotted: str):
    if dotted.startswith('re.') and dotted[3:] in _RE_FLAGS:
        return _RE_FLAGS[dotted[3:]]
    if dotted in ('packaging.version.VERSION_PATTERN',):
        from packaging import version  # third-party constant consumed by the repo; not repo code
        return version.VERSION_PATTERN
    return Ref(dotted)


class Folder:
    def __init__(self, repo: Repo):
        self.repo = repo
        self._cache: dict = {}
        self._active: set = set()

    # ----------------------------------------------------------- entry points
    def module_const(self, modname: str, name: str):
        m = self.repo.module(modname)
        if name not in m.assigns:
            raise AnalysisError(f'anchor constant vanished: {modname}.{name}')
        vals = m.assigns[name]
        if len(vals) != 1:
            raise NotConst(f'{modname}.{name} assigned {len(vals)} times')
        key = ('m', modname, name)
        return self._memo(key, lambda: self.fold(vals[0], m, None))

    def class_const(self, cls: ClassInfo | str, name: str):
        ci = self.repo.cls(cls) if isinstance(cls, str) else cls
        hit = ci.lookup_attr(name)
        if hit is None:
            raise AnalysisError(f'anchor class constant vanished: {ci.qualname}.{name}')
        owner, expr = hit
        key = ('c', owner.qualname, name)
        return self._memo(key, lambda: self.fold(expr, owner.module, owner))

    def _memo(self, key, thunk):
        if key in self._cache:
            return self._cache[key]
        if key in self._active:
            raise NotConst(f'cyclic constant {key}')
        self._active.add(key)
        try:
            v = thunk()
        finally:
            self._active.discard(key)
        self._cache[key] = v
        return v

    def try_fold(self, e: ast.expr, m: Module, cls: ClassInfo | None = None, env: dict | None = None, default=None):
        try:
            return self.fold(e, m, cls, env)
        except NotConst:
            return default

    # ------------------------------------------------------------------ core
    def fold(self, e: ast.expr, m: Module, cls: ClassInfo | None = None, env: dict | None = None):
        env = env or {}
        f = lambda x: self.fold(x, m, cls, env)  # noqa: E731
        if isinstance(e, ast.Constant):
            return e.value
        if isinstance(e, ast.JoinedStr):
            out = []
            for v in e.values:
                if isinstance(v, ast.Constant):
                    out.append(str(v.value))
                elif isinstance(v, ast.FormattedValue):
                    val = f(v.value)
                    spec = ''
                    if v.format_spec is not None:
                        spec = f(v.format_spec)
                    if isinstance(val, (Regex, Ref, EnumConst)):
                        raise NotConst('formatted non-plain value')
                    if v.conversion == ord('r'):
                        val = repr(val)
                    elif v.conversion == ord('s'):
                        val = str(val)
                    out.append(format(val, spec))
                else:
                    raise NotConst('f-string part')
            return ''.join(out)
        if isinstance(e, ast.Name):
            if e.id in env:
                return env[e.id]
            if e.id in ('True', 'False', 'None'):
                return {'True': True, 'False': False, 'None': None}[e.id]
            if cls is not None and e.id in cls.attrs and e.id not in m.assigns:
                # class body scope (only visible while folding another class-level constant)
                return self.class_const(cls, e.id)
            r = self.repo.resolve_name(m, e.id, cls)
            return self._value_of_symbol(r, e.id)
        if isinstance(e, ast.Attribute):
            # Enum member .value / .name
            if e.attr in ('value', 'name'):
                try:
                    base = f(e.value)
                except NotConst:
                    base = None
                if isinstance(base, EnumConst):
                    return base.value if e.attr == 'value' else base.name
            sym = self.repo.resolve_expr_to_symbol(m, e, cls)
            if sym is not None:
                return self._value_of_symbol(sym, ast.unparse(e))
            ext = self.repo.dotted_external(m, e)
            if ext is not None:
                return _external_const(ext)
            raise NotConst(f'attribute {ast.unparse(e)}')
        if isinstance(e, ast.BinOp):
            l, r = f(e.left), f(e.right)
            try:
                if isinstance(e.op, ast.Add):
                    return l + r
                if isinstance(e.op, ast.Sub):
                    return l - r
                if isinstance(e.op, ast.Mult):
                    return l * r
                if isinstance(e.op, ast.Pow):
                    if isinstance(r, int) and r > 4096:
                        raise NotConst('pow too large')
                    return l ** r
                if isinstance(e.op, ast.LShift):
                    return l << r
                if isinstance(e.op, ast.RShift):
                    return l >> r
                if isinstance(e.op, ast.BitOr):
                    return l | r
                if isinstance(e.op, ast.BitAnd):
                    return l & r
                if isinstance(e.op, ast.FloorDiv):
                    return l // r
                if isinstance(e.op, ast.Mod):
                    if isinstance(l, str):
                        raise NotConst('%-format')
                    return l % r
            except NotConst:
                raise
            except Exception as ex:
                raise NotConst(f'binop failed: {ex}')
            raise NotConst('binop')
        if isinstance(e, ast.UnaryOp):
            v = f(e.operand)
            if isinstance(e.op, ast.USub):
                return -v
            if isinstance(e.op, ast.Not):
                return not v
            if isinstance(e.op, ast.Invert):
                return ~v
            raise NotConst('unary')
        if isinstance(e, (ast.List, ast.Tuple, ast.Set)):
            items = []
            for x in e.elts:
                if isinstance(x, ast.Starred):
                    items.extend(f(x.value))
                else:
                    items.append(f(x))
            if isinstance(e, ast.List):
                return items
            if isinstance(e, ast.Tuple):
                return tuple(items)
            return frozenset(_hashable(i) for i in items)
        if isinstance(e, ast.Dict):
            d = {}
            for k, v in zip(e.keys, e.values):
                if k is None:
                    d.update(f(v))
                else:
                    d[_hashable(f(k))] = f(v)
            return d
        if isinstance(e, (ast.ListComp, ast.SetComp, ast.GeneratorExp, ast.DictComp)):
            return self._comprehension(e, m, cls, env)
        if isinstance(e, ast.IfExp):
            return f(e.body) if f(e.test) else f(e.orelse)
        if isinstance(e, ast.Subscript):
            base = f(e.value)
            idx = f(e.slice) if not isinstance(e.slice, ast.Slice) else slice(
                f(e.slice.lower) if e.slice.lower else None,
                f(e.slice.upper) if e.slice.upper else None,
                f(e.slice.step) if e.slice.step else None)
            try:
                return base[idx]
            except Exception as ex:
                raise NotConst(f'subscript: {ex}')
        if isinstance(e, ast.Compare) and len(e.ops) == 1:
            l, r = f(e.left), f(e.comparators[0])
            op = e.ops[0]
            try:
                if isinstance(op, ast.Eq):
                    return l == r
                if isinstance(op, ast.NotEq):
                    return l != r
                if isinstance(op, ast.In):
                    return l in r
                if isinstance(op, ast.NotIn):
                    return l not in r
                if isinstance(op, ast.Lt):
                    return l < r
                if isinstance(op, ast.Gt):
                    return l > r
            except Exception as ex:
                raise NotConst(str(ex))
            raise NotConst('compare')
        if isinstance(e, ast.Call):
            return self._call(e, m, cls, env)
        raise NotConst(type(e).__name__)

    def _value_of_symbol(self, r, label: str):
        if r is None:
            raise NotConst(f'unresolved name {label}')
        if isinstance(r, ClassInfo):
            return Ref(r.qualname)
        if isinstance(r, FuncInfo):
            return Ref(r.qualname)
        if isinstance(r, tuple):
            if r[0] == 'const':
                return self.module_const(r[1].name, r[2])
            if r[0] == 'classattr':
                owner: ClassInfo = r[1]
                if any(b in ('enum.Enum', 'enum.IntEnum') for b in owner.external_bases()):
                    v = self.class_const(owner, r[2])
                    return EnumConst(owner.qualname, r[2], v)
                return self.class_const(owner, r[2])
            if r[0] == 'external':
                return _external_const(r[1])
            if r[0] == 'module':
                return Ref(r[1])
        raise NotConst(f'symbol {label}')

    def _comprehension(self, e, m, cls, env):
        results = []

        def rec(gens, env2):
            if not gens:
                if isinstance(e, ast.DictComp):
                    results.append((_hashable(self.fold(e.key, m, cls, env2)), self.fold(e.value, m, cls, env2)))
                else:
                    results.append(self.fold(e.elt, m, cls, env2))
                return
            g = gens[0]
            it = self.fold(g.iter, m, cls, env2)
            if isinstance(it, dict):
                it = list(it.keys())
            if isinstance(it, (frozenset, set)):
                it = sorted(it, key=repr)
            if not isinstance(it, (list, tuple, range, str)):
                raise NotConst('comprehension iterable')
            for item in it:
                env3 = dict(env2)
                self._bind(g.target, item, env3)
                ok = True
                for c in g.ifs:
                    if not self.fold(c, m, cls, env3):
                        ok = False
                        break
                if ok:
                    rec(gens[1:], env3)
        rec(list(e.generators), dict(env))
        if isinstance(e, ast.SetComp):
            return frozenset(_hashable(x) for x in results)
        if isinstance(e, ast.DictComp):
            return dict(results)
        return results

    def _bind(self, target, value, env):
        if isinstance(target, ast.Name):
            env[target.id] = value
        elif isinstance(target, (ast.Tuple, ast.List)):
            vals = list(value)
            if len(vals) != len(target.elts):
                raise NotConst('unpack')
            for t, v in zip(target.elts, vals):
                self._bind(t, v, env)
        else:
            raise NotConst('bind target')

    def _call(self, e: ast.Call, m, cls, env):
        f = lambda x: self.fold(x, m, cls, env)  # noqa: E731
        fn = e.func
        kwargs = {k.arg: f(k.value) for k in e.keywords if k.arg is not None}
        # method calls on constant receivers
        if isinstance(fn, ast.Attribute):
            ext = self.repo.dotted_external(m, fn)
            if ext == 're.compile':
                pat = f(e.args[0])
                flags = kwargs.get('flags', f(e.args[1]) if len(e.args) > 1 else 0)
                if not isinstance(pat, str) or not isinstance(flags, int):
                    raise NotConst('re.compile args')
                return Regex(pat, int(flags))
            if ext == 're.escape':
                return re.escape(f(e.args[0]))
            if ext is None:
                try:
                    recv = f(fn.value)
                except NotConst:
                    recv = NotConst
                if recv is not NotConst:
                    args = [f(a) for a in e.args]
                    return self._method(recv, fn.attr, args, kwargs)
            raise NotConst(f'call {ast.unparse(fn)}')
        if isinstance(fn, ast.Name):
            args = [f(a) for a in e.args]
            name = fn.id
            if name == 'set':
                return frozenset(_hashable(x) for x in (args[0] if args else ()))
            if name == 'frozenset':
                return frozenset(_hashable(x) for x in (args[0] if args else ()))
            if name == 'list':
                a = args[0] if args else []
                return sorted(a, key=repr) if isinstance(a, frozenset) else list(a)
            if name == 'tuple':
                a = args[0] if args else ()
                return tuple(sorted(a, key=repr)) if isinstance(a, frozenset) else tuple(a)
            if name == 'dict':
                return dict(*args, **kwargs)
            if name == 'range':
                return range(*args)
            if name == 'len':
                return len(args[0])
            if name == 'str':
                return str(args[0])
            if name == 'int':
                return int(*args)
            if name == 'sorted':
                return sorted(args[0], key=repr)
            if name in ('max', 'min', 'sum', 'abs') and not kwargs and args and all(isinstance(x, (int, list, tuple, frozenset, range)) for x in args):
                vals_ = args if len(args) > 1 else (list(args[0]) if not isinstance(args[0], int) else args)
                if all(isinstance(x, int) and not isinstance(x, bool) for x in vals_) and (vals_ or name == 'sum'):
                    return {'max': max, 'min': min, 'sum': sum}[name](vals_) if name != 'abs' else abs(args[0])
            # a module-level function of the repository that is one `return <expression>`: its value for constant arguments
            fi = getattr(m, 'functions', {}).get(name) if name not in (env or {}) else None
            if fi is not None and not fi.node.decorator_list:
                body = [b for b in fi.node.body if not (isinstance(b, ast.Expr) and isinstance(b.value, ast.Constant))]
                a = fi.node.args
                if len(body) == 1 and isinstance(body[0], ast.Return) and body[0].value is not None and not a.vararg and not a.kwarg and not a.kwonlyargs \
                        and len(args) + len(kwargs) <= len(a.args) + len(a.posonlyargs):
                    params = [p.arg for p in a.posonlyargs + a.args]
                    env2 = dict(zip(params, args))
                    for k, v in kwargs.items():
                        if k not in params or k in env2:
                            raise NotConst(f'call {name}: argument {k}')
                        env2[k] = v
                    defaults = dict(zip(params[len(params) - len(a.defaults):], a.defaults))
                    for p_ in params:
                        if p_ not in env2:
                            if p_ not in defaults:
                                raise NotConst(f'call {name}: missing {p_}')
                            env2[p_] = self.fold(defaults[p_], m, None, {})
                    return self.fold(body[0].value, m, None, env2)
            raise NotConst(f'call {name}')
        raise NotConst('call')

    def _method(self, recv, name, args, kwargs):
        try:
            if isinstance(recv, str):
                if name in ('isdigit', 'isalpha', 'isalnum', 'isupper', 'islower', 'isspace', 'isidentifier', 'startswith', 'endswith') \
                        and all(isinstance(a, (str, tuple)) for a in args) and not kwargs:
                    return getattr(recv, name)(*args)
                if name in ('format', 'join', 'lower', 'upper', 'strip', 'replace', 'split', 'center', 'ljust'):
                    if name == 'join' and args and isinstance(args[0], frozenset):
                        args = [sorted(args[0], key=repr)]
                    for a in args:
                        if isinstance(a, (Regex, Ref, EnumConst)):
                            raise NotConst('format of non-plain')
                    return getattr(recv, name)(*args, **kwargs)
            if isinstance(recv, frozenset):
                if name == 'union':
                    out = set(recv)
                    for a in args:
                        out |= set(a)
                    return frozenset(out)
                if name == 'intersection':
                    out = set(recv)
                    for a in args:
                        out &= set(a)
                    return frozenset(out)
                if name == 'difference':
                    out = set(recv)
                    for a in args:
                        out -= set(a)
                    return frozenset(out)
            if isinstance(recv, dict):
                if name == 'keys':
                    return list(recv.keys())
                if name == 'values':
                    return list(recv.values())
                if name == 'items':
                    return list(recv.items())
                if name == 'get':
                    return recv.get(*args)
        except NotConst:
            raise
        except Exception as ex:
            raise NotConst(f'method {name}: {ex}')
        raise NotConst(f'method {name} on {type(recv).__name__}')


def _hashable(v):
    if isinstance(v, list):
        return tuple(_hashable(x) for x in v)
    if isinstance(v, dict):
        return tuple(sorted((k, _hashable(x)) for k, x in v.items()))
    if isinstance(v, set):
        return frozenset(v)
    return v
