"""Index of the analysed repository: modules, classes, functions, imports.

Built from source text only (ast); nothing under /repo is imported or executed.
"""
from __future__ import annotations

import ast
import os
from dataclasses import dataclass, field


class AnalysisError(Exception):
    """An anchor vanished or a construct has a shape no enumerated idiom covers."""


@dataclass
class FuncInfo:
    qualname: str
    name: str
    node: ast.FunctionDef
    module: 'Module'
    cls: 'ClassInfo | None'
    kind: str  # function | method | classmethod | staticmethod | property | setter | cached_property

    @property
    def params(self) -> list[ast.arg]:
        a = self.node.args
        return list(a.posonlyargs) + list(a.args) + list(a.kwonlyargs)

    @property
    def param_names(self) -> list[str]:
        return [p.arg for p in self.params]

    @property
    def has_receiver(self) -> bool:
        """True if the first parameter is an implicit receiver (self/cls)."""
        if self.cls is None:
            return False
        if self.kind == 'staticmethod':
            return False
        names = self.param_names
        return bool(names) and names[0] in ('self', 'cls')

    @property
    def call_params(self) -> list[ast.arg]:
        ps = self.params
        return ps[1:] if self.has_receiver else ps

    @property
    def file(self) -> str:
        return self.module.relpath

    @property
    def line(self) -> int:
        return self.node.lineno

    def site(self, node: ast.AST | None = None) -> str:
        ln = getattr(node, 'lineno', None) if node is not None else self.node.lineno
        return f'{self.module.relpath}:{ln}'

    def __hash__(self):
        return hash((self.qualname, self.kind))

    def __eq__(self, other):
        return isinstance(other, FuncInfo) and self.qualname == other.qualname and self.kind == other.kind

    def __repr__(self):
        return f'<Func {self.qualname}{"[setter]" if self.kind == "setter" else ""}>'


@dataclass
class ClassInfo:
    qualname: str
    name: str
    node: ast.ClassDef
    module: 'Module'
    outer: 'ClassInfo | None' = None
    bases: list = field(default_factory=list)          # ClassInfo | str (external dotted name)
    methods: dict = field(default_factory=dict)        # name -> FuncInfo (getter/plain)
    setters: dict = field(default_factory=dict)        # name -> FuncInfo
    attrs: dict = field(default_factory=dict)          # class-level name -> value expr
    attr_annotations: dict = field(default_factory=dict)  # class-level name -> annotation expr
    subclasses: list = field(default_factory=list)     # direct subclasses
    nested: dict = field(default_factory=dict)

    def mro(self) -> list['ClassInfo']:
        # single inheritance everywhere in this code base except dict/enum externals; a simple
        # depth-first left-to-right linearisation without duplicates is exact for that shape.
        out: list[ClassInfo] = []
        seen = set()

        def walk(c: 'ClassInfo'):
            if c.qualname in seen:
                return
            seen.add(c.qualname)
            out.append(c)
            for b in c.bases:
                if isinstance(b, ClassInfo):
                    walk(b)
        walk(self)
        return out

    def external_bases(self) -> list[str]:
        out = []
        for c in self.mro():
            for b in c.bases:
                if isinstance(b, str):
                    out.append(b)
        return out

    def all_subclasses(self) -> list['ClassInfo']:
        out = []
        todo = list(self.subclasses)
        seen = set()
        while todo:
            c = todo.pop()
            if c.qualname in seen:
                continue
            seen.add(c.qualname)
            out.append(c)
            todo.extend(c.subclasses)
        return out

    def is_subclass_of(self, other: 'ClassInfo') -> bool:
        return any(c.qualname == other.qualname for c in self.mro())

    def lookup(self, name: str) -> FuncInfo | None:
        for c in self.mro():
            if name in c.methods:
                return c.methods[name]
        return None

    def lookup_setter(self, name: str) -> FuncInfo | None:
        for c in self.mro():
            if name in c.setters:
                return c.setters[name]
        return None

    def lookup_attr(self, name: str):
        for c in self.mro():
            if name in c.attrs:
                return c, c.attrs[name]
        return None

    def implementations(self, name: str) -> list[FuncInfo]:
        """The method found by MRO plus every override in subclasses (class-hierarchy analysis)."""
        out = []
        m = self.lookup(name)
        if m is not None:
            out.append(m)
        for sc in self.all_subclasses():
            if name in sc.methods and sc.methods[name] not in out:
                out.append(sc.methods[name])
        return out

    def setter_implementations(self, name: str) -> list[FuncInfo]:
        out = []
        m = self.lookup_setter(name)
        if m is not None:
            out.append(m)
        for sc in self.all_subclasses():
            if name in sc.setters and sc.setters[name] not in out:
                out.append(sc.setters[name])
        return out

    def __hash__(self):
        return hash(self.qualname)

    def __eq__(self, other):
        return isinstance(other, ClassInfo) and self.qualname == other.qualname

    def __repr__(self):
        return f'<Class {self.qualname}>'


class Module:
    def __init__(self, name: str, path: str, relpath: str, is_package: bool):
        self.name = name
        self.path = path
        self.relpath = relpath
        self.is_package = is_package
        with open(path, encoding='utf-8') as f:
            self.source = f.read()
        self.tree = ast.parse(self.source, filename=path)
        self.lines = self.source.splitlines()
        self.imports: dict[str, tuple] = {}       # local name -> ('module', modname) | ('symbol', modname, name)
        self.assigns: dict[str, list[ast.expr]] = {}  # top-level name -> value exprs
        self.annotations: dict[str, ast.expr] = {}
        self.classes: dict[str, ClassInfo] = {}
        self.functions: dict[str, FuncInfo] = {}

    @property
    def package(self) -> str:
        return self.name if self.is_package else self.name.rpartition('.')[0]

    def __repr__(self):
        return f'<Module {self.name}>'


def _decorator_names(node: ast.FunctionDef) -> list[str]:
    out = []
    for d in node.decorator_list:
        try:
            out.append(ast.unparse(d))
        except Exception:  # pragma: no cover
            out.append('?')
    return out


def _func_kind(node: ast.FunctionDef, in_class: bool) -> str:
    decs = _decorator_names(node)
    for d in decs:
        if d == 'property':
            return 'property'
        if d in ('cached_property', 'functools.cached_property'):
            return 'cached_property'
        if d.endswith('.setter'):
            return 'setter'
        if d == 'classmethod':
            return 'classmethod'
        if d == 'staticmethod':
            return 'staticmethod'
    if not in_class:
        return 'function'
    names = [a.arg for a in list(node.args.posonlyargs) + list(node.args.args)]
    if names and names[0] in ('self', 'cls'):
        return 'method'
    # plain function in a class body called on the class (InstructionLine.factory, DataLine.factory, ...)
    return 'staticmethod'


class Repo:
    """All modules under <root>/src/<package>."""

    def __init__(self, root: str, package: str = 'bespokeasm'):
        self.root = os.path.abspath(root)
        self.src = os.path.join(self.root, 'src')
        self.package = package
        self.modules: dict[str, Module] = {}
        self.classes: dict[str, ClassInfo] = {}
        self.functions: dict[str, FuncInfo] = {}   # qualname -> FuncInfo (getters/plain); setters under qualname+'#setter'
        pkg_dir = os.path.join(self.src, package)
        if not os.path.isdir(pkg_dir):
            raise AnalysisError(f'package directory not found: {pkg_dir}')
        for dirpath, dirnames, filenames in os.walk(pkg_dir):
            dirnames[:] = sorted(d for d in dirnames if d != '__pycache__')
            for fn in sorted(filenames):
                if not fn.endswith('.py'):
                    continue
                path = os.path.join(dirpath, fn)
                rel = os.path.relpath(path, self.root)
                parts = os.path.relpath(path, self.src)[:-3].split(os.sep)
                is_pkg = parts[-1] == '__init__'
                if is_pkg:
                    parts = parts[:-1]
                name = '.'.join(parts)
                try:
                    self.modules[name] = Module(name, path, rel, is_pkg)
                except SyntaxError as e:
                    raise AnalysisError(f'cannot parse {rel}: {e}')
        for m in self.modules.values():
            self._index_module(m)
        self._link_bases()

    # ------------------------------------------------------------------ build
    def _index_module(self, m: Module) -> None:
        for node in m.tree.body:
            self._index_stmt(m, node)

    def _index_stmt(self, m: Module, node: ast.stmt) -> None:
        if isinstance(node, ast.Import):
            for a in node.names:
                if a.asname:
                    m.imports[a.asname] = ('module', a.name)
                else:
                    top = a.name.split('.')[0]
                    m.imports[top] = ('module', top)
        elif isinstance(node, ast.ImportFrom):
            if node.level:
                base = m.package.split('.')
                if node.level > 1:
                    base = base[:-(node.level - 1)]
                modname = '.'.join(base + ([node.module] if node.module else []))
            else:
                modname = node.module or ''
            for a in node.names:
                local = a.asname or a.name
                full = f'{modname}.{a.name}'
                if full in self.modules or self._module_file_exists(full):
                    m.imports[local] = ('module', full)
                else:
                    m.imports[local] = ('symbol', modname, a.name)
        elif isinstance(node, ast.Assign):
            for t in node.targets:
                if isinstance(t, ast.Name):
                    m.assigns.setdefault(t.id, []).append(node.value)
        elif isinstance(node, ast.AnnAssign):
            if isinstance(node.target, ast.Name):
                m.annotations[node.target.id] = node.annotation
                if node.value is not None:
                    m.assigns.setdefault(node.target.id, []).append(node.value)
        elif isinstance(node, ast.ClassDef):
            self._index_class(m, node, None)
        elif isinstance(node, (ast.FunctionDef, ast.AsyncFunctionDef)):
            q = f'{m.name}.{node.name}'
            fi = FuncInfo(q, node.name, node, m, None, _func_kind(node, False))
            m.functions[node.name] = fi
            self.functions[q] = fi
        elif isinstance(node, (ast.If, ast.Try)):
            # module-level conditionals are not used for definitions in this code base
            pass

    def _module_file_exists(self, modname: str) -> bool:
        p = os.path.join(self.src, *modname.split('.'))
        return os.path.isfile(p + '.py') or os.path.isfile(os.path.join(p, '__init__.py'))

    def _index_class(self, m: Module, node: ast.ClassDef, outer: ClassInfo | None) -> ClassInfo:
        q = f'{outer.qualname}.{node.name}' if outer else f'{m.name}.{node.name}'
        ci = ClassInfo(q, node.name, node, m, outer)
        self.classes[q] = ci
        if outer is None:
            m.classes[node.name] = ci
        else:
            outer.nested[node.name] = ci
        for st in node.body:
            if isinstance(st, (ast.FunctionDef, ast.AsyncFunctionDef)):
                kind = _func_kind(st, True)
                fq = f'{q}.{st.name}'
                fi = FuncInfo(fq, st.name, st, m, ci, kind)
                if kind == 'setter':
                    ci.setters[st.name] = fi
                    self.functions[fq + '#setter'] = fi
                else:
                    ci.methods[st.name] = fi
                    self.functions[fq] = fi
            elif isinstance(st, ast.Assign):
                for t in st.targets:
                    if isinstance(t, ast.Name):
                        ci.attrs[t.id] = st.value
            elif isinstance(st, ast.AnnAssign):
                if isinstance(st.target, ast.Name):
                    ci.attr_annotations[st.target.id] = st.annotation
                    if st.value is not None:
                        ci.attrs[st.target.id] = st.value
            elif isinstance(st, ast.ClassDef):
                self._index_class(m, st, ci)
        return ci

    def _link_bases(self) -> None:
        for ci in self.classes.values():
            for b in ci.node.bases:
                target = self.resolve_expr_to_symbol(ci.module, b, ci)
                if isinstance(target, ClassInfo):
                    ci.bases.append(target)
                    target.subclasses.append(ci)
                else:
                    try:
                        ci.bases.append(self.dotted_external(ci.module, b) or ast.unparse(b))
                    except Exception:
                        ci.bases.append(ast.unparse(b))

    # ---------------------------------------------------------------- lookup
    def module(self, name: str) -> Module:
        if name not in self.modules:
            raise AnalysisError(f'anchor module vanished: {name}')
        return self.modules[name]

    def cls(self, qualname: str) -> ClassInfo:
        if qualname not in self.classes:
            raise AnalysisError(f'anchor class vanished: {qualname}')
        return self.classes[qualname]

    def func(self, qualname: str) -> FuncInfo:
        if qualname not in self.functions:
            raise AnalysisError(f'anchor function vanished: {qualname}')
        return self.functions[qualname]

    def find_class(self, name: str) -> ClassInfo:
        """Find a class by bare name (must be unique)."""
        hits = [c for c in self.classes.values() if c.name == name]
        if len(hits) != 1:
            raise AnalysisError(f'anchor class {name}: {len(hits)} definitions found')
        return hits[0]

    def resolve_name(self, m: Module, name: str, cls: ClassInfo | None = None):
        """Resolve a bare name used in module m to a ClassInfo, FuncInfo, ('const', module, name),
        ('module', modname), ('external', dotted) or None."""
        if name in m.classes:
            return m.classes[name]
        if name in m.functions:
            return m.functions[name]
        if name in m.assigns:
            return ('const', m, name)
        if name in m.imports:
            imp = m.imports[name]
            if imp[0] == 'module':
                return ('module', imp[1])
            _, modname, sym = imp
            if modname in self.modules:
                return self.resolve_name(self.modules[modname], sym)
            return ('external', f'{modname}.{sym}')
        return None

    def dotted_external(self, m: Module, e: ast.expr) -> str | None:
        """If e is a dotted name rooted in an external import (re.compile, operator.add, ...), its dotted path."""
        parts = []
        cur = e
        while isinstance(cur, ast.Attribute):
            parts.append(cur.attr)
            cur = cur.value
        if not isinstance(cur, ast.Name):
            return None
        r = self.resolve_name(m, cur.id)
        parts.reverse()
        if isinstance(r, tuple) and r[0] == 'module' and r[1] not in self.modules \
                and not r[1].startswith(self.package + '.') and r[1] != self.package:
            return '.'.join([r[1]] + parts)
        if isinstance(r, tuple) and r[0] == 'external':
            return '.'.join([r[1]] + parts)
        if r is None and not parts:
            return None
        return None

    def resolve_expr_to_symbol(self, m: Module, e: ast.expr, cls: ClassInfo | None = None):
        """Resolve Name / dotted Attribute to ClassInfo / FuncInfo / ('const', ...) / ('module', name) if static."""
        if isinstance(e, ast.Name):
            if cls is not None:
                # nested classes referenced from within the outer class body
                c = cls
                while c is not None:
                    if e.id in c.nested:
                        return c.nested[e.id]
                    c = c.outer
            return self.resolve_name(m, e.id, cls)
        if isinstance(e, ast.Attribute):
            base = self.resolve_expr_to_symbol(m, e.value, cls)
            if isinstance(base, tuple) and base[0] == 'module':
                modname = base[1]
                sub = f'{modname}.{e.attr}'
                if sub in self.modules:
                    return ('module', sub)
                if modname in self.modules:
                    return self.resolve_name(self.modules[modname], e.attr)
                return ('external', sub)
            if isinstance(base, ClassInfo):
                if e.attr in base.nested:
                    return base.nested[e.attr]
                f = base.lookup(e.attr)
                if f is not None:
                    return f
                a = base.lookup_attr(e.attr)
                if a is not None:
                    return ('classattr', a[0], e.attr)
                return None
            if isinstance(base, tuple) and base[0] == 'external':
                return ('external', f'{base[1]}.{e.attr}')
        return None

    # ------------------------------------------------------------- utilities
    def all_functions(self) -> list[FuncInfo]:
        return list(self.functions.values())

    def stats(self) -> dict:
        return {
            'modules': len(self.modules),
            'classes': len(self.classes),
            'functions': len(self.functions),
            'lines': sum(len(m.lines) for m in self.modules.values()),
        }
