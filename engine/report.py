"""Obligations, verdicts, evidence and the shared analysis context."""
from __future__ import annotations

import ast
import json
import os
import time
import traceback
from dataclasses import dataclass, field, asdict

from .index import Repo, FuncInfo, ClassInfo, AnalysisError
from .fold import Folder
from .types import Types, CallGraph
from .cfg import CFG, is_sys_exit_call

VERIF_DIR = os.path.dirname(os.path.dirname(os.path.abspath(__file__)))


@dataclass
class Obligation:
    rule: str
    key: str
    desc: str
    status: str      # pass | refuted | error
    site: str
    detail: str = ''
    witness: dict | None = None


class Ctx:
    """Everything a rule needs: the index, folder, types, call graph and CFG cache of one repository tree."""

    def __init__(self, repo_root: str, prop_id: str, tier: str = 'quick'):
        self.repo_root = repo_root
        self.prop = prop_id
        self.tier = tier
        self.repo = Repo(repo_root)
        from .normalize import normalise
        self.normalised = normalise(self.repo)
        from .canon import canonicalise
        self.renamed_locals = canonicalise(self.repo)
        self.fold = Folder(self.repo)
        self._types = None
        self._cg = None
        self._cfgs: dict[str, CFG] = {}
        self._noreturn: set[str] | None = None
        self.obligations: list[Obligation] = []
        self.rule_titles: dict[str, str] = {}
        self.rule_min: dict[str, int] = {}
        self.notes: list[str] = []
        self._cur_rule = None

    # ------------------------------------------------------------ components
    @property
    def types(self) -> Types:
        if self._types is None:
            self._types = Types(self.repo)
            self._cg = CallGraph(self.repo, self._types)
        return self._types

    @property
    def cg(self) -> CallGraph:
        if self._cg is None:
            _ = self.types
        return self._cg

    def func(self, qualname: str) -> FuncInfo:
        return self.repo.func('bespokeasm.' + qualname if not qualname.startswith('bespokeasm') else qualname)

    def cls(self, qualname: str) -> ClassInfo:
        return self.repo.cls('bespokeasm.' + qualname if not qualname.startswith('bespokeasm') else qualname)

    def noreturn_funcs(self) -> set[str]:
        """Functions that can never return normally (every path ends in sys.exit / raise)."""
        if self._noreturn is None:
            nr: set[str] = set()
            for _ in range(3):
                changed = False
                for fn in self.repo.all_functions():
                    k = CallGraph.key(fn)
                    if k in nr:
                        continue
                    g = CFG(fn.node, self._noreturn_pred(fn, nr))
                    if g.exit not in g.reachable_from(g.entry):
                        # abstract stubs that only `raise NotImplementedError` are overridden: not "never returns"
                        if fn.cls is not None and any(fn.name in sc.methods for sc in fn.cls.all_subclasses()):
                            continue
                        nr.add(k)
                        changed = True
                if not changed:
                    break
            self._noreturn = nr
        return self._noreturn

    def _noreturn_pred(self, fn: FuncInfo, nr: set[str]):
        if not nr:
            return lambda c: False
        env = self.types.env(fn)

        def pred(call: ast.Call) -> bool:
            targets, status = self.types.call_targets(call, env)
            return bool(targets) and all(CallGraph.key(t) in nr for t, _ in targets)
        return pred

    def cfg(self, fn: FuncInfo) -> CFG:
        k = CallGraph.key(fn)
        if k not in self._cfgs:
            self._cfgs[k] = CFG(fn.node, self._noreturn_pred(fn, self.noreturn_funcs()))
        return self._cfgs[k]

    def short(self, fn: FuncInfo | ClassInfo | str) -> str:
        q = fn if isinstance(fn, str) else fn.qualname
        return q[len('bespokeasm.'):] if q.startswith('bespokeasm.') else q

    # ----------------------------------------------------------- obligations
    def rule(self, rule_id: str, title: str, min_instances: int = 1):
        self.rule_titles[rule_id] = title
        self.rule_min[rule_id] = min_instances
        self._cur_rule = rule_id

    def _add(self, status, key, site, desc, detail, witness=None, rule=None):
        self.obligations.append(Obligation(rule or self._cur_rule, key, desc, status, site, detail, witness))

    def ok(self, key, site, desc, detail=''):
        self._add('pass', key, site, desc, detail)

    def refute(self, key, site, desc, detail, witness=None):
        self._add('refuted', key, site, desc, detail, witness)

    def err(self, key, site, desc, detail):
        self._add('error', key, site, desc, detail)

    def check(self, cond, key, site, desc, fail_detail, ok_detail='', witness=None):
        if cond:
            self.ok(key, site, desc, ok_detail)
        else:
            self.refute(key, site, desc, fail_detail, witness)
        return bool(cond)

    def note(self, text: str):
        self.notes.append(text)

    def site(self, fn: FuncInfo, node: ast.AST | None = None) -> str:
        return fn.site(node)


def run_rules(ctx: Ctx, rules: list) -> None:
    """rules: list of callables(ctx). Each declares itself with ctx.rule(...) first."""
    for r in rules:
        before = len(ctx.obligations)
        ctx._cur_rule = getattr(r, 'rule_id', r.__name__)
        try:
            r(ctx)
        except AnalysisError as e:
            ctx._add('error', 'anchor', '-', 'anchors of this rule exist and have a recognised shape', str(e))
        except Exception as e:  # checker bug or unforeseen construct: never a verdict
            tb = traceback.format_exc(limit=6)
            ctx._add('error', 'exception', '-', 'rule evaluation completes', f'{type(e).__name__}: {e}\n{tb}')
        rid = ctx._cur_rule
        n = len([o for o in ctx.obligations[before:] if o.rule == rid])
        need = ctx.rule_min.get(rid, 1)
        has_error = any(o.status == 'error' for o in ctx.obligations[before:])
        if n < need and not has_error:
            ctx._add('error', 'min-instances', '-',
                     f'rule matches at least {need} site(s) (confirmed by hand); a rule matching fewer passes vacuously',
                     f'matched {n}')


# ------------------------------------------------------------------ known findings

def load_known(path: str | None = None) -> list[dict]:
    path = path or os.path.join(VERIF_DIR, 'known_findings.json')
    if not os.path.exists(path):
        return []
    with open(path) as f:
        return json.load(f).get('findings', [])


def classify(ctx: Ctx, known: list[dict]):
    """Split refuted obligations into known findings and new violations."""
    kn = {(k['rule'], k['key']): k for k in known if k.get('status') == 'known' and k.get('property') == ctx.prop}
    viol, kf = [], []
    for o in ctx.obligations:
        if o.status != 'refuted':
            continue
        if (o.rule, o.key) in kn:
            kf.append((o, kn[(o.rule, o.key)]))
        else:
            viol.append(o)
    errors = [o for o in ctx.obligations if o.status == 'error']
    return viol, kf, errors


def write_evidence(ctx: Ctx, viol, kf, errors, wall_s: float, seed: int, explanation: str,
                   assumptions: list[str], extra: dict | None = None) -> str:
    ev_dir = os.path.join(VERIF_DIR, 'evidence')
    os.makedirs(ev_dir, exist_ok=True)
    obs = ctx.obligations
    passed = [o for o in obs if o.status == 'pass']
    distinct = len({(o.rule, o.key) for o in obs if o.status in ('pass', 'refuted')})
    samples = []
    for o in obs[:400]:
        samples.append({'rule': o.rule, 'instance': o.key, 'site': o.site, 'requires': o.desc,
                        'verdict': o.status, 'detail': o.detail[:400]})
    rules = {}
    for rid, title in ctx.rule_titles.items():
        mine = [o for o in obs if o.rule == rid]
        rules[rid] = {
            'title': title, 'instances': len(mine), 'min_instances': ctx.rule_min.get(rid, 1),
            'passed': sum(o.status == 'pass' for o in mine), 'refuted': sum(o.status == 'refuted' for o in mine),
            'errors': sum(o.status == 'error' for o in mine),
        }
    cov = {
        'explanation': explanation,
        'obligations': len(obs),
        'discharged': len(passed),
        'evaluations': max(len(obs), 1),
        'distinct_nontrivial': distinct,
        'rule': 'one evaluation per rule instance (obligation) found in the current source tree; an instance is '
                'non-trivial when it is bound to a concrete construct (file:line) and distinct by (rule, semantic key)',
        'samples': samples,
        'rules': rules,
        'repository': ctx.repo.stats(),
        'analysed_root': ctx.repo_root,
        'refuted_new': len(viol), 'refuted_known': len(kf), 'analysis_errors': len(errors),
        'notes': ctx.notes,
        'exhaustive': False,
    }
    cov['alpha_normalised_locals'] = ctx.renamed_locals
    cov['normalised'] = ctx.normalised
    if ctx._cg is not None:
        cov['call_graph'] = ctx.cg.stats()
        cov['unresolved_calls'] = [f'{fn.site(n)} {ast.unparse(n)[:80]}' for fn, n in ctx.cg.unresolved]
    if extra:
        cov.update(extra)
    ev = {
        'property_id': ctx.prop, 'tier': ctx.tier, 'seed': seed, 'level': 'other', 'coverage': cov,
        'assumptions': assumptions, 'wall_s': round(wall_s, 3), 'violations': len(viol),
    }
    path = os.path.join(ev_dir, f'{ctx.prop}.json')
    tmp = path + '.tmp'
    with open(tmp, 'w') as f:
        json.dump(ev, f, indent=1, default=str)
    os.replace(tmp, path)
    return path


def write_replays(ctx: Ctx, viol) -> list[str]:
    rp_dir = os.path.join(VERIF_DIR, 'evidence', 'replay')
    os.makedirs(rp_dir, exist_ok=True)
    # remove stale replays of this property
    for fn in os.listdir(rp_dir):
        if fn.startswith(ctx.prop + '-'):
            try:
                os.remove(os.path.join(rp_dir, fn))
            except OSError:
                pass
    paths = []
    for i, o in enumerate(viol):
        p = os.path.join(rp_dir, f'{ctx.prop}-{o.rule}-{i}.json')
        with open(p, 'w') as f:
            json.dump({'property': ctx.prop, **asdict(o)}, f, indent=1, default=str)
        paths.append(p)
    return paths
