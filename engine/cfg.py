"""Statement-level control-flow graph for one function, with dominators and branch facts.

Nodes:
  entry, exit (normal return / fall off the end), raise_exit (uncaught raise), abort_exit (sys.exit)
  stmt    - a simple statement (Assign, Expr, Return, Raise, ...)
  test    - the test expression of If / While (ast in .expr)
  iter    - the header of a For loop (.stmt is the For; .expr the iterable)
  branch  - pseudo node on the true/false edge of a test/iter node (.test = test node id, .polarity)
  with    - the header of a With
  handler - entry of an except handler
A Return statement node has an edge to exit; a Raise to the innermost enclosing handlers or raise_exit.
Every statement inside a try body has an exceptional edge to each handler of that try (over-approximation).
"""
from __future__ import annotations

import ast
from dataclasses import dataclass, field


@dataclass
class Node:
    id: int
    kind: str
    stmt: ast.stmt | None = None
    expr: ast.expr | None = None
    test: int | None = None
    polarity: bool | None = None
    label: str = ''

    @property
    def lineno(self):
        for x in (self.stmt, self.expr):
            if x is not None and hasattr(x, 'lineno'):
                return x.lineno
        return None

    def __repr__(self):
        src = ''
        try:
            if self.kind in ('test', 'iter') and self.expr is not None:
                src = ast.unparse(self.expr)
            elif self.stmt is not None:
                src = ast.unparse(self.stmt).split('\n')[0]
        except Exception:
            pass
        pol = '' if self.polarity is None else ('T' if self.polarity else 'F')
        return f'<{self.id}:{self.kind}{pol} L{self.lineno} {src[:60]}>'


def is_sys_exit_call(e: ast.AST) -> bool:
    if not isinstance(e, ast.Call):
        return False
    f = e.func
    if isinstance(f, ast.Attribute) and f.attr == 'exit' and isinstance(f.value, ast.Name) and f.value.id == 'sys':
        return True
    if isinstance(f, ast.Name) and f.id in ('exit', 'quit'):
        return True
    if isinstance(f, ast.Attribute) and f.attr == '_exit' and isinstance(f.value, ast.Name) and f.value.id == 'os':
        return True
    return False


class CFG:
    def __init__(self, func_node: ast.FunctionDef, noreturn_call=None):
        """noreturn_call: optional predicate(ast.Call) -> bool for calls known never to return."""
        self.func = func_node
        self.nodes: list[Node] = []
        self.succ: dict[int, list[int]] = {}
        self.pred: dict[int, list[int]] = {}
        self._noreturn_call = noreturn_call or (lambda c: False)
        self.entry = self._new('entry').id
        self.exit = self._new('exit').id
        self.raise_exit = self._new('raise_exit').id
        self.abort_exit = self._new('abort_exit').id
        self._stmt_node: dict[int, int] = {}    # id(ast stmt) -> node id
        self._expr_owner: dict[int, int] = {}   # id(ast node) -> node id owning it
        self._loop_stack: list[tuple[int, int]] = []  # (continue target, break-join placeholder list id)
        self._break_lists: list[list[int]] = []
        self._handler_stack: list[list[int]] = []
        self.exc_edges: set[tuple[int, int]] = set()   # edges taken only when a statement raises into an enclosing handler
        ends = self._seq(func_node.body, [self.entry])
        for e in ends:
            self._edge(e, self.exit)
        self._dom = None
        self._pdom = None
        self._index_exprs()

    # ------------------------------------------------------------ building
    def _new(self, kind, **kw) -> Node:
        n = Node(len(self.nodes), kind, **kw)
        self.nodes.append(n)
        self.succ[n.id] = []
        self.pred[n.id] = []
        return n

    def _edge(self, a: int, b: int):
        if b not in self.succ[a]:
            self.succ[a].append(b)
            self.pred[b].append(a)

    def _exc_edges(self, nid: int):
        if self._handler_stack:
            for h in self._handler_stack[-1]:
                if h not in self.succ[nid]:
                    self.exc_edges.add((nid, h))
                self._edge(nid, h)

    def _seq(self, stmts: list[ast.stmt], preds: list[int]) -> list[int]:
        cur = preds
        for st in stmts:
            cur = self._stmt(st, cur)
        return cur

    def _branches(self, test_id: int) -> tuple[int, int]:
        t = self._new('branch', test=test_id, polarity=True)
        f = self._new('branch', test=test_id, polarity=False)
        self._edge(test_id, t.id)
        self._edge(test_id, f.id)
        return t.id, f.id

    def _stmt(self, st: ast.stmt, preds: list[int]) -> list[int]:
        if isinstance(st, ast.If):
            tn = self._new('test', stmt=st, expr=st.test)
            self._stmt_node[id(st)] = tn.id
            for p in preds:
                self._edge(p, tn.id)
            self._exc_edges(tn.id)
            t, f = self._branches(tn.id)
            ends_t = self._seq(st.body, [t])
            ends_f = self._seq(st.orelse, [f]) if st.orelse else [f]
            return ends_t + ends_f
        if isinstance(st, ast.While):
            tn = self._new('test', stmt=st, expr=st.test)
            self._stmt_node[id(st)] = tn.id
            for p in preds:
                self._edge(p, tn.id)
            self._exc_edges(tn.id)
            t, f = self._branches(tn.id)
            self._loop_stack.append((tn.id, len(self._break_lists)))
            self._break_lists.append([])
            ends_body = self._seq(st.body, [t])
            for e in ends_body:
                self._edge(e, tn.id)
            breaks = self._break_lists.pop()
            self._loop_stack.pop()
            ends_else = self._seq(st.orelse, [f]) if st.orelse else [f]
            return ends_else + breaks
        if isinstance(st, (ast.For, ast.AsyncFor)):
            it = self._new('iter', stmt=st, expr=st.iter)
            self._stmt_node[id(st)] = it.id
            for p in preds:
                self._edge(p, it.id)
            self._exc_edges(it.id)
            t, f = self._branches(it.id)
            self._loop_stack.append((it.id, len(self._break_lists)))
            self._break_lists.append([])
            ends_body = self._seq(st.body, [t])
            for e in ends_body:
                self._edge(e, it.id)
            breaks = self._break_lists.pop()
            self._loop_stack.pop()
            ends_else = self._seq(st.orelse, [f]) if st.orelse else [f]
            return ends_else + breaks
        if isinstance(st, (ast.With, ast.AsyncWith)):
            wn = self._new('with', stmt=st)
            self._stmt_node[id(st)] = wn.id
            for p in preds:
                self._edge(p, wn.id)
            self._exc_edges(wn.id)
            return self._seq(st.body, [wn.id])
        if isinstance(st, ast.Try):
            handler_ids = []
            for h in st.handlers:
                hn = self._new('handler', stmt=h)
                self._stmt_node[id(h)] = hn.id
                handler_ids.append(hn.id)
            # a handler that does not match lets the exception propagate outward
            outer = self._handler_stack[-1] if self._handler_stack else []
            catches_all = any(h.type is None or (isinstance(h.type, ast.Name) and h.type.id in ('BaseException',))
                              for h in st.handlers)
            self._handler_stack.append(handler_ids + ([] if catches_all else list(outer)))
            ends_body = self._seq(st.body, preds)
            self._handler_stack.pop()
            ends_else = self._seq(st.orelse, ends_body) if st.orelse else ends_body
            ends_handlers = []
            for h, hid in zip(st.handlers, handler_ids):
                ends_handlers += self._seq(h.body, [hid])
            ends = ends_else + ends_handlers
            if st.finalbody:
                ends = self._seq(st.finalbody, ends)
            return ends
        if isinstance(st, ast.Match):
            # not used in this code base; treat every case as a possible branch
            mn = self._new('stmt', stmt=st)
            self._stmt_node[id(st)] = mn.id
            for p in preds:
                self._edge(p, mn.id)
            ends = [mn.id]
            for c in st.cases:
                ends += self._seq(c.body, [mn.id])
            return ends
        if isinstance(st, (ast.FunctionDef, ast.AsyncFunctionDef, ast.ClassDef)):
            n = self._new('stmt', stmt=st, label='def')
            self._stmt_node[id(st)] = n.id
            for p in preds:
                self._edge(p, n.id)
            return [n.id]
        # simple statements
        n = self._new('stmt', stmt=st)
        self._stmt_node[id(st)] = n.id
        for p in preds:
            self._edge(p, n.id)
        if isinstance(st, ast.Return):
            self._exc_edges(n.id)
            self._edge(n.id, self.exit)
            return []
        if isinstance(st, ast.Raise):
            if self._handler_stack and self._handler_stack[-1]:
                for h in self._handler_stack[-1]:
                    self._edge(n.id, h)
                # may also be uncaught if no handler matches
                self._edge(n.id, self.raise_exit)
            else:
                self._edge(n.id, self.raise_exit)
            return []
        if isinstance(st, ast.Break):
            self._break_lists[-1].append(n.id)
            return []
        if isinstance(st, ast.Continue):
            self._edge(n.id, self._loop_stack[-1][0])
            return []
        if isinstance(st, ast.Expr) and (is_sys_exit_call(st.value)
                                         or (isinstance(st.value, ast.Call) and self._noreturn_call(st.value))):
            self._edge(n.id, self.abort_exit)
            return []
        self._exc_edges(n.id)
        return [n.id]

    def _index_exprs(self):
        for n in self.nodes:
            roots = []
            if n.kind in ('test', 'iter') and n.expr is not None:
                roots.append(n.expr)
                if n.kind == 'iter':
                    roots.append(n.stmt.target)
            elif n.kind == 'with':
                for item in n.stmt.items:
                    roots.append(item.context_expr)
                    if item.optional_vars is not None:
                        roots.append(item.optional_vars)
            elif n.kind == 'handler':
                if n.stmt.type is not None:
                    roots.append(n.stmt.type)
            elif n.kind == 'stmt' and n.stmt is not None and n.label != 'def':
                roots.append(n.stmt)
            for r in roots:
                for sub in ast.walk(r):
                    self._expr_owner.setdefault(id(sub), n.id)

    # -------------------------------------------------------------- queries
    def node_of(self, a: ast.AST) -> int:
        """CFG node that evaluates the given ast node (statement or sub-expression)."""
        if id(a) in self._stmt_node:
            return self._stmt_node[id(a)]
        if id(a) in self._expr_owner:
            return self._expr_owner[id(a)]
        raise KeyError(f'ast node not in this CFG: {ast.dump(a)[:80]}')

    def has_node(self, a: ast.AST) -> bool:
        return id(a) in self._stmt_node or id(a) in self._expr_owner

    def reachable_from(self, start: int, avoiding: set[int] | frozenset = frozenset(), normal_only: bool = False) -> set[int]:
        """normal_only: do not follow the edges a raising statement takes into a handler."""
        seen = set()
        todo = [start]
        while todo:
            x = todo.pop()
            if x in seen or x in avoiding:
                continue
            seen.add(x)
            todo.extend(y for y in self.succ[x] if not (normal_only and (x, y) in self.exc_edges))
        return seen

    def reaches(self, a: int, b: int, avoiding=frozenset()) -> bool:
        if a in avoiding:
            return False
        seen = set()
        todo = list(self.succ[a])
        while todo:
            x = todo.pop()
            if x in seen or x in avoiding:
                continue
            if x == b:
                return True
            seen.add(x)
            todo.extend(self.succ[x])
        return False

    def live_nodes(self) -> set[int]:
        return self.reachable_from(self.entry)

    def _compute_dom(self):
        live = self.live_nodes()
        order = []
        seen = set()

        def dfs(start):
            stack = [(start, iter(self.succ[start]))]
            seen.add(start)
            while stack:
                node, it = stack[-1]
                advanced = False
                for s in it:
                    if s not in seen:
                        seen.add(s)
                        stack.append((s, iter(self.succ[s])))
                        advanced = True
                        break
                if not advanced:
                    order.append(node)
                    stack.pop()
        dfs(self.entry)
        rpo = list(reversed(order))
        allset = set(rpo)
        dom = {n: set(allset) for n in rpo}
        dom[self.entry] = {self.entry}
        changed = True
        while changed:
            changed = False
            for n in rpo:
                if n == self.entry:
                    continue
                ps = [p for p in self.pred[n] if p in live]
                if not ps:
                    continue
                new = set.intersection(*(dom[p] for p in ps)) | {n}
                if new != dom[n]:
                    dom[n] = new
                    changed = True
        self._dom = dom

    def dominators(self, n: int) -> set[int]:
        if self._dom is None:
            self._compute_dom()
        return self._dom.get(n, set())

    def dominates(self, a: int, b: int) -> bool:
        return a in self.dominators(b)

    def is_live(self, n: int) -> bool:
        if self._dom is None:
            self._compute_dom()
        return n in self._dom

    def branch_facts(self, n: int) -> list[tuple[ast.expr, bool, int]]:
        """(test expression, polarity, test node id) for every test branch dominating n.
        For-loop headers are excluded (their 'test' is not a boolean expression)."""
        out = []
        for d in sorted(self.dominators(n)):
            nd = self.nodes[d]
            if nd.kind == 'branch' and self.nodes[nd.test].kind == 'test':
                out.append((self.nodes[nd.test].expr, nd.polarity, nd.test))
        return out

    def loop_facts(self, n: int) -> list[tuple[ast.For, int]]:
        """For loops whose body dominates n."""
        out = []
        for d in sorted(self.dominators(n)):
            nd = self.nodes[d]
            if nd.kind == 'branch' and nd.polarity and self.nodes[nd.test].kind == 'iter':
                out.append((self.nodes[nd.test].stmt, nd.test))
        return out

    def all_paths_through(self, a: int, b: int, through: set[int]) -> bool:
        """Every path a -> b passes through a node of `through` (vacuously true when b unreachable from a)."""
        if a in through or b in through:
            return True
        return not self.reaches(a, b, avoiding=frozenset(through))

    def stmt_nodes(self, pred=None) -> list[Node]:
        return [n for n in self.nodes if n.kind == 'stmt' and (pred is None or pred(n))]

    def return_nodes(self) -> list[Node]:
        return [n for n in self.nodes if n.kind == 'stmt' and isinstance(n.stmt, ast.Return) and self.is_live(n.id)]

    def nodes_between(self, a: int, b: int) -> set[int]:
        """Nodes lying on some path from a to b (exclusive of a, inclusive of b)."""
        fwd = self.reachable_from(a)
        # backward reachability from b
        back = set()
        todo = [b]
        while todo:
            x = todo.pop()
            if x in back:
                continue
            back.add(x)
            todo.extend(self.pred[x])
        return (fwd & back) - {a}

    def exits_of(self, n: int) -> set[str]:
        """Which exits are reachable from n."""
        r = self.reachable_from(n)
        out = set()
        if self.exit in r:
            out.add('return')
        if self.raise_exit in r:
            out.add('raise')
        if self.abort_exit in r:
            out.add('abort')
        return out


def assigned_names(node: ast.AST) -> set[str]:
    """Names (and attribute chains, as dotted text) stored to by a statement/expression."""
    out = set()
    for sub in ast.walk(node):
        if isinstance(sub, (ast.Name, ast.Attribute, ast.Subscript)) and isinstance(getattr(sub, 'ctx', None), (ast.Store, ast.Del)):
            try:
                out.add(ast.unparse(sub))
            except Exception:
                pass
        elif isinstance(sub, ast.NamedExpr) and isinstance(sub.target, ast.Name):
            out.add(sub.target.id)
    return out
