"""Thorough-tier self-test: seeded breaks must be refuted, behaviour-preserving twins must be silent.

Each variant is an edit applied to a scratch copy of <repo>/src (created with mkdtemp outside /repo and
/verif and removed immediately after it has been analysed). Nothing is executed: the scratch copy is only
re-analysed by the same rules. A variant whose anchor text is not present in the current tree (because the
tree under analysis was edited) is skipped and counted, never reported.
"""
from __future__ import annotations

import importlib
import os
import shutil
import tempfile
from concurrent.futures import ProcessPoolExecutor
from dataclasses import dataclass


@dataclass
class V:
    """A source variant: replace `old` by `new` (exactly one occurrence) in src/bespokeasm/<file>."""
    id: str
    file: str
    old: str
    new: str
    expect: str | None = None      # rule id (or 'rule:key') that must newly refute; None for twins
    note: str = ''


@dataclass
class P:
    """A source variant given as a unified diff against the repository root (an archived seeded change or refactoring)."""
    id: str
    patch: str
    expect: str | None = None      # 'any' for seeded changes (some new refutation), None for behaviour-preserving patches
    file: str = ''


def _apply(root: str, v) -> bool:
    if isinstance(v, P):
        import subprocess
        r = subprocess.run(['patch', '-p1', '-s', '-f', '--no-backup-if-mismatch', '-i', v.patch], cwd=root, capture_output=True, text=True)
        return r.returncode == 0
    p = os.path.join(root, 'src', 'bespokeasm', v.file)
    if not os.path.exists(p):
        return False
    with open(p) as f:
        s = f.read()
    if s.count(v.old) != 1:
        return False
    with open(p, 'w') as f:
        f.write(s.replace(v.old, v.new))
    return True


def _refuted(repo_root: str, prop: str):
    from .report import Ctx, run_rules
    mod = importlib.import_module(f'rules.{prop.lower()}')
    ctx = Ctx(repo_root, prop, 'quick')
    run_rules(ctx, list(mod.RULES) + list(getattr(mod, 'THOROUGH_RULES', [])))
    ref = sorted({(o.rule, o.key) for o in ctx.obligations if o.status == 'refuted'})
    err = sorted({(o.rule, o.key, o.detail[:200]) for o in ctx.obligations if o.status == 'error'})
    return ref, err


def _run_variant(args):
    repo_root, prop, v, is_twin = args
    tmp = tempfile.mkdtemp(prefix='bsa_selftest_')
    try:
        shutil.copytree(os.path.join(repo_root, 'src'), os.path.join(tmp, 'src'),
                        ignore=shutil.ignore_patterns('__pycache__', '*.pyc', '*.egg-info'))
        if not _apply(tmp, v):
            return (v.id, 'skipped', [], [])
        try:
            ref, err = _refuted(tmp, prop)
        except Exception as e:  # noqa
            return (v.id, 'crash', [], [('-', '-', f'{type(e).__name__}: {e}')])
        return (v.id, 'ran', ref, err)
    finally:
        shutil.rmtree(tmp, ignore_errors=True)


def run_selftest(prop: str, repo_root: str, ctx=None, jobs: int | None = None) -> dict:
    mod = importlib.import_module(f'rules.{prop.lower()}')
    mutants = list(getattr(mod, 'MUTANTS', []))
    twins = list(getattr(mod, 'TWINS', []))
    # archived changes written by independent sub-agents: seeded breaks of this property, and behaviour-preserving refactorings
    import glob
    vdir = os.path.dirname(os.path.dirname(os.path.abspath(__file__)))
    for pth in sorted(glob.glob(os.path.join(vdir, 'seeded', f'{prop}-*', 'patch.diff'))):
        sid = os.path.basename(os.path.dirname(pth))
        mutants.append(P(f'seed:{sid}', pth, 'any', f'seeded/{sid}'))
    for pth in sorted(glob.glob(os.path.join(vdir, 'refactors', '*', 'patch.diff'))):
        rid = os.path.basename(os.path.dirname(pth))
        twins.append(P(f'refactoring:{rid}', pth, None, f'refactors/{rid}'))
    if ctx is not None:
        base_ref = {(o.rule, o.key) for o in ctx.obligations if o.status == 'refuted'}
        base_err = {(o.rule, o.key) for o in ctx.obligations if o.status == 'error'}
    else:
        r, e = _refuted(repo_root, prop)
        base_ref, base_err = set(map(tuple, r)), {(a, b) for a, b, _ in e}
    work = [(repo_root, prop, v, False) for v in mutants] + [(repo_root, prop, v, True) for v in twins]
    results = {}
    if work:
        jobs = jobs or min(16, os.cpu_count() or 4, len(work))
        with ProcessPoolExecutor(max_workers=jobs) as ex:
            for vid, status, ref, err in ex.map(_run_variant, work):
                results[vid] = (status, {tuple(x) for x in ref}, err)
    failed = []
    detail = []
    caught = skipped = silent = 0
    for v in mutants:
        status, ref, err = results[v.id]
        if status == 'skipped':
            skipped += 1
            detail.append({'variant': v.id, 'kind': 'seeded-break', 'result': 'skipped (anchor text not in current tree)'})
            continue
        new = ref - base_ref
        want_rule, _, want_key = (v.expect or '').partition(':')
        hit = [x for x in new if v.expect == 'any' or (x[0] == want_rule and (not want_key or x[1] == want_key))]
        if hit:
            caught += 1
            detail.append({'variant': v.id, 'kind': 'seeded-break', 'result': 'refuted', 'by': [f'{a} [{b}]' for a, b in sorted(hit)]})
        else:
            newerr = [e for e in err if (e[0], e[1]) not in base_err]
            failed.append(f'seeded break {v.id} ({v.file}) not refuted by {v.expect}; new refutations={sorted(new)} new errors={newerr[:2]}')
            detail.append({'variant': v.id, 'kind': 'seeded-break', 'result': 'MISSED'})
    for v in twins:
        status, ref, err = results[v.id]
        if status == 'skipped':
            skipped += 1
            detail.append({'variant': v.id, 'kind': 'twin', 'result': 'skipped (anchor text not in current tree)'})
            continue
        new = ref - base_ref
        newerr = [e for e in err if (e[0], e[1]) not in base_err]
        if new or newerr or status == 'crash':
            failed.append(f'behaviour-preserving twin {v.id} ({v.file}) raised {sorted(new)} errors={newerr[:2]}')
            detail.append({'variant': v.id, 'kind': 'twin', 'result': 'FALSE ALARM', 'raised': [f'{a} [{b}]' for a, b in sorted(new)]})
        else:
            silent += 1
            detail.append({'variant': v.id, 'kind': 'twin', 'result': 'silent'})
    summary = {
        'seeded_breaks': len(mutants), 'seeded_breaks_refuted': caught,
        'twins': len(twins), 'twins_silent': silent, 'skipped': skipped, 'variants': detail,
    }
    return {'summary': summary, 'failed': failed}


def main():
    import sys
    props = sys.argv[1:] or [f'C{i:02d}' for i in range(1, 21)]
    rc = 0
    for p in props:
        try:
            importlib.import_module(f'rules.{p.lower()}')
        except ModuleNotFoundError:
            continue
        st = run_selftest(p, os.environ.get('VERIF_REPO', '/repo'))
        s = st['summary']
        print(f'{p}: seeded {s["seeded_breaks_refuted"]}/{s["seeded_breaks"]} refuted, twins {s["twins_silent"]}/{s["twins"]} silent, skipped {s["skipped"]}')
        for f in st['failed']:
            print('  FAIL', f)
            rc = 1
    return rc


if __name__ == '__main__':
    raise SystemExit(main())
