"""Abstract interpretation of list-building code over the domain 'sequence of named segments'.

The abstract state maps local names to sequences of opaque segment names (('code', i), 'OPCODE', ...), to abstract
operand records, to enum constants or to booleans. Configuration flags are finite and are case-split by the caller.
Supported operations: list literals, +, append, insert(0, x), extend, reverse(), reversed(), slicing [::-1],
comprehensions over the abstract operand list, if/else on decidable tests, for over the operand list.
Anything else raises SeqUnsupported (an analysis error, never a verdict). No repository code is executed: this
is an interpreter for the abstract domain above, applied to the function's syntax tree.
"""
from __future__ import annotations

import ast
from dataclasses import dataclass


class SeqUnsupported(Exception):
    pass


@dataclass(frozen=True)
class AbsOperand:
    index: int
    position: object      # enum-like token: 'PREFIX' | 'SUFFIX' | None
    has_code: bool
    has_arg: bool


class _Continue(Exception):
    pass


class _Break(Exception):
    pass


class _Return(Exception):
    def __init__(self, value):
        self.value = value


class SeqInterp:
    def __init__(self, fn_node: ast.FunctionDef, self_attrs: dict, params: dict, fold_enum):
        """self_attrs: {'_operands': [AbsOperand...], '_reverse_arg_order': bool, ...};
        params: {'base_bytecode': 'OPCODE', 'base_bytecode_suffix': 'SUFFIX' | None};
        fold_enum(expr) -> name of an enum member or None."""
        self.fn = fn_node
        self.self_attrs = self_attrs
        self.env = dict(params)
        self.fold_enum = fold_enum

    def run(self):
        try:
            self.block(self.fn.body)
        except _Return as r:
            return r.value
        raise SeqUnsupported('function falls off the end without returning')

    # ----------------------------------------------------------------- statements
    def block(self, stmts):
        for st in stmts:
            self.stmt(st)

    def stmt(self, st):
        if isinstance(st, ast.Expr):
            if isinstance(st.value, ast.Constant):
                return
            self.expr(st.value)
            return
        if isinstance(st, ast.Assign):
            v = self.expr(st.value)
            for t in st.targets:
                if not isinstance(t, ast.Name):
                    raise SeqUnsupported(f'assignment target {ast.unparse(t)}')
                self.env[t.id] = list(v) if isinstance(v, list) else v
            return
        if isinstance(st, ast.AnnAssign):
            if not isinstance(st.target, ast.Name) or st.value is None:
                raise SeqUnsupported('annotated assignment form')
            v = self.expr(st.value)
            self.env[st.target.id] = list(v) if isinstance(v, list) else v
            return
        if isinstance(st, ast.AugAssign):
            if isinstance(st.target, ast.Name) and isinstance(st.op, ast.Add):
                cur = self.env.get(st.target.id)
                v = self.expr(st.value)
                if isinstance(cur, list) and isinstance(v, list):
                    cur.extend(v)
                    return
            raise SeqUnsupported('augmented assignment form')
        if isinstance(st, ast.If):
            t = self.expr(st.test)
            if not isinstance(t, bool):
                raise SeqUnsupported(f'undecidable test {ast.unparse(st.test)}')
            self.block(st.body if t else st.orelse)
            return
        if isinstance(st, ast.For):
            it = self.expr(st.iter)
            if not isinstance(it, list):
                raise SeqUnsupported(f'loop over {ast.unparse(st.iter)}')
            broke = False
            for item in list(it):
                self.bind(st.target, item)
                try:
                    self.block(st.body)
                except _Continue:
                    continue
                except _Break:
                    broke = True
                    break
            if not broke:
                self.block(st.orelse)
            return
        if isinstance(st, ast.Continue):
            raise _Continue()
        if isinstance(st, ast.Break):
            raise _Break()
        if isinstance(st, ast.Return):
            raise _Return(self.expr(st.value) if st.value is not None else None)
        if isinstance(st, ast.Pass):
            return
        raise SeqUnsupported(f'statement {type(st).__name__}')

    def bind(self, target, value):
        if isinstance(target, ast.Name):
            self.env[target.id] = value
        elif isinstance(target, ast.Tuple) and isinstance(value, tuple) and len(value) == len(target.elts):
            for t, v in zip(target.elts, value):
                self.bind(t, v)
        else:
            raise SeqUnsupported('loop target form')

    # ---------------------------------------------------------------- expressions
    def expr(self, e):
        if isinstance(e, ast.Constant):
            return e.value
        if isinstance(e, ast.Name):
            if e.id in self.env:
                return self.env[e.id]
            raise SeqUnsupported(f'unknown name {e.id}')
        if isinstance(e, ast.List):
            return [self.expr(x) for x in e.elts]
        if isinstance(e, ast.Tuple):
            return tuple(self.expr(x) for x in e.elts)
        if isinstance(e, ast.Attribute):
            en = self.fold_enum(e)
            if en is not None:
                return ('enum', en)
            if isinstance(e.value, ast.Name) and e.value.id == 'self':
                if e.attr in self.self_attrs:
                    return self.self_attrs[e.attr]
                raise SeqUnsupported(f'unknown attribute self.{e.attr}')
            base = self.expr(e.value)
            if isinstance(base, AbsOperand):
                if e.attr == 'bytecode':
                    return ('code', base.index) if base.has_code else None
                if e.attr == 'argument':
                    return ('arg', base.index) if base.has_arg else None
                if e.attr == 'operand':
                    return ('operand-def', base)
            if isinstance(base, tuple) and base and base[0] == 'operand-def':
                if e.attr == 'bytecode_position':
                    return ('enum', base[1].position) if base[1].position else None
            raise SeqUnsupported(f'attribute {ast.unparse(e)}')
        if isinstance(e, ast.BinOp) and isinstance(e.op, ast.Add):
            l, r = self.expr(e.left), self.expr(e.right)
            if isinstance(l, list) and isinstance(r, list):
                return l + r
            raise SeqUnsupported('+ on non-lists')
        if isinstance(e, ast.Compare) and len(e.ops) == 1:
            l, r = self.expr(e.left), self.expr(e.comparators[0])
            op = e.ops[0]
            if isinstance(op, (ast.Is, ast.Eq)):
                return l == r if not (r is None or l is None) else (l is r)
            if isinstance(op, (ast.IsNot, ast.NotEq)):
                return l != r if not (r is None or l is None) else (l is not r)
            if isinstance(op, ast.In) and isinstance(r, (list, tuple)):
                return l in r
            if isinstance(op, ast.NotIn) and isinstance(r, (list, tuple)):
                return l not in r
            raise SeqUnsupported(f'comparison {ast.unparse(e)}')
        if isinstance(e, ast.UnaryOp) and isinstance(e.op, ast.Not):
            v = self.expr(e.operand)
            if isinstance(v, bool):
                return not v
            raise SeqUnsupported('not on non-boolean')
        if isinstance(e, ast.BoolOp):
            vals = [self.expr(v) for v in e.values]
            if all(isinstance(v, bool) for v in vals):
                return all(vals) if isinstance(e.op, ast.And) else any(vals)
            raise SeqUnsupported('boolean operator on non-booleans')
        if isinstance(e, ast.IfExp):
            t = self.expr(e.test)
            if not isinstance(t, bool):
                raise SeqUnsupported('undecidable conditional expression')
            return self.expr(e.body if t else e.orelse)
        if isinstance(e, ast.Subscript):
            base = self.expr(e.value)
            if isinstance(base, list) and isinstance(e.slice, ast.Slice) and e.slice.lower is None and e.slice.upper is None \
                    and e.slice.step is not None and ast.unparse(e.slice.step) == '-1':
                return list(reversed(base))
            if isinstance(base, list) and isinstance(e.slice, ast.Slice) and e.slice.lower is None and e.slice.upper is None and e.slice.step is None:
                return list(base)
            raise SeqUnsupported(f'subscript {ast.unparse(e)}')
        if isinstance(e, (ast.ListComp, ast.GeneratorExp)):
            if len(e.generators) != 1:
                raise SeqUnsupported('nested comprehension')
            g = e.generators[0]
            it = self.expr(g.iter)
            if not isinstance(it, list):
                raise SeqUnsupported('comprehension iterable')
            out = []
            saved = dict(self.env)
            for item in it:
                self.bind(g.target, item)
                ok = True
                for c in g.ifs:
                    v = self.expr(c)
                    if not isinstance(v, bool):
                        raise SeqUnsupported('undecidable comprehension filter')
                    ok = ok and v
                if ok:
                    out.append(self.expr(e.elt))
            self.env = saved
            return out
        if isinstance(e, ast.Call):
            f = e.func
            if isinstance(f, ast.Name):
                args = [self.expr(a) for a in e.args]
                if f.id == 'list' and len(args) == 1 and isinstance(args[0], list):
                    return list(args[0])
                if f.id == 'reversed' and len(args) == 1 and isinstance(args[0], list):
                    return list(reversed(args[0]))
                if f.id == 'len' and len(args) == 1 and isinstance(args[0], list):
                    return len(args[0])
                if f.id == 'enumerate' and len(args) == 1 and isinstance(args[0], list):
                    return [(i, x) for i, x in enumerate(args[0])]
                raise SeqUnsupported(f'call {f.id}')
            if isinstance(f, ast.Attribute):
                recv = self.expr(f.value)
                args = [self.expr(a) for a in e.args]
                if isinstance(recv, list):
                    if f.attr == 'append' and len(args) == 1:
                        recv.append(args[0])
                        return None
                    if f.attr == 'insert' and len(args) == 2 and isinstance(args[0], int):
                        recv.insert(args[0], args[1])
                        return None
                    if f.attr == 'extend' and len(args) == 1 and isinstance(args[0], list):
                        recv.extend(args[0])
                        return None
                    if f.attr == 'reverse' and not args:
                        recv.reverse()
                        return None
                    if f.attr == 'copy' and not args:
                        return list(recv)
                raise SeqUnsupported(f'method {ast.unparse(f)}')
        raise SeqUnsupported(f'expression {type(e).__name__}: {ast.unparse(e)[:60]}')
