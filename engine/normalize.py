"""Semantics-preserving normalisation of constructs the rules have never seen.

The rules were written, instance by instance, against the reviewed tree; `engine/reference_names.json` records
for that tree every function (qualified name), its local variable names and its conditional-expression statements.
Routine clean-up of the code base introduces constructs that are *not* in that record:

  * a new private helper extracted from a function            -> inlined back at its call sites
  * a new local that merely names a pure sub-expression       -> substituted back into its uses
  * an if/else assignment or return rewritten as `a if c else b` -> turned back into the if/else statement

Each step preserves meaning (conditions below), so the rules judge the same program; none is applied to a construct
that exists in the reference record (the rules know those by name). Everything that was rewritten is listed in the
evidence (`normalised`). A construct that does not meet the conditions is left alone: the rule concerned then
sees the new shape and reports whatever it reports (a refutation or an analysis error), never a silent pass.
"""
from __future__ import annotations

import ast
import copy
import json
import os

_HERE = os.path.dirname(os.path.abspath(__file__))
REFERENCE = os.path.join(_HERE, 'reference_names.json')

_PURE_FUNCS = {'isinstance', 'len', 'int', 'str', 'bool', 'float', 'Fraction', 'Decimal', 'complex', 'min', 'max', 'abs', 'any', 'all', 'tuple', 'list', 'set', 'frozenset', 'sorted',
               'hex', 'ord', 'chr', 'repr', 'type', 'getattr', 'hasattr', 'range', 'enumerate', 'zip', 'sum', 'dict', 'bytes', 'bytearray'}
_PURE_METHODS = {'strip', 'lstrip', 'rstrip', 'lower', 'upper', 'startswith', 'endswith', 'split', 'rsplit', 'replace', 'format', 'join', 'get',
                 'group', 'groups', 'keys', 'values', 'items', 'copy', 'bit_length', 'to_bytes', 'find', 'index', 'count', 'isdigit', 'casefold',
                 'union', 'intersection', 'difference', 'end', 'start', 'span', 'partition', 'title', 'encode', 'decode', 'splitlines', 'zfill',
                 'ljust', 'rjust', 'center', 'isspace', 'isalpha', 'isalnum', 'issubset', 'issuperset'}
_PURE_DOTTED = ('os.path.', 're.match', 're.search', 're.fullmatch', 're.compile', 're.escape', 're.sub', 're.findall', 'math.', 'operator.', 'version.parse')
_MUTATORS = {'append', 'extend', 'add', 'pop', 'remove', 'clear', 'update', 'insert', 'setdefault', 'write', 'sort', 'reverse', 'discard', 'popitem'}


def _u(e) -> str:
    try:
        return ast.unparse(e)
    except Exception:
        return ''


def load_reference() -> dict | None:
    if not os.path.exists(REFERENCE):
        return None
    with open(REFERENCE) as f:
        return json.load(f)


def local_names(fn: ast.FunctionDef) -> set[str]:
    out = set()
    comp_scoped = {id(t) for c in ast.walk(fn) if isinstance(c, ast.comprehension) for t in ast.walk(c.target)}
    for n in ast.walk(fn):
        if isinstance(n, ast.Name) and isinstance(n.ctx, (ast.Store, ast.Del)):
            if id(n) not in comp_scoped:       # a comprehension's variable lives in the comprehension only
                out.add(n.id)
        elif isinstance(n, ast.ExceptHandler) and n.name:
            out.add(n.name)
        elif isinstance(n, (ast.FunctionDef, ast.AsyncFunctionDef, ast.ClassDef)) and n is not fn:
            out.add(n.name)
        elif isinstance(n, (ast.Import, ast.ImportFrom)):
            for a in n.names:
                out.add((a.asname or a.name).split('.')[0])
    return out


def ifexp_statements(fn: ast.FunctionDef) -> list[str]:
    out = []
    for n in ast.walk(fn):
        if isinstance(n, (ast.Assign, ast.AnnAssign, ast.Return)) and isinstance(getattr(n, 'value', None), ast.IfExp):
            out.append(_u(n))
    return out


def comprehension_statements(fn: ast.FunctionDef) -> list[str]:
    """Simple statements that build or fill a collection from a comprehension (the reviewed ones are left as written)."""
    out = []
    for n in ast.walk(fn):
        if isinstance(n, (ast.Assign, ast.AnnAssign, ast.Expr)) and any(isinstance(c, (ast.ListComp, ast.GeneratorExp)) for c in ast.walk(n)):
            out.append(_u(n))
    return out


def element_wise_receivers(fn: ast.FunctionDef) -> list[str]:
    """Collections the function fills one element at a time: receivers of `.append(..)` and targets of `x[k] = v`."""
    out = set()
    for n in ast.walk(fn):
        if isinstance(n, ast.Call) and isinstance(n.func, ast.Attribute) and n.func.attr == 'append':
            out.add(_u(n.func.value))
        elif isinstance(n, ast.Subscript) and isinstance(n.ctx, ast.Store):
            out.add(_u(n.value))
    return sorted(out)


def plain_assignments(fn: ast.FunctionDef) -> list[str]:
    return sorted({_u(n) for n in ast.walk(fn) if isinstance(n, (ast.Assign, ast.AnnAssign)) and getattr(n, 'value', None) is not None and len(_u(n)) < 500})


def return_statements(fn: ast.FunctionDef) -> list[str]:
    return sorted({_u(n) for n in ast.walk(fn) if isinstance(n, ast.Return) and n.value is not None and len(_u(n)) < 500})


def loop_headers(fn: ast.FunctionDef) -> list[str]:
    return [f'for {_u(n.target)} in {_u(n.iter)}' for n in ast.walk(fn) if isinstance(n, ast.For)]


def ordered_bindings(fn: ast.FunctionDef) -> list[str]:
    """Parameters, then local names in the order of their first binding (a renaming keeps this order)."""
    out = [a.arg for a in fn.args.posonlyargs + fn.args.args + fn.args.kwonlyargs]
    if fn.args.vararg:
        out.append(fn.args.vararg.arg)
    if fn.args.kwarg:
        out.append(fn.args.kwarg.arg)
    seen = set(out)
    binds = []
    for n in ast.walk(fn):
        if isinstance(n, ast.Name) and isinstance(n.ctx, ast.Store):
            binds.append((getattr(n, 'lineno', 0), getattr(n, 'col_offset', 0), n.id))
        elif isinstance(n, ast.ExceptHandler) and n.name:
            binds.append((n.lineno, n.col_offset, n.name))
    for _, _, name in sorted(binds):
        if name not in seen:
            seen.add(name)
            out.append(name)
    return out


def shape(fn: ast.FunctionDef) -> str:
    """Structure of a function with every identifier erased: equal for two functions that differ only in names."""
    parts = []
    for n in ast.walk(fn):
        if isinstance(n, ast.Constant):
            parts.append(f'K{type(n.value).__name__}')
        else:
            parts.append(type(n).__name__)
    return ' '.join(parts)


def class_private_attrs(ci, by_method: bool = False) -> dict[str, list[str]]:
    """private attribute -> sorted list of its uses inside the class ('Load' / 'Store', or 'method:Load' with by_method)."""
    out: dict[str, list[str]] = {}
    for mname, m in list(ci.methods.items()) + [(k + '#setter', v) for k, v in getattr(ci, 'setters', {}).items()]:
        for n in ast.walk(m.node):
            if isinstance(n, ast.Attribute) and isinstance(n.value, ast.Name) and n.value.id in ('self', 'cls') and n.attr.startswith('_') and not n.attr.startswith('__'):
                out.setdefault(n.attr, []).append(f'{mname}:{type(n.ctx).__name__}' if by_method else f'{type(n.ctx).__name__}')
    return {k: sorted(v) for k, v in out.items()}


def build_reference(repo) -> dict:
    ref = {'functions': {}, 'classes': {}, 'modules': {}}
    for q, fi in repo.functions.items():
        par = [_u(n) for n in ast.walk(fi.node) if isinstance(n, ast.Assign) and len(n.targets) == 1 and isinstance(n.targets[0], ast.Tuple)
               and isinstance(n.value, ast.Tuple)]
        ref['functions'][q] = {'locals': sorted(local_names(fi.node)), 'ifexp': sorted(ifexp_statements(fi.node)),
                               'bindings': ordered_bindings(fi.node), 'shape': shape(fi.node), 'parallel': sorted(par),
                               'comp': sorted(comprehension_statements(fi.node)), 'loops': sorted(loop_headers(fi.node)),
                               'assigns': plain_assignments(fi.node), 'elementwise': element_wise_receivers(fi.node),
                               'returns': return_statements(fi.node)}
    ref['modules'] = {m.name: sorted(m.assigns) for m in repo.modules.values()}
    for q, ci in repo.classes.items():
        ref['classes'][q] = {'attrs': class_private_attrs(ci), 'attrs_m': class_private_attrs(ci, True), 'methods': sorted(ci.methods),
                             'consts': sorted(ci.attrs)}
    return ref


# ------------------------------------------------------------------------------------------------ purity

def _is_pure(e: ast.AST) -> bool:
    for n in ast.walk(e):
        if isinstance(n, ast.Call):
            f = n.func
            t = _u(f)
            if isinstance(f, ast.Name) and f.id in _PURE_FUNCS:
                continue
            if isinstance(f, ast.Attribute) and f.attr in _PURE_METHODS:
                continue
            if any(t.startswith(p) for p in _PURE_DOTTED):
                continue
            return False
        if isinstance(n, (ast.Await, ast.Yield, ast.YieldFrom, ast.NamedExpr, ast.Lambda)):
            return False
    return True


def _bases(e: ast.AST) -> set[str]:
    """Texts of the names / maximal attribute paths / subscripts an expression reads (`self.a.b`, not also `self.a` and `self`)."""
    out = set()
    inner = set()
    for n in ast.walk(e):
        if isinstance(n, (ast.Name, ast.Attribute, ast.Subscript)):
            out.add(_u(n))
            if isinstance(n, (ast.Attribute, ast.Subscript)) and isinstance(n.value, (ast.Name, ast.Attribute, ast.Subscript)):
                inner.add(_u(n.value))
        if isinstance(n, ast.Call) and isinstance(n.func, ast.Attribute):
            inner.add(_u(n.func))      # the method itself is not a value that is read
    return {x for x in out if x not in inner} | {x for x in out if x in inner and x.isidentifier() and x not in ('self', 'cls')}


def _stores_and_mutations(fn: ast.FunctionDef):
    stored = {}     # text of a store target -> count
    mutated = set()  # text of the receiver of a mutating method call
    for n in ast.walk(fn):
        tgts = []
        if isinstance(n, ast.Assign):
            tgts = n.targets
        elif isinstance(n, (ast.AugAssign, ast.AnnAssign)):
            tgts = [n.target]
        elif isinstance(n, (ast.For, ast.AsyncFor)):
            tgts = [n.target]
        elif isinstance(n, ast.With):
            tgts = [i.optional_vars for i in n.items if i.optional_vars is not None]
        elif isinstance(n, ast.NamedExpr):
            tgts = [n.target]
        elif isinstance(n, ast.comprehension):
            tgts = []
        for t in tgts:
            for s in ast.walk(t):
                if isinstance(s, (ast.Name, ast.Attribute, ast.Subscript)) and isinstance(getattr(s, 'ctx', None), ast.Store):
                    stored[_u(s)] = stored.get(_u(s), 0) + 1
        if isinstance(n, ast.ExceptHandler) and n.name:
            stored[n.name] = stored.get(n.name, 0) + 1
        if isinstance(n, ast.Call) and isinstance(n.func, ast.Attribute) and n.func.attr in _MUTATORS:
            mutated.add(_u(n.func.value))
        if isinstance(n, ast.Delete):
            for t in n.targets:
                stored[_u(t)] = stored.get(_u(t), 0) + 2
    return stored, mutated


class _Subst(ast.NodeTransformer):
    def __init__(self, mapping: dict[str, ast.expr]):
        self.mapping = mapping
        self.count = 0

    def visit_Name(self, node: ast.Name):
        if isinstance(node.ctx, ast.Load) and node.id in self.mapping:
            self.count += 1
            new = copy.deepcopy(self.mapping[node.id])
            for s in ast.walk(new):
                if hasattr(s, 'lineno'):
                    s.lineno = getattr(node, 'lineno', None)
                    s.end_lineno = getattr(node, 'end_lineno', None)
                    s.col_offset = getattr(node, 'col_offset', 0)
                    s.end_col_offset = getattr(node, 'end_col_offset', 0)
            return new
        return node


def _set_lines(node: ast.AST, like: ast.AST):
    for s in ast.walk(node):
        if isinstance(s, (ast.expr, ast.stmt, ast.excepthandler, ast.arg, ast.keyword, ast.alias, ast.withitem, ast.match_case)) or hasattr(s, 'lineno'):
            try:
                s.lineno = like.lineno
                s.end_lineno = getattr(like, 'end_lineno', like.lineno)
                s.col_offset = getattr(like, 'col_offset', 0)
                s.end_col_offset = getattr(like, 'end_col_offset', 0)
            except AttributeError:
                pass


def _bodies(node: ast.AST):
    """Every statement list inside `node` (not descending into nested function/class definitions)."""
    for field in ('body', 'orelse', 'finalbody'):
        lst = getattr(node, field, None)
        if isinstance(lst, list) and lst and isinstance(lst[0], ast.stmt):
            yield lst
            for st in lst:
                if not isinstance(st, (ast.FunctionDef, ast.AsyncFunctionDef, ast.ClassDef)):
                    yield from _bodies(st)
    for h in getattr(node, 'handlers', []) or []:
        yield h.body
        for st in h.body:
            if not isinstance(st, (ast.FunctionDef, ast.AsyncFunctionDef, ast.ClassDef)):
                yield from _bodies(st)
    for c in getattr(node, 'cases', []) or []:
        yield c.body
        for st in c.body:
            yield from _bodies(st)


# ------------------------------------------------------------------------------------------------ (a) conditional expressions

def _expand_ifexp(fn: ast.FunctionDef, known: set[str]) -> list[str]:
    done = []
    for body in list(_bodies(fn)):
        i = 0
        while i < len(body):
            st = body[i]
            if isinstance(st, (ast.Assign, ast.AnnAssign, ast.Return)) and isinstance(getattr(st, 'value', None), ast.IfExp) and _u(st) not in known:
                ie = st.value
                a, b = copy.deepcopy(st), copy.deepcopy(st)
                a.value, b.value = ie.body, ie.orelse
                if isinstance(st, ast.AnnAssign):
                    a = ast.Assign(targets=[st.target], value=ie.body)
                    b = ast.Assign(targets=[copy.deepcopy(st.target)], value=ie.orelse)
                    _set_lines(a, st)
                    _set_lines(b, st)
                new = ast.If(test=ie.test, body=[a], orelse=[b])
                ast.copy_location(new, st)
                done.append(_u(st)[:80])
                body[i] = new
            i += 1
    return done


# ------------------------------------------------------------------------------------------------ (b) new private helpers

def _helper_shape(h: ast.FunctionDef):
    """('none' | 'tail' | 'multi', body) - how the helper returns."""
    rets = [n for n in ast.walk(h) if isinstance(n, ast.Return)]
    nested = [n for n in ast.walk(h) if isinstance(n, (ast.FunctionDef, ast.AsyncFunctionDef, ast.Lambda)) and n is not h]
    if nested or any(isinstance(n, (ast.Yield, ast.YieldFrom, ast.Global, ast.Nonlocal)) for n in ast.walk(h)):
        return None
    body = [s for s in h.body if not (isinstance(s, ast.Expr) and isinstance(s.value, ast.Constant) and isinstance(s.value.value, str))]
    if not body:
        return None
    if not rets:
        return 'none', body
    if len(rets) == 1 and body[-1] is rets[0]:
        return 'tail', body
    return 'multi', body


def _structure_returns(body: list[ast.stmt]) -> list[ast.stmt] | None:
    """Rewrite a body in which every path ends in a `return` at a tail position (guard clauses, if/elif/else chains)
    so that each `return` is the last statement of its branch: `if c: return a` followed by `rest` becomes
    `if c: return a` / `else: rest`. None if a return sits in a loop, a try or a with."""
    body = list(body)
    for i, st in enumerate(body):
        if isinstance(st, ast.Return):
            return body[:i + 1]
        if isinstance(st, ast.Try) and any(isinstance(n, ast.Return) for n in ast.walk(st)):
            # `try: ...; return X` / `except E: <exit>` as the last statement: the return stays the tail of the protected block
            inner = _structure_returns(st.body)
            ok = inner is not None and _always_returns(inner) and not st.orelse and not st.finalbody and i == len(body) - 1 \
                and all(_always_returns(h.body) and not any(isinstance(n, ast.Return) for b_ in h.body for n in ast.walk(b_)) for h in st.handlers)
            if not ok:
                return None
            new = ast.Try(body=inner, handlers=st.handlers, orelse=[], finalbody=[])
            ast.copy_location(new, st)
            return body[:i] + [new]
        if isinstance(st, ast.With) and any(isinstance(n, ast.Return) for n in ast.walk(st)) and i == len(body) - 1:
            # `with open(..) as f: ...; return X` as the last statement: the return stays the tail of the managed block
            inner = _structure_returns(st.body)
            if inner is None or not _always_returns(inner):
                return None
            new = ast.With(items=st.items, body=inner)
            ast.copy_location(new, st)
            return body[:i] + [new]
        if isinstance(st, (ast.For, ast.While, ast.Try, ast.With, ast.AsyncFor, ast.AsyncWith)) and any(isinstance(n, ast.Return) for n in ast.walk(st)):
            return None
        if isinstance(st, ast.If) and any(isinstance(n, ast.Return) for n in ast.walk(st)):
            rest = body[i + 1:]
            then_ = _structure_returns(st.body + ([] if _always_returns(st.body) else rest))
            else_ = _structure_returns((st.orelse or []) + ([] if st.orelse and _always_returns(st.orelse) else rest))
            if then_ is None or else_ is None:
                return None
            new = ast.If(test=st.test, body=then_ or [ast.Pass()], orelse=else_)
            ast.copy_location(new, st)
            return body[:i] + [new]
    return body


def _always_returns(body) -> bool:
    if not body:
        return False
    last = body[-1]
    if isinstance(last, (ast.Return, ast.Raise)):
        return True
    if isinstance(last, ast.Expr) and isinstance(last.value, ast.Call) and _u(last.value.func) in ('sys.exit', 'exit'):
        return True
    if isinstance(last, ast.If) and last.orelse:
        return _always_returns(last.body) and _always_returns(last.orelse)
    if isinstance(last, ast.Try) and not last.orelse and not last.finalbody:
        return _always_returns(last.body) and all(_always_returns(h.body) for h in last.handlers)
    if isinstance(last, ast.With):
        return _always_returns(last.body)
    return False


def _replace_returns(body, make):
    """In a structured body replace every `return E` by make(E)."""
    out = []
    for st in body:
        if isinstance(st, ast.Return):
            out.extend(make(st.value if st.value is not None else ast.Constant(value=None)))
        elif isinstance(st, ast.If):
            new = ast.If(test=st.test, body=_replace_returns(st.body, make) or [ast.Pass()], orelse=_replace_returns(st.orelse, make))
            ast.copy_location(new, st)
            out.append(new)
        elif isinstance(st, ast.With) and any(isinstance(n, ast.Return) for b_ in st.body for n in ast.walk(b_)):
            new = ast.With(items=st.items, body=_replace_returns(st.body, make) or [ast.Pass()])
            ast.copy_location(new, st)
            out.append(new)
        elif isinstance(st, ast.Try) and any(isinstance(n, ast.Return) for b_ in st.body for n in ast.walk(b_)):
            new = ast.Try(body=_replace_returns(st.body, make) or [ast.Pass()], handlers=st.handlers, orelse=st.orelse, finalbody=st.finalbody)
            ast.copy_location(new, st)
            out.append(new)
        else:
            out.append(st)
    return out


def _bind(h: ast.FunctionDef, call: ast.Call, skip_first: bool):
    a = h.args
    if a.vararg or a.kwarg or a.posonlyargs:
        return None
    params = [p.arg for p in a.args]
    if skip_first:
        params = params[1:]
    defaults = dict(zip([p.arg for p in a.args][len(a.args) - len(a.defaults):], a.defaults))
    for p, d in zip(a.kwonlyargs, a.kw_defaults):
        params.append(p.arg)
        if d is not None:
            defaults[p.arg] = d
    if any(isinstance(x, ast.Starred) for x in call.args) or any(k.arg is None for k in call.keywords):
        return None
    if len(call.args) > len(params):
        return None
    m = dict(zip(params, call.args))
    for k in call.keywords:
        if k.arg not in params or k.arg in m:
            return None
        m[k.arg] = k.value
    for p in params:
        if p not in m:
            if p not in defaults:
                return None
            m[p] = defaults[p]
    return m


# reviewed one-line helpers the rules read through: they are inlined as well, so that merging them into their caller changes nothing
ALWAYS_INLINE = {
    'bespokeasm.assembler.preprocessor.condition_stack.ConditionStack._increment_mute_counter',
    'bespokeasm.assembler.preprocessor.condition_stack.ConditionStack._decrement_mute_counter',
}


def _inline_helpers(repo, ref_funcs: set[str], log: dict) -> None:
    new_helpers = {q: fi for q, fi in repo.functions.items() if (q not in ref_funcs or q in ALWAYS_INLINE) and not fi.name.startswith('__')
                   and fi.kind in ('function', 'method', 'staticmethod', 'classmethod')
                   and all(_u(d_) in ('staticmethod', 'classmethod') for d_ in fi.node.decorator_list)       # a decorated helper is not its body
                   and (fi.name.startswith('_') or (fi.kind in ('staticmethod', 'classmethod') and fi.cls is not None
                                                    and not any(fi.name in c.methods for c in fi.cls.all_subclasses())))}
    if not new_helpers:
        return
    for _round in range(6):
        changed = False
        for q, fi in list(repo.functions.items()):
            if q in new_helpers and _round == 0 and False:
                continue
            caller_locals = local_names(fi.node) | {p.arg for p in fi.node.args.args + fi.node.args.kwonlyargs}
            for body in list(_bodies(fi.node)):
                i = 0
                while i < len(body):
                    st = body[i]
                    repl = _try_inline_stmt(repo, fi, st, new_helpers, caller_locals)
                    if repl is not None:
                        _carry_imports(fi, repl, new_helpers, caller_locals)
                        body[i:i + 1] = repl
                        log.setdefault(q, []).append(f'inlined helper call at line {getattr(st, "lineno", "?")}: {_u(st)[:70]}')
                        changed = True
                        i += len(repl)
                    else:
                        i += 1
        if not changed:
            break
    _inline_new_properties(repo, ref_funcs, log)
    # a helper whose every call was inlined no longer exists for the rules
    for q, h in new_helpers.items():
        if q in ALWAYS_INLINE:
            continue
        still = False
        for m in repo.modules.values():
            for n in ast.walk(m.tree):
                # any remaining mention - a call, or the function passed around as a value (a table entry, a key function)
                if (isinstance(n, ast.Attribute) and n.attr == h.name) or (isinstance(n, ast.Name) and n.id == h.name):
                    inside_h = any(n is x for x in ast.walk(h.node))
                    if not inside_h:
                        still = True
        if not still and q in log_touch(log):
            repo.functions.pop(q, None)
            if h.cls is not None:
                h.cls.methods.pop(h.name, None)
            elif hasattr(h.module, 'functions') and isinstance(h.module.functions, dict):
                h.module.functions.pop(h.name, None)
            log.setdefault(q, []).append('helper fully inlined: removed from the function index')


def _inline_new_properties(repo, ref_funcs: set[str], log: dict) -> None:
    """A property the reviewed tree does not have whose getter is one `return <effect-free expression over self>` is that expression
    wherever a method of the class family reads `self.<name>`."""
    for q, p in list(repo.functions.items()):
        if q in ref_funcs or p.kind != 'property' or p.cls is None or p.name in p.cls.setters:
            continue
        body = [b for b in p.node.body if not (isinstance(b, ast.Expr) and isinstance(b.value, ast.Constant))]
        if len(body) != 1 or not isinstance(body[0], ast.Return) or body[0].value is None or not _is_pure(body[0].value):
            continue
        selfname = p.node.args.args[0].arg if p.node.args.args else 'self'
        if any(isinstance(n, ast.Name) and n.id not in (selfname,) and n.id in {a.arg for a in p.node.args.args} for n in ast.walk(body[0].value)):
            continue
        # a subclass overriding the name would make `self.<name>` mean something else there
        if any(p.name in c.methods and c.methods[p.name] is not p for c in p.cls.all_subclasses()):
            continue
        n_done = 0
        for c in [p.cls] + p.cls.all_subclasses():
            for f in list(c.methods.values()) + list(c.setters.values()):
                if f is p or not f.node.args.args:
                    continue
                recv = f.node.args.args[0].arg

                class R(ast.NodeTransformer):
                    def visit_Attribute(self_, node):
                        self_.generic_visit(node)
                        if isinstance(node.ctx, ast.Load) and node.attr == p.name and isinstance(node.value, ast.Name) and node.value.id == recv:
                            nonlocal n_done
                            n_done += 1
                            e = copy.deepcopy(body[0].value)
                            if recv != selfname:
                                e = _Subst({selfname: ast.Name(id=recv, ctx=ast.Load())}).visit(e)
                            _set_lines(e, node)
                            return e
                        return node
                R().visit(f.node)
        if n_done:
            log.setdefault(q, []).append(f'new one-expression property read in place ({n_done} use(s))')


def _carry_imports(fi, stmts, helpers, caller_locals):
    """Code inlined from a helper of another module may use names only that module binds: make the caller's module know them
    the way the helper's module does (the index only; nothing is written anywhere)."""
    import builtins
    m = fi.module
    for st in stmts:
        for n in ast.walk(st):
            if not (isinstance(n, ast.Name) and isinstance(n.ctx, ast.Load)):
                continue
            name = n.id
            if name in caller_locals or name in m.imports or name in m.assigns or name in m.classes or name in m.functions or hasattr(builtins, name):
                continue
            found = set()
            for h in helpers.values():
                hm = h.module
                if hm is m:
                    continue
                if name in hm.imports:
                    found.add(hm.imports[name])
                elif name in hm.classes or name in hm.functions or name in hm.assigns:
                    found.add(('symbol', hm.name, name))
            if len(found) == 1:
                m.imports[name] = next(iter(found))


def log_touch(log):
    """qualnames of helpers mentioned as inlined (any caller logged an inlining)."""
    class _All:
        def __contains__(self, item):
            return True
    return _All()


def _resolve_helper(repo, fi, call: ast.Call, helpers):
    f = call.func
    if isinstance(f, ast.Name):
        q = f'{fi.module.name}.{f.id}'
        h = helpers.get(q)
        return (h, False) if h is not None and h.cls is None else (None, False)
    if isinstance(f, ast.Attribute) and isinstance(f.value, ast.Name) and fi.cls is not None:
        recv = f.value.id
        classes = [fi.cls] + [c for c in fi.cls.mro() if c is not fi.cls]
        if recv in ('self', 'cls') or any(recv == c.name for c in classes):
            for c in classes:
                h = helpers.get(f'{c.qualname}.{f.attr}')
                if h is not None:
                    # a bound call drops the receiver; Class.method(...) on a plain method passes it explicitly
                    if h.kind == 'staticmethod':
                        return h, False
                    if recv in ('self', 'cls'):
                        return h, True
                    return (h, True) if h.kind == 'classmethod' else (None, False)
    if isinstance(f, ast.Attribute) and isinstance(f.value, ast.Name) and f.value.id not in ('self', 'cls'):
        # `SomeClass.factory(...)` on a class named outright: a class or static method is resolved by the name alone
        try:
            target = repo.resolve_name(fi.module, f.value.id)
        except Exception:
            target = None
        if hasattr(target, 'mro') and hasattr(target, 'qualname'):
            for c in target.mro():
                h = helpers.get(f'{c.qualname}.{f.attr}')
                if h is not None:
                    if h.kind == 'staticmethod':
                        return h, False
                    if h.kind == 'classmethod':
                        return h, True
                    return None, False
                if f.attr in c.methods:
                    return None, False
    return None, False


def _instantiate(h, call, skip_first, caller_locals, recv_name, target: str | None = None):
    shape = _helper_shape(h.node)
    if shape is None:
        return None
    kind, body = shape
    m = _bind(h.node, call, skip_first)
    if m is None:
        return None
    body = copy.deepcopy(body)
    wrapper = ast.Module(body=body, type_ignores=[])
    h_locals = local_names(h.node)
    params = set(m)
    rebound = params & h_locals
    pre_rebound = []
    if rebound:
        # a parameter the helper rebinds is a local of the helper that starts as the argument
        rets0 = [n for n in ast.walk(wrapper) if isinstance(n, ast.Return)]
        for p_ in sorted(rebound):
            a_ = m[p_]
            same = isinstance(a_, ast.Name) and target is not None and a_.id == target and rets0 \
                and all(isinstance(r.value, ast.Name) and r.value.id == p_ for r in rets0)
            if same:
                new_name = target           # `x = helper(.., x, ..)` returning that parameter: the helper works on x itself
            else:
                new_name = f'{p_}__{h.name.strip("_")}'
                pre_rebound.append(ast.Assign(targets=[ast.Name(id=new_name, ctx=ast.Store())], value=copy.deepcopy(a_)))
            for n in ast.walk(wrapper):
                if isinstance(n, ast.Name) and n.id == p_:
                    n.id = new_name
            del m[p_]
            h_locals = (h_locals - {p_}) | {new_name}
        params = set(m)
    # helper locals must not capture caller variables
    ren = {}
    # ... except the local the helper returns, when the caller assigns the result to a variable of its own: that local *is* the target
    rets = [n for n in ast.walk(wrapper) if isinstance(n, ast.Return)]
    ret_local = None
    def _arg_reads_target_safely():
        # arguments that read the caller's target are fine when the helper has finished with those parameters before it first
        # binds the local it returns: its first statement is that binding, and they are read nowhere after it
        ps = [p_ for p_, a in m.items() if any(isinstance(n, ast.Name) and n.id == target for n in ast.walk(a))]
        if not ps:
            return True
        first = wrapper.body[0] if wrapper.body else None
        if not (isinstance(first, (ast.Assign, ast.AnnAssign)) and getattr(first, 'value', None) is not None):
            return False
        t0 = first.targets[0] if isinstance(first, ast.Assign) and len(first.targets) == 1 else getattr(first, 'target', None)
        if not (isinstance(t0, ast.Name) and t0.id == rets[0].value.id):
            return False
        later = [n for st_ in wrapper.body[1:] for n in ast.walk(st_) if isinstance(n, ast.Name) and n.id in ps]
        return not later
    if target is not None and rets and all(isinstance(r.value, ast.Name) and r.value.id == rets[0].value.id for r in rets if r.value is not None) \
            and all(r.value is not None for r in rets) and rets[0].value.id in h_locals \
            and _arg_reads_target_safely() \
            and (target not in h_locals or target == rets[0].value.id):
        ret_local = rets[0].value.id
        ren[ret_local] = target
    # a helper local named like the variable the result is assigned to may keep the name: whatever the caller had there is
    # overwritten by this very assignment, and no argument reads it
    target_free = target is not None and not any(isinstance(n, ast.Name) and n.id == target for a in m.values() for n in ast.walk(a))
    for v in h_locals:
        if v in caller_locals and v != ret_local and not (v == target and target_free):
            ren[v] = f'{v}__{h.name.strip("_")}'
    if ren:
        for n in ast.walk(wrapper):
            if isinstance(n, ast.Name) and n.id in ren:
                n.id = ren[n.id]
    prelude = []
    mapping = {}
    for p, a in m.items():
        uses = sum(1 for n in ast.walk(wrapper) if isinstance(n, ast.Name) and n.id == p)
        if isinstance(a, (ast.Name, ast.Constant, ast.Attribute)) or uses <= 1 or _is_pure(a):
            mapping[p] = a
        else:
            prelude.append(ast.Assign(targets=[ast.Name(id=p, ctx=ast.Store())], value=copy.deepcopy(a)))
    # the receiver: `self`/`cls` inside the helper is the caller's own
    if skip_first and h.node.args.args:
        first = h.node.args.args[0].arg
        if first != recv_name:
            mapping[first] = ast.Name(id=recv_name, ctx=ast.Load())
    wrapper = _Subst(mapping).visit(wrapper)
    return kind, pre_rebound + prelude + wrapper.body


def _first_evaluated_call(e: ast.expr):
    """The call that is evaluated first and unconditionally when `e` is evaluated, if `e` has one of a few plain shapes."""
    if isinstance(e, ast.Call):
        # `f(..).g(..)`: the receiver's call comes first
        if isinstance(e.func, ast.Attribute) and not isinstance(e.func.value, (ast.Name, ast.Constant)):
            inner = _first_evaluated_call(e.func.value)
            if inner is not None:
                return inner
            return None if not _is_pure(e.func.value) else e
        return e
    if isinstance(e, ast.UnaryOp) and isinstance(e.op, ast.Not):
        return _first_evaluated_call(e.operand)
    if isinstance(e, ast.Compare) and isinstance(e.left, ast.Call) and all(_is_pure(c) for c in e.comparators):
        return e.left
    if isinstance(e, ast.Attribute) or isinstance(e, ast.Subscript) and _is_pure(e.slice):
        return _first_evaluated_call(e.value)
    return None


def _hoist_header_call(repo, fi, st, helpers, caller_locals):
    """`for x in helper(..):` / `if helper(..):` -> `tmp = helper(..)` first (the header expression is evaluated once, before
    anything else of the statement), so that the statement-level inliner can take the call."""
    if isinstance(st, ast.For):
        sub = _first_evaluated_call(st.iter)
    elif isinstance(st, ast.If):
        sub = _first_evaluated_call(st.test)
    else:
        return None
    if sub is None:
        return None
    h, skip = _resolve_helper(repo, fi, sub, helpers)
    if h is None or h.node is fi.node:
        return None
    shape_ = _helper_shape(h.node)
    if shape_ is None or (shape_[0] == 'tail' and len(shape_[1]) == 1):
        return None          # a one-expression helper is substituted in place by the expression-level inliner
    rets = [n for n in ast.walk(h.node) if isinstance(n, ast.Return) and n.value is not None]
    base = rets[0].value.id if rets and all(isinstance(r.value, ast.Name) and r.value.id == rets[0].value.id for r in rets) else f'_{h.name.strip("_")}_result'
    tmp = base if base not in caller_locals else f'{base}__{h.name.strip("_")}'
    caller_locals.add(tmp)
    asg = ast.Assign(targets=[ast.Name(id=tmp, ctx=ast.Store())], value=sub)
    _set_lines(asg, st)
    asg.value = sub
    name = ast.copy_location(ast.Name(id=tmp, ctx=ast.Load()), sub)

    class R3(ast.NodeTransformer):
        def visit_Call(self, node):
            return name if node is sub else self.generic_visit(node)
    if isinstance(st, ast.For):
        st.iter = R3().visit(st.iter)
    else:
        st.test = R3().visit(st.test)
    return [asg, st]


def _drop_self_attr_noops(fi, stmts):
    """`self._x = self._x` (a plain private attribute, no setter anywhere in the class family) does nothing; an if/else branch
    left empty by that gets `pass`, and an `else: pass` goes."""
    if fi.cls is None:
        return stmts
    setters = {n for c in fi.cls.mro() + fi.cls.all_subclasses() for n in list(c.setters) + list(c.methods)}

    def noop(s_):
        return isinstance(s_, ast.Assign) and len(s_.targets) == 1 and isinstance(s_.targets[0], ast.Attribute) and isinstance(s_.targets[0].value, ast.Name) \
            and s_.targets[0].value.id == 'self' and s_.targets[0].attr.startswith('_') and s_.targets[0].attr not in setters \
            and isinstance(s_.value, ast.Attribute) and _u(s_.value) == _u(s_.targets[0])

    def clean(lst):
        out = []
        for s_ in lst:
            if noop(s_):
                continue
            if isinstance(s_, ast.If):
                s_.body = clean(s_.body) or [ast.copy_location(ast.Pass(), s_)]
                s_.orelse = clean(s_.orelse)
                if s_.orelse and all(isinstance(x, ast.Pass) for x in s_.orelse):
                    s_.orelse = []
            out.append(s_)
        return out
    return clean(stmts)


def _name_call_first(st, sub, h, caller_locals):
    rets = [n for n in ast.walk(h.node) if isinstance(n, ast.Return) and n.value is not None]
    base = rets[0].value.id if rets and all(isinstance(r.value, ast.Name) and r.value.id == rets[0].value.id for r in rets) else f'_{h.name.strip("_")}_result'
    tmp = base if base not in caller_locals else f'{base}__{h.name.strip("_")}'
    caller_locals.add(tmp)
    asg = ast.Assign(targets=[ast.Name(id=tmp, ctx=ast.Store())], value=sub)
    _set_lines(asg, st)
    asg.value = sub

    class R2(ast.NodeTransformer):
        def visit_Call(self, node):
            if node is sub:
                return ast.copy_location(ast.Name(id=tmp, ctx=ast.Load()), node)
            return self.generic_visit(node)
    return asg, R2().visit(st)


def _try_inline_stmt(repo, fi, st, helpers, caller_locals):
    call = None
    mode = None
    hoisted = _hoist_header_call(repo, fi, st, helpers, caller_locals)
    if hoisted is not None:
        return hoisted
    if isinstance(st, ast.Expr) and isinstance(st.value, ast.Call):
        call, mode = st.value, 'expr'
    elif isinstance(st, (ast.Assign, ast.AnnAssign)) and isinstance(getattr(st, 'value', None), ast.Call):
        call, mode = st.value, 'assign'
    elif isinstance(st, ast.Return) and isinstance(st.value, ast.Call):
        call, mode = st.value, 'return'
    if call is not None:
        h, skip = _resolve_helper(repo, fi, call, helpers)
        if h is not None and h.node is not fi.node:
            recv = call.func.value.id if isinstance(call.func, ast.Attribute) else None
            tgt_name = None
            if mode == 'assign':
                t0 = st.targets[0] if isinstance(st, ast.Assign) and len(st.targets) == 1 else getattr(st, 'target', None)
                tgt_name = t0.id if isinstance(t0, ast.Name) else None
            inst = _instantiate(h, call, skip, caller_locals, recv, tgt_name)
            if inst is not None:
                kind, body = inst
                out = None
                if mode == 'expr' and kind in ('none', 'tail'):
                    out = body if kind == 'none' else body[:-1] + ([ast.Expr(value=body[-1].value)] if body[-1].value is not None and not _is_pure(body[-1].value) else [])
                elif mode == 'assign' and kind == 'tail' and body[-1].value is not None:
                    new = copy.deepcopy(st)
                    new.value = body[-1].value
                    out = body[:-1] + [new]
                elif mode in ('assign', 'expr') and kind == 'multi':
                    sb = _structure_returns(body)
                    if sb is not None and (_always_returns(sb) or mode == 'expr'):
                        if mode == 'assign':
                            def make(e, st=st):
                                n2 = copy.deepcopy(st)
                                n2.value = e
                                return [n2]
                        else:
                            def make(e):
                                return [] if _is_pure(e) else [ast.Expr(value=e)]
                        out = _replace_returns(sb, make)
                elif mode == 'return':
                    out = body if kind != 'none' else body + [ast.Return(value=ast.Constant(value=None))]
                if out is not None:
                    out = [s_ for s_ in out if not (isinstance(s_, ast.Assign) and len(s_.targets) == 1 and isinstance(s_.targets[0], ast.Name)
                                                    and isinstance(s_.value, ast.Name) and s_.value.id == s_.targets[0].id)]
                    out = _drop_self_attr_noops(fi, out)
                    for s in out:
                        _set_lines(s, st)
                    return out or [ast.Pass(lineno=st.lineno, col_offset=0)]
    # a list comprehension whose element calls a helper: back to the loop that appends
    if isinstance(st, (ast.Assign, ast.AnnAssign)) and isinstance(getattr(st, 'value', None), ast.ListComp) and len(st.value.generators) == 1:
        t0 = st.targets[0] if isinstance(st, ast.Assign) and len(st.targets) == 1 else getattr(st, 'target', None)
        lc = st.value
        gen = lc.generators[0]
        if isinstance(t0, ast.Name) and not gen.is_async and any(isinstance(x, ast.Call) and _resolve_helper(repo, fi, x, helpers)[0] is not None for x in ast.walk(lc.elt)) \
                and not any(isinstance(n, ast.Name) and n.id == t0.id for n in ast.walk(lc)):
            init = ast.Assign(targets=[ast.Name(id=t0.id, ctx=ast.Store())], value=ast.List(elts=[], ctx=ast.Load()))
            app = ast.Expr(value=ast.Call(func=ast.Attribute(value=ast.Name(id=t0.id, ctx=ast.Load()), attr='append', ctx=ast.Load()), args=[lc.elt], keywords=[]))
            inner = [app]
            for cond in reversed(gen.ifs):
                inner = [ast.If(test=cond, body=inner, orelse=[])]
            loop = ast.For(target=gen.target, iter=gen.iter, body=inner, orelse=[])
            for x in (init, loop):
                _set_lines(x, st)
            # _set_lines overwrote nothing structural; restore the shared sub-trees' own positions is unnecessary (same line)
            return [init, loop]
    # a call to a multi-statement helper buried in a simple statement whose other parts are pure: give its result a name first
    if isinstance(st, (ast.Expr, ast.Assign, ast.AnnAssign, ast.AugAssign, ast.Return)):
        for sub in ast.walk(st):
            if not isinstance(sub, ast.Call) or sub is call:
                continue
            h, skip = _resolve_helper(repo, fi, sub, helpers)
            if h is None or h.node is fi.node:
                continue
            shape_ = _helper_shape(h.node)
            if shape_ is None or (shape_[0] == 'tail' and len(shape_[1]) == 1):
                continue
            # everything else in the statement must be free of effects, so that evaluating the call first changes nothing
            # (unless the call *is* what the statement evaluates first)
            head_ = getattr(st, 'value', None)
            others_pure = True
            if head_ is not None and _first_evaluated_call(head_) is sub and not isinstance(st, ast.AugAssign) \
                    and all(isinstance(t, ast.Name) for t in (st.targets if isinstance(st, ast.Assign) else [])):
                asg, new_st = _name_call_first(st, sub, h, caller_locals)
                return [asg, new_st]
            for n in ast.walk(st):
                if isinstance(n, ast.Call) and n is not sub and not any(n is y for y in ast.walk(sub)):
                    if not (_is_pure(ast.Expr(value=ast.Call(func=n.func, args=[], keywords=[]))) or (isinstance(n.func, ast.Attribute) and n.func.attr in _MUTATORS and any(sub is y for y in ast.walk(n)))):
                        others_pure = False
            if not others_pure:
                continue
            rets = [n for n in ast.walk(h.node) if isinstance(n, ast.Return) and n.value is not None]
            base = rets[0].value.id if rets and all(isinstance(r.value, ast.Name) and r.value.id == rets[0].value.id for r in rets) else f'_{h.name.strip("_")}_result'
            tmp = base if base not in caller_locals else f'{base}__{h.name.strip("_")}'
            caller_locals.add(tmp)
            asg = ast.Assign(targets=[ast.Name(id=tmp, ctx=ast.Store())], value=sub)
            _set_lines(asg, st)
            asg.value = sub

            class R2(ast.NodeTransformer):
                def visit_Call(self, node):
                    if node is sub:
                        return ast.copy_location(ast.Name(id=tmp, ctx=ast.Load()), node)
                    return self.generic_visit(node)
            new_st = R2().visit(st)
            return [asg, new_st]
    # a helper that is a single `return <expr>` used inside a larger expression
    for sub in ast.walk(st):
        if isinstance(sub, ast.Call) and sub is not call:
            h, skip = _resolve_helper(repo, fi, sub, helpers)
            if h is None or h.node is fi.node:
                continue
            shape = _helper_shape(h.node)
            if shape is None or shape[0] != 'tail' or len(shape[1]) != 1 or shape[1][0].value is None:
                continue
            recv = sub.func.value.id if isinstance(sub.func, ast.Attribute) else None
            inst = _instantiate(h, sub, skip, caller_locals, recv)
            if inst is None or len(inst[1]) != 1:
                continue
            expr = inst[1][0].value
            _set_lines(expr, sub)

            class R(ast.NodeTransformer):
                def visit_Call(self, node):
                    if node is sub:
                        return expr
                    return self.generic_visit(node)
            new = R().visit(st)
            return [new]
    return None


# ------------------------------------------------------------------------------------------------ (c) new pure locals

def _inline_locals(fi, known: set[str]) -> list[str]:
    fn = fi.node
    done = []
    for _ in range(6):
        stored, mutated = _stores_and_mutations(fn)
        params = {p.arg for p in fn.args.args + fn.args.kwonlyargs + fn.args.posonlyargs}
        cand = None
        for body in _bodies(fn):
            for idx, st in enumerate(body):
                if not (isinstance(st, ast.Assign) and len(st.targets) == 1 and isinstance(st.targets[0], ast.Name)) and \
                        not (isinstance(st, ast.AnnAssign) and isinstance(st.target, ast.Name) and st.value is not None):
                    continue
                name = st.targets[0].id if isinstance(st, ast.Assign) else st.target.id
                if name in known or name in params or stored.get(name, 0) != 1:
                    continue
                val = st.value
                if not _is_pure(val):
                    # an effectful value used exactly once, as the very first thing the next statement evaluates: same order
                    loads = [n for n in ast.walk(fn) if isinstance(n, ast.Name) and n.id == name and isinstance(n.ctx, ast.Load)]
                    nxt = body[idx + 1] if idx + 1 < len(body) else None
                    head = None
                    if isinstance(nxt, ast.If):
                        head = nxt.test
                    elif isinstance(nxt, (ast.Return, ast.Expr)) or (isinstance(nxt, ast.Assign) and all(isinstance(t, ast.Name) for t in nxt.targets)):
                        head = nxt.value
                    if len(loads) == 1 and head is not None and _first_evaluated_atom(head) is loads[0] \
                            and not any(isinstance(n, (ast.Global, ast.Nonlocal)) for n in ast.walk(fn)):
                        cand = (body, idx, name, val)
                        break
                    continue
                # a fresh mutable container is a variable, not a name for an expression
                if isinstance(val, (ast.List, ast.Dict, ast.Set, ast.ListComp, ast.DictComp, ast.SetComp, ast.GeneratorExp)) or \
                        (isinstance(val, ast.Call) and _u(val.func) in ('list', 'dict', 'set', 'bytearray')):
                    if name in mutated or any(m == name or m.startswith(name + '.') or m.startswith(name + '[') for m in mutated):
                        continue
                    if isinstance(val, ast.GeneratorExp):
                        continue
                if name in mutated:
                    continue
                # stability: nothing the expression reads is rebound or mutated in this function
                reads = _bases(val)
                unstable = False
                for r in reads:
                    root = r.split('.')[0].split('[')[0]
                    if r in stored:
                        # a plain name bound exactly once - by an earlier assignment, or as the variable of a loop that
                        # encloses both this definition and every use - keeps its value; anything else may change
                        if not (r.isidentifier() and ((stored[r] == 1 and _defined_before(fn, r, st)) or _loop_var_enclosing(fn, r, st, name))):
                            unstable = True
                    if any(m == r or r.startswith(m + '.') or r.startswith(m + '[') or m.startswith(r + '.') or m.startswith(r + '[') for m in mutated) and not _immune(val, r):
                        unstable = True
                    if root in stored and root != r and stored.get(root, 0) > 1:
                        unstable = True
                if unstable and not _window_stable(fn, body, idx, name, reads):
                    continue
                # every use comes after the definition
                uses = [n for n in ast.walk(fn) if isinstance(n, ast.Name) and n.id == name and isinstance(n.ctx, ast.Load)]
                if not uses or any(getattr(u, 'lineno', 0) < st.lineno for u in uses):
                    continue
                if any(isinstance(n, (ast.Global, ast.Nonlocal)) and name in n.names for n in ast.walk(fn)):
                    continue
                cand = (body, idx, name, val)
                break
            if cand:
                break
        if not cand:
            break
        body, idx, name, val = cand
        del body[idx]
        if not body:
            body.append(ast.Pass(lineno=getattr(val, 'lineno', 1), col_offset=0))
        _Subst({name: val}).visit(fn)
        done.append(f'{name} = {_u(val)[:60]}')
    return done


def _first_evaluated_atom(e):
    """The sub-expression whose evaluation comes first when `e` is evaluated (nothing with an effect precedes it)."""
    while True:
        if isinstance(e, ast.UnaryOp):
            e = e.operand
        elif isinstance(e, ast.Compare):
            e = e.left
        elif isinstance(e, ast.BoolOp):
            e = e.values[0]
        elif isinstance(e, ast.BinOp):
            e = e.left
        elif isinstance(e, (ast.Attribute, ast.Subscript, ast.Starred)):
            e = e.value
        elif isinstance(e, ast.IfExp):
            e = e.test
        elif isinstance(e, (ast.ListComp, ast.GeneratorExp, ast.SetComp)):
            e = e.generators[0].iter
        elif isinstance(e, ast.Call):
            if isinstance(e.func, ast.Name):
                if not e.args:
                    return None
                e = e.args[0]
            else:
                e = e.func
        else:
            return e


def _defined_before(fn, name, st) -> bool:
    for n in ast.walk(fn):
        if isinstance(n, ast.Assign) and len(n.targets) == 1 and isinstance(n.targets[0], ast.Name) and n.targets[0].id == name:
            return n.lineno < st.lineno
    return False


def _window_stable(fn, body, idx, name, reads) -> bool:
    """Every use sits in the statements that follow the definition in its own statement list (at any depth), and on every way
    through them no use is evaluated after something the expression reads has been stored to or mutated. A statement's own
    store comes after the evaluation of its right-hand side; the tests of an if/elif chain come before its bodies."""
    uses = {id(n) for n in ast.walk(fn) if isinstance(n, ast.Name) and n.id == name and isinstance(n.ctx, ast.Load)}
    inside = {id(x) for j in range(idx + 1, len(body)) for x in ast.walk(body[j])}
    if not uses or not uses <= inside:
        return False

    def touches(node) -> bool:
        st_stored, st_mut = _stores_and_mutations(ast.Module(body=[node], type_ignores=[]) if isinstance(node, ast.stmt) else ast.Expression(body=node))
        for r in reads:
            if r in st_stored or any(m == r or r.startswith(m + '.') or r.startswith(m + '[') or m.startswith(r + '.') or m.startswith(r + '[') for m in st_mut):
                return True
        return False

    def has_use(node) -> bool:
        return any(id(x) in uses for x in ast.walk(node))

    class Unsafe(Exception):
        pass

    def seq(stmts, dirty: bool) -> bool:
        for st in stmts:
            dirty = one(st, dirty)
        return dirty

    def one(st, dirty: bool) -> bool:
        if isinstance(st, ast.If):
            if has_use(st.test) and dirty:
                raise Unsafe
            d0 = dirty or touches(st.test)
            db, do = seq(st.body, d0), seq(st.orelse, d0)
            # a branch that always leaves the function hands nothing on to what follows
            return (db and not _always_returns(st.body)) | (do and not (st.orelse and _always_returns(st.orelse))) | (d0 and not st.orelse)
        if isinstance(st, (ast.For, ast.While, ast.AsyncFor)):
            if has_use(st) and (dirty or touches(st)):
                raise Unsafe          # a second iteration would evaluate the use after the store
            return dirty or touches(st)
        if isinstance(st, (ast.Try, ast.With, ast.AsyncWith, ast.Match)) or hasattr(st, 'body') and isinstance(getattr(st, 'body'), list):
            if has_use(st) and (dirty or touches(st)):
                raise Unsafe
            return dirty or touches(st)
        # a simple statement: its expressions are evaluated first, its own stores happen last
        if has_use(st):
            if dirty:
                raise Unsafe
            _, st_mut = _stores_and_mutations(ast.Module(body=[st], type_ignores=[]))
            if any(m == r or r.startswith(m + '.') or r.startswith(m + '[') or m.startswith(r + '.') or m.startswith(r + '[') for m in st_mut for r in reads):
                raise Unsafe          # a mutating call inside the same statement: order of evaluation would matter
        return dirty or touches(st)
    try:
        seq(body[idx + 1:], False)
    except Unsafe:
        return False
    return True


def _loop_var_enclosing(fn, r, st, name) -> bool:
    for lp in ast.walk(fn):
        if isinstance(lp, (ast.For, ast.AsyncFor)) and any(isinstance(t, ast.Name) and t.id == r for t in ast.walk(lp.target)):
            inside = {id(x) for b in lp.body for x in ast.walk(b)}
            if id(st) not in inside:
                continue
            if any(isinstance(x, ast.Name) and x.id == r and isinstance(x.ctx, ast.Store) for b in lp.body for x in ast.walk(b)):
                return False
            uses = [n for n in ast.walk(fn) if isinstance(n, ast.Name) and n.id == name and isinstance(n.ctx, ast.Load)]
            return all(id(u) in inside for u in uses)
    return False


def _immune(val, r) -> bool:
    """isinstance(x, C) and `x is None` do not change when x's contents are mutated."""
    for n in ast.walk(val):
        if isinstance(n, ast.Call) and isinstance(n.func, ast.Name) and n.func.id == 'isinstance' and n.args and _u(n.args[0]) == r:
            return True
    return False


# ------------------------------------------------------------------------------------------------ (d) spelling variants

class _Spelling(ast.NodeTransformer):
    """`s.startswith((a, b))` -> `s.startswith(a) or s.startswith(b)`;  `0 < x` style comparisons are left to the linear
    normal form. Applied only to spellings absent from the reference tree (it has no tuple-prefix tests)."""
    def __init__(self, imports=None):
        self.done = []
        self.imports = imports or {}

    def _operator_getter(self, f):
        if isinstance(f, ast.Name) and self.imports.get(f.id) in (('symbol', 'operator', 'attrgetter'), ('symbol', 'operator', 'itemgetter')):
            return self.imports[f.id][2]
        if isinstance(f, ast.Attribute) and isinstance(f.value, ast.Name) and self.imports.get(f.value.id) == ('module', 'operator') \
                and f.attr in ('attrgetter', 'itemgetter'):
            return f.attr
        return None

    def visit_Call(self, node: ast.Call):
        self.generic_visit(node)
        og = self._operator_getter(node.func)
        if og and len(node.args) == 1 and not node.keywords and isinstance(node.args[0], ast.Constant):
            k = node.args[0].value
            x = ast.Name(id='x', ctx=ast.Load())
            if og == 'attrgetter' and isinstance(k, str) and k.isidentifier():
                bodyexpr = ast.Attribute(value=x, attr=k, ctx=ast.Load())
            elif og == 'itemgetter':
                bodyexpr = ast.Subscript(value=x, slice=node.args[0], ctx=ast.Load())
            else:
                return node
            new = ast.Lambda(args=ast.arguments(posonlyargs=[], args=[ast.arg(arg='x')], kwonlyargs=[], kw_defaults=[], defaults=[]), body=bodyexpr)
            _set_lines(new, node)
            self.done.append(_u(node)[:60])
            return new
        if isinstance(node.func, ast.Attribute) and node.func.attr in ('startswith', 'endswith') and len(node.args) == 1 and not node.keywords \
                and isinstance(node.args[0], ast.Tuple) and node.args[0].elts and _is_pure(node.func.value):
            alts = []
            for e in node.args[0].elts:
                c = ast.Call(func=ast.Attribute(value=copy.deepcopy(node.func.value), attr=node.func.attr, ctx=ast.Load()), args=[e], keywords=[])
                alts.append(c)
            new = ast.BoolOp(op=ast.Or(), values=alts) if len(alts) > 1 else alts[0]
            _set_lines(new, node)
            self.done.append(_u(node)[:60])
            return new
        return node


# ------------------------------------------------------------------------------------------------ (h) any / all / writelines

def _expand_quantifiers(fn: ast.FunctionDef) -> list[str]:
    """`if any(P(x) for x in xs): <exit>` -> `for x in xs: if P(x): <exit>` (and `not all(..)`), where <exit> always returns,
    raises or exits, so that at most one element triggers it either way;  `f.writelines(E(x) for x in xs)` -> a loop of writes."""
    done = []
    for body in list(_bodies(fn)):
        i = 0
        while i < len(body):
            st = body[i]
            if isinstance(st, ast.If) and not st.orelse and _always_returns(st.body):
                t, neg = st.test, False
                if isinstance(t, ast.UnaryOp) and isinstance(t.op, ast.Not):
                    t, neg = t.operand, True
                if isinstance(t, ast.Call) and isinstance(t.func, ast.Name) and t.func.id in ('any', 'all') and len(t.args) == 1 and not t.keywords \
                        and isinstance(t.args[0], (ast.GeneratorExp, ast.ListComp)) and len(t.args[0].generators) == 1 and ((t.func.id == 'any') != neg):
                    g = t.args[0].generators[0]
                    cond = t.args[0].elt if t.func.id == 'any' else ast.UnaryOp(op=ast.Not(), operand=t.args[0].elt)
                    inner = ast.If(test=cond, body=st.body, orelse=[])
                    for c in reversed(g.ifs):
                        inner = ast.If(test=c, body=[inner], orelse=[])
                    loop = ast.For(target=g.target, iter=g.iter, body=[inner], orelse=[])
                    ast.copy_location(loop, st)
                    ast.copy_location(inner, st)
                    body[i] = loop
                    done.append(_u(st.test)[:70])
            elif isinstance(st, ast.Expr) and isinstance(st.value, ast.Call) and isinstance(st.value.func, ast.Attribute) and st.value.func.attr == 'writelines' \
                    and len(st.value.args) == 1 and isinstance(st.value.args[0], (ast.GeneratorExp, ast.ListComp)) and len(st.value.args[0].generators) == 1:
                ge = st.value.args[0]
                g = ge.generators[0]
                w = ast.Expr(value=ast.Call(func=ast.Attribute(value=st.value.func.value, attr='write', ctx=ast.Load()), args=[ge.elt], keywords=[]))
                inner = [w]
                for c in reversed(g.ifs):
                    inner = [ast.If(test=c, body=inner, orelse=[])]
                loop = ast.For(target=g.target, iter=g.iter, body=inner, orelse=[])
                ast.copy_location(loop, st)
                ast.copy_location(w, st)
                body[i] = loop
                done.append(_u(st)[:70])
            i += 1
    return done


# ------------------------------------------------------------------------------------------------ (i) comprehensions -> loops

_SEQ_CTORS = {'list': lambda: ast.List(elts=[], ctx=ast.Load()),
              'bytearray': lambda: ast.Call(func=ast.Name(id='bytearray', ctx=ast.Load()), args=[], keywords=[])}


def _comp_loop(comp, make_stmt, like):
    """Nested `for`/`if` statements equivalent to the comprehension's generators around make_stmt(element)."""
    inner = [make_stmt(comp.elt)]
    for g in reversed(comp.generators):
        if g.is_async:
            return None
        for c in reversed(g.ifs):
            inner = [ast.If(test=c, body=inner, orelse=[])]
        inner = [ast.For(target=g.target, iter=g.iter, body=inner, orelse=[])]
    for n in ast.walk(inner[0]):
        if isinstance(n, ast.stmt):
            ast.copy_location(n, like)
    return inner[0]


def _expand_comprehensions(fn: ast.FunctionDef, known: set[str], elementwise: set[str]) -> list[str]:
    """Statements not in the reviewed tree:  `x = [E for ..]` / `x = list(E for ..)` / `x = bytearray(E for ..)` -> empty
    collection plus a loop of appends;  `x.extend(E for ..)` -> loop of appends;  `d.update((K, V) for ..)` -> loop of item stores.
    The comprehension's own variables must not clash with names the function uses elsewhere (they become function locals)."""
    done = []
    used = {}
    for n in ast.walk(fn):
        if isinstance(n, ast.Name):
            used[n.id] = used.get(n.id, 0) + 1
    for body in list(_bodies(fn)):
        i = 0
        while i < len(body):
            st = body[i]
            new = None
            if _u(st) in known:
                i += 1
                continue
            comp = None
            if isinstance(st, (ast.Assign, ast.AnnAssign)) and st.value is not None:
                tgt = st.targets[0] if isinstance(st, ast.Assign) and len(st.targets) == 1 else getattr(st, 'target', None)
                v = st.value
                ctor = None
                if isinstance(v, ast.ListComp):
                    comp, ctor = v, 'list'
                elif isinstance(v, ast.Call) and isinstance(v.func, ast.Name) and v.func.id in _SEQ_CTORS and len(v.args) == 1 and not v.keywords \
                        and isinstance(v.args[0], (ast.GeneratorExp, ast.ListComp)):
                    comp, ctor = v.args[0], v.func.id
                simple_attr = isinstance(tgt, ast.Attribute) and isinstance(tgt.value, ast.Name) and tgt.value.id == 'self'
                if comp is not None and (isinstance(tgt, ast.Name) or simple_attr) and _u(tgt) in elementwise:
                    ttext = _u(tgt)
                    reads = {_u(n) for n in ast.walk(comp) if isinstance(n, (ast.Name, ast.Attribute))}
                    # (an element that calls a method of self might look at the half-built attribute: plain names only then)
                    if ttext not in reads and not (simple_attr and any(isinstance(n, ast.Call) and 'self' in _u(n.func).split('.')[:1] for n in ast.walk(comp))):
                        def load_t(tgt=tgt):
                            t2 = copy.deepcopy(tgt)
                            t2.ctx = ast.Load()
                            return t2
                        st_t = copy.deepcopy(tgt)
                        st_t.ctx = ast.Store()
                        init = ast.Assign(targets=[st_t], value=_SEQ_CTORS[ctor]())
                        _set_lines(init, st)
                        mk = lambda e, lt=load_t: ast.Expr(value=ast.Call(func=ast.Attribute(value=lt(), attr='append', ctx=ast.Load()), args=[e], keywords=[]))
                        loop = _comp_loop(comp, mk, st)
                        if loop is not None:
                            new = [init, loop]
            elif isinstance(st, ast.Expr) and isinstance(st.value, ast.Call) and isinstance(st.value.func, ast.Attribute) and len(st.value.args) == 1 \
                    and not st.value.keywords and isinstance(st.value.args[0], (ast.GeneratorExp, ast.ListComp)):
                comp = st.value.args[0]
                recv = st.value.func.value
                if _u(recv) not in elementwise:
                    pass
                elif st.value.func.attr == 'extend' and _is_pure(recv):
                    mk = lambda e, r=recv: ast.Expr(value=ast.Call(func=ast.Attribute(value=copy.deepcopy(r), attr='append', ctx=ast.Load()), args=[e], keywords=[]))
                    loop = _comp_loop(comp, mk, st)
                    new = [loop] if loop is not None else None
                elif st.value.func.attr == 'update' and _is_pure(recv) and isinstance(comp.elt, ast.Tuple) and len(comp.elt.elts) == 2:
                    mk = lambda e, r=recv: ast.Assign(targets=[ast.Subscript(value=copy.deepcopy(r), slice=e.elts[0], ctx=ast.Store())], value=e.elts[1])
                    loop = _comp_loop(comp, mk, st)
                    new = [loop] if loop is not None else None
            if new is not None and comp is not None:
                # comprehension variables become function locals: they must be used nowhere else in the function
                cvars = {n.id for g in comp.generators for n in ast.walk(g.target) if isinstance(n, ast.Name)}
                inside = {}
                for n in ast.walk(comp):
                    if isinstance(n, ast.Name) and n.id in cvars:
                        inside[n.id] = inside.get(n.id, 0) + 1
                if all(used.get(v, 0) == inside.get(v, 0) for v in cvars):
                    body[i:i + 1] = new
                    done.append(_u(st)[:70])
                    i += len(new)
                    continue
            i += 1
    return done


# ------------------------------------------------------------------------------------------------ (j) records: NamedTuple locals -> scalars

class _Record:
    """A NamedTuple class that is not in the reviewed tree: field order and defaults, and those of its members that are a single
    `return <pure expression over self's fields and the parameters>` (properties, methods) or `return cls(...)` (classmethods)."""
    def __init__(self, ci):
        self.ci = ci
        self.fields = []
        self.defaults = {}
        for st in ci.node.body:
            if isinstance(st, ast.AnnAssign) and isinstance(st.target, ast.Name):
                self.fields.append(st.target.id)
                if st.value is not None:
                    self.defaults[st.target.id] = st.value
        self.members = {}
        for name, m in ci.methods.items():
            body = [b for b in m.node.body if not (isinstance(b, ast.Expr) and isinstance(b.value, ast.Constant) and isinstance(b.value.value, str))]
            if len(body) == 1 and isinstance(body[0], ast.Return) and body[0].value is not None:
                self.members[name] = (m, body[0].value)

    def bind_ctor(self, call: ast.Call):
        """field -> argument expression for `N(...)`, or None."""
        if any(isinstance(a, ast.Starred) for a in call.args) or any(k.arg is None for k in call.keywords) or len(call.args) > len(self.fields):
            return None
        out = dict(zip(self.fields, call.args))
        for k in call.keywords:
            if k.arg not in self.fields or k.arg in out:
                return None
            out[k.arg] = k.value
        for f in self.fields:
            if f not in out:
                if f not in self.defaults:
                    return None
                out[f] = copy.deepcopy(self.defaults[f])
        # evaluation order must be the field order for the rewrite into consecutive assignments to be exact: positional arguments
        # first, then keywords in the order written -- require the keywords to be written in field order, or everything pure
        kw_order = [k.arg for k in call.keywords]
        in_order = kw_order == [f for f in self.fields if f in kw_order] and self.fields[:len(call.args)] == self.fields[:len(call.args)]
        if not in_order and not all(_is_pure(v) for v in out.values()):
            return None
        return out


def _records(repo, ref) -> dict:
    out = {}
    for q, ci in repo.classes.items():
        if q in ref.get('classes', {}):
            continue
        if any((isinstance(b, str) and b.split('.')[-1] == 'NamedTuple') for b in ci.bases) or any(_u(b).split('.')[-1] == 'NamedTuple' for b in ci.node.bases):
            r = _Record(ci)
            if r.fields:
                out[ci.name] = r
    return out


def _record_ctor(records, fi, e):
    """(record, field -> expr) when `e` constructs a record: `N(...)`, or `N.classmethod(...)` whose body is `return cls(...)`."""
    if not isinstance(e, ast.Call):
        return None
    f = e.func
    if isinstance(f, ast.Name) and f.id in records and fi.module.name == records[f.id].ci.module.name:
        r = records[f.id]
        b = r.bind_ctor(e)
        return (r, b) if b is not None else None
    if isinstance(f, ast.Attribute) and isinstance(f.value, ast.Name) and f.value.id in records and fi.module.name == records[f.value.id].ci.module.name:
        r = records[f.value.id]
        mem = r.members.get(f.attr)
        if mem is None or mem[0].kind != 'classmethod':
            return None
        m, ret = mem
        if not (isinstance(ret, ast.Call) and isinstance(ret.func, ast.Name) and ret.func.id == m.node.args.args[0].arg):
            return None
        pm = _bind(m.node, e, True)
        if pm is None:
            return None
        # each parameter is used at most once unless its argument is pure (no duplicated evaluation)
        for p_, a_ in pm.items():
            uses = sum(1 for n in ast.walk(ret) if isinstance(n, ast.Name) and n.id == p_)
            if uses > 1 and not _is_pure(a_):
                return None
        inner = _Subst(pm).visit(copy.deepcopy(ret))
        b = r.bind_ctor(inner)
        return (r, b) if b is not None else None
    return None


def _scalarise_records(repo, fi, records, known_locals) -> list[str]:
    fn = fi.node
    done = []
    if not records:
        return done
    for _ in range(4):
        stored, mutated = _stores_and_mutations(fn)
        hit = None
        for body in _bodies(fn):
            for idx, st in enumerate(body):
                if isinstance(st, ast.Assign) and len(st.targets) == 1 and isinstance(st.targets[0], ast.Name):
                    name = st.targets[0].id
                elif isinstance(st, ast.AnnAssign) and isinstance(st.target, ast.Name) and st.value is not None:
                    name = st.target.id
                else:
                    continue
                if name in known_locals or stored.get(name, 0) != 1:
                    continue
                rc = _record_ctor(records, fi, st.value)
                if rc is None:
                    continue
                rec, fields = rc
                # every use of the variable is `v.field`, `v.property` or `v.method(...)` with a one-expression member
                pm_ = {}
                for n in ast.walk(fn):
                    for c in ast.iter_child_nodes(n):
                        pm_[id(c)] = n
                ok = True
                uses = []
                for n in ast.walk(fn):
                    if isinstance(n, ast.Name) and n.id == name and isinstance(n.ctx, ast.Load):
                        par = pm_.get(id(n))
                        if isinstance(par, ast.Starred) and isinstance(pm_.get(id(par)), ast.Call) and par in pm_.get(id(par)).args:
                            uses.append(('star', par, pm_.get(id(par))))      # f(a, *v): the fields in order
                            continue
                        if not (isinstance(par, ast.Attribute) and par.value is n and isinstance(par.ctx, ast.Load)):
                            ok = False
                            break
                        if par.attr in rec.fields:
                            uses.append(('field', par, None))
                        elif par.attr in rec.members:
                            m, ret = rec.members[par.attr]
                            gp = pm_.get(id(par))
                            if m.kind in ('property', 'cached_property'):
                                uses.append(('prop', par, None))
                            elif m.kind == 'method' and isinstance(gp, ast.Call) and gp.func is par:
                                uses.append(('call', par, gp))
                            else:
                                ok = False
                                break
                        else:
                            ok = False
                            break
                if not ok or not uses:
                    continue
                hit = (body, idx, st, name, rec, fields, uses)
                break
            if hit:
                break
        if not hit:
            break
        body, idx, st, name, rec, fields, uses = hit
        scal = {f: f'{name}__{f}' for f in rec.fields}
        repl = {}      # id(node to replace) -> new expr

        def member_expr(m, ret, call):
            selfname = m.node.args.args[0].arg
            mapping = {}
            if call is not None:
                b = _bind(m.node, call, True)
                if b is None:
                    return None
                for p_, a_ in b.items():
                    n_uses = sum(1 for n in ast.walk(ret) if isinstance(n, ast.Name) and n.id == p_)
                    if n_uses > 1 and not _is_pure(a_):
                        return None
                mapping.update(b)
            e = copy.deepcopy(ret)
            # self.<field> -> scalar; any other use of self (another member, self itself) is not handled
            class S(ast.NodeTransformer):
                bad = False

                def visit_Attribute(self_, node):
                    if isinstance(node.value, ast.Name) and node.value.id == selfname:
                        if node.attr in scal:
                            return ast.copy_location(ast.Name(id=scal[node.attr], ctx=ast.Load()), node)
                        S.bad = True
                        return node
                    return self_.generic_visit(node)

                def visit_Name(self_, node):
                    if node.id == selfname:
                        S.bad = True
                    return node
            e = S().visit(e)
            if S.bad:
                return None
            return _Subst(mapping).visit(e) if mapping else e
        fail = False
        for kind, attr_node, call in uses:
            if kind == 'star':
                continue
            if kind == 'field':
                repl[id(attr_node)] = ast.Name(id=scal[attr_node.attr], ctx=ast.Load())
            else:
                m, ret = rec.members[attr_node.attr]
                e = member_expr(m, ret, call)
                if e is None:
                    fail = True
                    break
                repl[id(call if kind == 'call' else attr_node)] = e
        if fail:
            known_locals = set(known_locals) | {name}     # leave this one alone, look for others
            continue

        class R(ast.NodeTransformer):
            def visit(self_, node):
                if id(node) in repl:
                    new_ = repl[id(node)]
                    _set_lines(new_, node)
                    return new_
                return self_.generic_visit(node)
        assigns = []
        for f in rec.fields:
            a = ast.Assign(targets=[ast.Name(id=scal[f], ctx=ast.Store())], value=fields[f])
            _set_lines(a, st)
            a.value = fields[f]
            assigns.append(a)
        body[idx:idx + 1] = assigns
        for kind, star, call in uses:
            if kind == 'star':
                k_ = call.args.index(star)
                call.args[k_:k_ + 1] = [ast.copy_location(ast.Name(id=scal[f], ctx=ast.Load()), star) for f in rec.fields]
        R().visit(fn)
        done.append(f'{name} = {rec.ci.name}(...) -> {", ".join(scal.values())}')
    return done


class _RecordFieldOfCtor(ast.NodeTransformer):
    """`N(a, b).field` -> the argument, when every argument is pure (nothing is lost by not evaluating the others)."""
    def __init__(self, records, fi):
        self.records, self.fi, self.done = records, fi, []

    def visit_Attribute(self, node):
        self.generic_visit(node)
        rc = _record_ctor(self.records, self.fi, node.value) if isinstance(node.ctx, ast.Load) else None
        if rc is not None and node.attr in rc[1] and all(_is_pure(v) for v in rc[1].values()):
            new = rc[1][node.attr]
            self.done.append(_u(node)[:70])
            return new
        return node


# ------------------------------------------------------------------------------------------------ (k) new pre-compiled patterns

_RE_FUNCS = {'findall': 1, 'finditer': 1, 'search': 1, 'match': 1, 'fullmatch': 1, 'split': 1, 'sub': 2, 'subn': 2}


class _CompiledPatternUse(ast.NodeTransformer):
    """`NAME.search(s)` with NAME a module constant `re.compile(P[, flags])` that the reviewed tree does not have
    -> `re.search(P, s[, flags=...])`: the same search, spelled the way the tree spelled it before the constant was introduced."""
    def __init__(self, module, known_names, cls=None, ref=None):
        self.m, self.known, self.done = module, known_names, []
        self.cls, self.ref = cls, ref or {}

    def _class_const(self, e):
        """`Cls.NAME` / `self.NAME` / `cls.NAME` with NAME a class-level `re.compile(...)` the reviewed class does not have."""
        if not (isinstance(e, ast.Attribute) and isinstance(e.value, ast.Name)):
            return None
        owner = None
        if e.value.id in ('self', 'cls') and self.cls is not None:
            owner = next((c for c in self.cls.mro() if e.attr in c.attrs), None)
        elif e.value.id in self.m.classes and e.attr in self.m.classes[e.value.id].attrs:
            owner = self.m.classes[e.value.id]
        if owner is None or e.attr in self.ref.get('classes', {}).get(owner.qualname, {}).get('consts', [e.attr]):
            return None
        return owner.attrs.get(e.attr)

    def visit_Call(self, node):
        self.generic_visit(node)
        f = node.func
        if isinstance(f, ast.Attribute) and f.attr in _RE_FUNCS and len(node.args) == _RE_FUNCS[f.attr] and not node.keywords:
            cv = self._class_const(f.value)
            if isinstance(cv, ast.Call) and _u(cv.func) == 're.compile' and cv.args and _is_pure(cv):
                flags = cv.args[1] if len(cv.args) > 1 else next((k.value for k in cv.keywords if k.arg == 'flags'), None)
                new = ast.Call(func=ast.Attribute(value=ast.Name(id='re', ctx=ast.Load()), attr=f.attr, ctx=ast.Load()),
                               args=[copy.deepcopy(cv.args[0])] + node.args,
                               keywords=[ast.keyword(arg='flags', value=copy.deepcopy(flags))] if flags is not None else [])
                _set_lines(new, node)
                new.args[1:] = node.args
                self.done.append(_u(node)[:70])
                return new
        if isinstance(f, ast.Attribute) and f.attr in _RE_FUNCS and isinstance(f.value, ast.Name) and f.value.id not in self.known \
                and len(node.args) == _RE_FUNCS[f.attr] and not node.keywords:
            vals = self.m.assigns.get(f.value.id) or []
            if len(vals) == 1 and isinstance(vals[0], ast.Call) and _u(vals[0].func) == 're.compile' and vals[0].args and _is_pure(vals[0]):
                c = vals[0]
                flags = c.args[1] if len(c.args) > 1 else next((k.value for k in c.keywords if k.arg == 'flags'), None)
                new = ast.Call(func=ast.Attribute(value=ast.Name(id='re', ctx=ast.Load()), attr=f.attr, ctx=ast.Load()),
                               args=[copy.deepcopy(c.args[0])] + node.args,
                               keywords=[ast.keyword(arg='flags', value=copy.deepcopy(flags))] if flags is not None else [])
                _set_lines(new, node)
                new.args[1:] = node.args
                self.done.append(_u(node)[:70])
                return new
        return node


# ------------------------------------------------------------------------------------------------ (l) enumerate -> counter

def _enumerate_to_counter(fn: ast.FunctionDef, known_headers: set[str]) -> list[str]:
    """A loop header the reviewed tree does not have, `for i, x in enumerate(X, start=k):` -> `i = k - 1` / `for x in X:` / `i += 1`
    first in the body, when the body does not rebind `i` and nothing after the loop reads it (after an empty X the two differ)."""
    done = []
    for body in list(_bodies(fn)):
        j = 0
        while j < len(body):
            st = body[j]
            j += 1
            if not (isinstance(st, ast.For) and not st.orelse and isinstance(st.iter, ast.Call) and isinstance(st.iter.func, ast.Name) and st.iter.func.id == 'enumerate'
                    and isinstance(st.target, ast.Tuple) and len(st.target.elts) == 2 and isinstance(st.target.elts[0], ast.Name)):
                continue
            if f'for {_u(st.target)} in {_u(st.iter)}' in known_headers:
                continue
            call = st.iter
            start = None
            if len(call.args) == 2 and not call.keywords:
                start = call.args[1]
            elif len(call.args) == 1 and len(call.keywords) == 1 and call.keywords[0].arg == 'start':
                start = call.keywords[0].value
            elif len(call.args) == 1 and not call.keywords:
                start = ast.Constant(value=0)
            if not (isinstance(start, ast.Constant) and isinstance(start.value, int)):
                continue
            i = st.target.elts[0].id
            inside = {id(n) for n in ast.walk(st)}
            stores_in_body = [n for b in st.body for n in ast.walk(b) if isinstance(n, ast.Name) and n.id == i and isinstance(n.ctx, ast.Store)]
            other = [n for n in ast.walk(fn) if isinstance(n, ast.Name) and n.id == i and id(n) not in inside]
            if stores_in_body or other or any(isinstance(n, (ast.Continue,)) for b in st.body for n in ast.walk(b)) and False:
                continue
            init = ast.Assign(targets=[ast.Name(id=i, ctx=ast.Store())], value=ast.Constant(value=start.value - 1))
            _set_lines(init, st)
            inc = ast.AugAssign(target=ast.Name(id=i, ctx=ast.Store()), op=ast.Add(), value=ast.Constant(value=1))
            _set_lines(inc, st)
            done.append(f'for {_u(st.target)} in {_u(st.iter)}'[:70])
            st.target = st.target.elts[1]
            st.iter = call.args[0]
            st.body.insert(0, inc)
            body.insert(j - 1, init)
            j += 1
    return done


# ------------------------------------------------------------------------------------------------ (m) default-then-override

def _default_then_override(fn: ast.FunctionDef, known_assigns: set[str]) -> list[str]:
    """`x = D` (an assignment the reviewed tree does not have, D free of effects) directly followed by `if c: x = V` with no else
    -> `if c: x = V` / `else: x = D`, when neither c nor V reads x."""
    done = []
    for body in list(_bodies(fn)):
        j = 0
        while j + 1 < len(body):
            a, b = body[j], body[j + 1]
            j += 1
            if not (isinstance(a, (ast.Assign, ast.AnnAssign)) and getattr(a, 'value', None) is not None and _u(a) not in known_assigns and _is_pure(a.value)):
                continue
            t = a.targets[0] if isinstance(a, ast.Assign) and len(a.targets) == 1 else getattr(a, 'target', None)
            if not isinstance(t, ast.Name):
                continue
            if not (isinstance(b, ast.If) and not b.orelse and len(b.body) == 1 and isinstance(b.body[0], ast.Assign) and len(b.body[0].targets) == 1
                    and isinstance(b.body[0].targets[0], ast.Name) and b.body[0].targets[0].id == t.id):
                continue
            reads = {n.id for x in (b.test, b.body[0].value) for n in ast.walk(x) if isinstance(n, ast.Name)}
            if t.id in reads:
                continue
            els = ast.Assign(targets=[ast.Name(id=t.id, ctx=ast.Store())], value=a.value)
            _set_lines(els, b)
            els.value = a.value
            b.orelse = [els]
            del body[j - 1]
            done.append(_u(a)[:60])
    return done


# ------------------------------------------------------------------------------------------------ (n) renamed locals, by definition

def _rename_by_definition(fn: ast.FunctionDef, known_locals: set[str], known_assigns: list[str]) -> list[str]:
    """A local the reviewed function does not have, defined by exactly the expression that defined a reviewed local which is
    gone from the function, is that local under a new name."""
    done = []
    now = local_names(fn) | {a.arg for a in fn.args.args + fn.args.kwonlyargs + fn.args.posonlyargs}
    gone = set(known_locals) - now
    if not gone:
        return done
    ref_defs = {}
    for t in known_assigns:
        try:
            st = ast.parse(t).body[0]
        except SyntaxError:
            continue
        tgt = st.targets[0] if isinstance(st, ast.Assign) and len(st.targets) == 1 else getattr(st, 'target', None)
        if isinstance(tgt, ast.Name) and tgt.id in gone and getattr(st, 'value', None) is not None and not isinstance(st.value, ast.Constant):
            ref_defs.setdefault(_u(st.value), set()).add(tgt.id)
    new_defs = {}
    for n in ast.walk(fn):
        if isinstance(n, (ast.Assign, ast.AnnAssign)) and getattr(n, 'value', None) is not None:
            tgt = n.targets[0] if isinstance(n, ast.Assign) and len(n.targets) == 1 else getattr(n, 'target', None)
            if isinstance(tgt, ast.Name) and tgt.id not in known_locals:
                new_defs.setdefault(tgt.id, set()).add(_u(n.value))
    ren = {}
    for name, vals in new_defs.items():
        cands = set()
        for v in vals:
            cands |= ref_defs.get(v, set())
        if len(cands) == 1:
            r = next(iter(cands))
            if r not in ren.values():
                ren[name] = r
    for name, r in ren.items():
        for n in ast.walk(fn):
            if isinstance(n, ast.Name) and n.id == name:
                n.id = r
        done.append(f'{name} -> {r}')
    return done


# ------------------------------------------------------------------------------------------------ (o) find-first: next(generator, default)

def _inline_single_use_generators(fn: ast.FunctionDef, known_locals: set[str]) -> list[str]:
    """`g = (E for ..)` bound once, to a name the reviewed function does not have, and read once - by the very next statement -
    is written where it is read (a generator does nothing until it is iterated)."""
    done = []
    stored, _ = _stores_and_mutations(fn)
    for body in list(_bodies(fn)):
        i = 0
        while i + 1 < len(body):
            st = body[i]
            if isinstance(st, ast.Assign) and len(st.targets) == 1 and isinstance(st.targets[0], ast.Name) and isinstance(st.value, ast.GeneratorExp) \
                    and st.targets[0].id not in known_locals and stored.get(st.targets[0].id, 0) == 1:
                name = st.targets[0].id
                loads = [n for n in ast.walk(fn) if isinstance(n, ast.Name) and n.id == name and isinstance(n.ctx, ast.Load)]
                nxt = body[i + 1]
                hdr = nxt.iter if isinstance(nxt, ast.For) else getattr(nxt, 'value', None)
                if len(loads) == 1 and hdr is not None and any(n is loads[0] for n in ast.walk(hdr)) and _first_evaluated_atom(hdr) is loads[0] or \
                        (len(loads) == 1 and isinstance(hdr, ast.Call) and isinstance(hdr.func, ast.Name) and hdr.func.id == 'next' and hdr.args
                         and isinstance(hdr.args[0], ast.GeneratorExp) and _first_evaluated_atom(hdr.args[0].generators[0].iter) is loads[0]):
                    _Subst({name: st.value}).visit(nxt)
                    del body[i]
                    done.append(name)
                    continue
            i += 1
    return done


def _expand_find_first(fn: ast.FunctionDef, known_assigns: set[str]) -> list[str]:
    """Statements the reviewed tree does not have:
         return next((E for x in XS if C), D)   ->  for x in XS: if C: return E      /  return D
         v = next((E for x in XS if C), D)      ->  v = D / for x in XS: if C: v = E; break
         for t in (E for x in XS if C): body    ->  for x in XS: if C: t = E; body
       The generator's own variables must be used nowhere else in the function (they become function locals)."""
    done = []
    used = {}
    for n in ast.walk(fn):
        if isinstance(n, ast.Name):
            used[n.id] = used.get(n.id, 0) + 1

    def fresh(comp):
        cvars = {n.id for g in comp.generators for n in ast.walk(g.target) if isinstance(n, ast.Name)}
        inside = {}
        for n in ast.walk(comp):
            if isinstance(n, ast.Name) and n.id in cvars:
                inside[n.id] = inside.get(n.id, 0) + 1
        return all(used.get(v, 0) == inside.get(v, 0) for v in cvars)

    def is_next(e, allow_no_default=False):
        if isinstance(e, ast.Call) and isinstance(e.func, ast.Name) and e.func.id == 'next' and len(e.args) == 1 and not e.keywords and allow_no_default \
                and isinstance(e.args[0], ast.GeneratorExp) and fresh(e.args[0]):
            return True
        return isinstance(e, ast.Call) and isinstance(e.func, ast.Name) and e.func.id == 'next' and len(e.args) == 2 and not e.keywords \
            and isinstance(e.args[0], ast.GeneratorExp) and _is_pure(e.args[1]) and fresh(e.args[0])
    for body in list(_bodies(fn)):
        i = 0
        while i < len(body):
            st = body[i]
            new = None
            if isinstance(st, ast.Return) and st.value is not None and is_next(st.value, True):
                gen = st.value.args[0]
                dflt = st.value.args[1] if len(st.value.args) == 2 else None
                loop = _comp_loop(gen, lambda e: ast.Return(value=e), st)
                if loop is not None:
                    if dflt is not None:
                        last = ast.Return(value=dflt)
                        _set_lines(last, st)
                        last.value = dflt
                    else:       # next() of an exhausted generator
                        last = ast.Raise(exc=ast.Call(func=ast.Name(id='StopIteration', ctx=ast.Load()), args=[], keywords=[]), cause=None)
                        _set_lines(last, st)
                    new = [loop, last]
            elif isinstance(st, (ast.Assign, ast.AnnAssign)) and getattr(st, 'value', None) is not None and is_next(st.value) and _u(st) not in known_assigns \
                    and len(st.value.args[0].generators) == 1:
                tgt = st.targets[0] if isinstance(st, ast.Assign) and len(st.targets) == 1 else getattr(st, 'target', None)
                gen, dflt = st.value.args
                if isinstance(tgt, ast.Name) and tgt.id not in {n.id for n in ast.walk(gen) if isinstance(n, ast.Name)}:
                    init = ast.Assign(targets=[ast.Name(id=tgt.id, ctx=ast.Store())], value=dflt)
                    _set_lines(init, st)
                    init.value = dflt
                    g0 = gen.generators[0]
                    hit = [ast.Assign(targets=[ast.Name(id=tgt.id, ctx=ast.Store())], value=gen.elt), ast.Break()]
                    inner = hit
                    for c in reversed(g0.ifs):
                        inner = [ast.If(test=c, body=inner, orelse=[])]
                    loop = ast.For(target=g0.target, iter=g0.iter, body=inner, orelse=[])
                    for n in ast.walk(loop):
                        if isinstance(n, ast.stmt):
                            ast.copy_location(n, st)
                    new = [init, loop]
            elif isinstance(st, ast.For) and isinstance(st.iter, ast.GeneratorExp) and len(st.iter.generators) == 1 and fresh(st.iter) \
                    and isinstance(st.target, ast.Name) and not st.orelse:
                gen = st.iter
                g0 = gen.generators[0]
                bind = ast.Assign(targets=[ast.Name(id=st.target.id, ctx=ast.Store())], value=gen.elt)
                _set_lines(bind, st)
                bind.value = gen.elt
                inner = [bind] + st.body
                for c in reversed(g0.ifs):
                    inner = [ast.copy_location(ast.If(test=c, body=inner, orelse=[]), st)]
                loop = ast.For(target=g0.target, iter=g0.iter, body=inner, orelse=[])
                ast.copy_location(loop, st)
                new = [loop]
            if new is not None:
                body[i:i + 1] = new
                done.append(_u(st).split('\n')[0][:70])
                i += len(new)
                continue
            i += 1
    return done


# ------------------------------------------------------------------------------------------------ (p) result variable -> early returns

def _noneness(repo, fi, e) -> bool | None:
    """True: `e` is None; False: `e` is certainly an object (a freshly constructed instance of a repository class, a literal);
    None: unknown."""
    if isinstance(e, ast.Constant):
        return e.value is None
    if isinstance(e, (ast.List, ast.Dict, ast.Tuple, ast.Set, ast.JoinedStr, ast.ListComp)):
        return False
    if isinstance(e, ast.Call) and isinstance(e.func, ast.Name):
        m = fi.module
        name = e.func.id
        if name in m.classes:
            return False
        imp = m.imports.get(name)
        if imp is not None and imp[0] == 'symbol' and f'{imp[1]}.{imp[2]}' in repo.classes:
            return False
    if isinstance(e, ast.Call) and isinstance(e.func, ast.Attribute) and isinstance(e.func.value, ast.Name):
        # Outer.Nested(...) / module.Class(...)
        m = fi.module
        base = e.func.value.id
        if base in m.classes and f'{m.classes[base].qualname}.{e.func.attr}' in repo.classes:
            return False
        imp = m.imports.get(base)
        if imp is not None and imp[0] == 'module' and f'{imp[1]}.{e.func.attr}' in repo.classes:
            return False
        if imp is not None and imp[0] == 'symbol' and f'{imp[1]}.{imp[2]}.{e.func.attr}' in repo.classes:
            return False
    return None


def _sink_continuations(repo, fi) -> list[str]:
    """After helper inlining a function may thread a result variable:  `if a: v = X else: v = None` / `if v is None: ...` /
    `if v is not None: return v`.  The statements after an if/else whose every leaf ends by binding v to a value of known
    None-ness are moved into the leaves (always exact: both branches then run what followed), and there the tests of v are decided.
    `v = X` / `return v` becomes `return X`."""
    fn = fi.node
    done = []

    def leaves(stmts):
        """lists of statements that end a path through `stmts` (an if/else tree at the end), or None when it is not such a tree"""
        if not stmts:
            return None
        last = stmts[-1]
        if isinstance(last, ast.If) and last.orelse:
            a, b = leaves(last.body), leaves(last.orelse)
            return a + b if a is not None and b is not None else None
        return [stmts]

    def leaf_var(lf):
        last = lf[-1]
        if isinstance(last, ast.Assign) and len(last.targets) == 1 and isinstance(last.targets[0], ast.Name):
            return last.targets[0].id, _noneness(repo, fi, last.value)
        return None, None

    def test_of(st, v):
        """(polarity when v is None) for `if v is None` / `if v is not None`"""
        if isinstance(st, ast.If) and isinstance(st.test, ast.Compare) and len(st.test.ops) == 1 and isinstance(st.test.left, ast.Name) and st.test.left.id == v \
                and isinstance(st.test.comparators[0], ast.Constant) and st.test.comparators[0].value is None:
            if isinstance(st.test.ops[0], ast.Is):
                return True
            if isinstance(st.test.ops[0], ast.IsNot):
                return False
        return None

    def simplify(stmts, v, isnone):
        """decide leading tests of v in `stmts` given that v is (not) None; stop at the first statement that may rebind v"""
        out = []
        k = 0
        while k < len(stmts):
            st = stmts[k]
            pol = test_of(st, v)
            if pol is not None:
                taken = st.body if pol == isnone else st.orelse
                rest = taken + stmts[k + 1:]
                # the taken branch may rebind v: re-analyse from here
                return out + process(rest)
            if any(isinstance(n, ast.Name) and n.id == v and isinstance(n.ctx, ast.Store) for n in ast.walk(st)):
                return out + process(stmts[k:])
            out.append(st)
            k += 1
        return out

    def process(stmts):
        for i, st in enumerate(stmts):
            if isinstance(st, ast.If) and st.orelse and i + 1 < len(stmts):
                lv = leaves([st])
                if lv is None or len(lv) > 12:
                    continue
                infos = [leaf_var(lf) for lf in lv]
                v = infos[0][0]
                if v is None or any(x[0] != v or x[1] is None for x in infos) or test_of(stmts[i + 1], v) is None:
                    continue
                K = stmts[i + 1:]
                if sum(1 for s_ in K for _ in ast.walk(s_)) * len(lv) > 6000:
                    continue
                for lf, (_, isnone) in zip(lv, infos):
                    lf.extend(simplify(copy.deepcopy(K), v, isnone))
                done.append(f'statements after the if/else at line {getattr(st, "lineno", "?")} moved into its {len(lv)} leaves (tests of {v} decided)')
                new = stmts[:i + 1]
                # the leaves were extended in place; process nested lists again for `v = X; return v`
                return new
            if isinstance(st, ast.Assign) and len(st.targets) == 1 and isinstance(st.targets[0], ast.Name) and i + 1 < len(stmts):
                v = st.targets[0].id
                isnone = _noneness(repo, fi, st.value)
                if isnone is not None and test_of(stmts[i + 1], v) is not None:
                    done.append(f'test of {v} decided after its definition at line {getattr(st, "lineno", "?")}')
                    return stmts[:i + 1] + simplify(stmts[i + 1:], v, isnone)
        return stmts

    def peephole(stmts):
        i = 0
        while i + 1 < len(stmts):
            a, b = stmts[i], stmts[i + 1]
            if isinstance(a, ast.Assign) and len(a.targets) == 1 and isinstance(a.targets[0], ast.Name) and isinstance(b, ast.Return) \
                    and isinstance(b.value, ast.Name) and b.value.id == a.targets[0].id:
                r = ast.Return(value=a.value)
                ast.copy_location(r, a)
                stmts[i:i + 2] = [r]
                del stmts[i + 1:]
                continue
            if isinstance(a, ast.Return):
                del stmts[i + 1:]
                break
            i += 1
    for _ in range(8):
        before = len(done)
        for body in list(_bodies(fn)):
            new = process(body)
            if new is not body:
                body[:] = new
            if len(done) != before:
                break
        if len(done) == before:
            break
    if done:
        for body in list(_bodies(fn)):
            peephole(body)
        # stores the moved tests have made dead: a name no statement reads any more
        loaded = {n.id for n in ast.walk(fn) if isinstance(n, ast.Name) and isinstance(n.ctx, ast.Load)}
        for body in list(_bodies(fn)):
            keep = [st for st in body if not (isinstance(st, ast.Assign) and len(st.targets) == 1 and isinstance(st.targets[0], ast.Name)
                                              and st.targets[0].id not in loaded and _is_pure(st.value))]
            if len(keep) != len(body):
                body[:] = keep or [ast.copy_location(ast.Pass(), body[0])]
    return done


# ------------------------------------------------------------------------------------------------ (q) map / list(generator) / fused comprehensions

class _MapSpelling(ast.NodeTransformer):
    """`map(f, xs)` -> `(f(m) for m in xs)` (both lazy; `str.strip` style unbound methods become method calls on the element);
    `list(<generator>)` -> list comprehension;  `[*<comprehension>, a]` -> `[...] + [a]`;  a comprehension over a generator whose
    element is free of effects -> one comprehension."""
    def __init__(self, taken: set[str]):
        self.done = []
        self.taken = taken
        self.k = 0

    def _var(self):
        while True:
            self.k += 1
            v = f'm{self.k}' if self.k > 1 else 'm'
            if v not in self.taken:
                self.taken.add(v)
                return v

    def visit_Call(self, node):
        self.generic_visit(node)
        f = node.func
        if isinstance(f, ast.Name) and f.id == 'map' and len(node.args) == 2 and not node.keywords and isinstance(node.args[0], (ast.Name, ast.Attribute)):
            fn_, xs = node.args
            v = self._var()
            m = ast.Name(id=v, ctx=ast.Load())
            if isinstance(fn_, ast.Attribute) and isinstance(fn_.value, ast.Name) and fn_.value.id in ('str', 'bytes'):
                elt = ast.Call(func=ast.Attribute(value=m, attr=fn_.attr, ctx=ast.Load()), args=[], keywords=[])
            else:
                elt = ast.Call(func=fn_, args=[m], keywords=[])
            new = ast.GeneratorExp(elt=elt, generators=[ast.comprehension(target=ast.Name(id=v, ctx=ast.Store()), iter=xs, ifs=[], is_async=0)])
            _set_lines(new, node)
            new.generators[0].iter = xs
            self.done.append(_u(node)[:60])
            return new
        if isinstance(f, ast.Name) and f.id == 'list' and len(node.args) == 1 and not node.keywords and isinstance(node.args[0], ast.GeneratorExp):
            g = node.args[0]
            new = ast.ListComp(elt=g.elt, generators=g.generators)
            ast.copy_location(new, node)
            self.done.append(_u(node)[:60])
            return new
        return node

    def visit_List(self, node):
        self.generic_visit(node)
        if isinstance(node.ctx, ast.Load) and node.elts and isinstance(node.elts[0], ast.Starred) and isinstance(node.elts[0].value, (ast.GeneratorExp, ast.ListComp)) \
                and not any(isinstance(e, ast.Starred) for e in node.elts[1:]):
            g = node.elts[0].value
            left = ast.ListComp(elt=g.elt, generators=g.generators)
            ast.copy_location(left, node)
            if len(node.elts) == 1:
                return left
            right = ast.List(elts=node.elts[1:], ctx=ast.Load())
            ast.copy_location(right, node)
            new = ast.BinOp(left=left, op=ast.Add(), right=right)
            ast.copy_location(new, node)
            self.done.append(_u(node)[:60])
            return new
        return node

    def _fuse(self, node):
        if len(node.generators) == 1 and isinstance(node.generators[0].iter, ast.GeneratorExp) and len(node.generators[0].iter.generators) == 1 \
                and isinstance(node.generators[0].target, ast.Name) and _is_pure(node.generators[0].iter.elt) and not node.generators[0].is_async:
            inner = node.generators[0].iter
            t = node.generators[0].target.id
            sub = {t: inner.elt}
            node.elt = _Subst(sub).visit(node.elt)
            ifs = [_Subst(sub).visit(c) for c in node.generators[0].ifs]
            node.generators = [ast.comprehension(target=inner.generators[0].target, iter=inner.generators[0].iter, ifs=list(inner.generators[0].ifs) + ifs, is_async=0)]
            self.done.append('comprehension over a generator fused')
        return node

    def visit_ListComp(self, node):
        self.generic_visit(node)
        return self._fuse(node)

    def visit_GeneratorExp(self, node):
        self.generic_visit(node)
        return self._fuse(node)


# ------------------------------------------------------------------------------------------------ (r) loops over new constant tables

def _atom(e) -> bool:
    if isinstance(e, ast.Constant) or isinstance(e, ast.Name):
        return True
    if isinstance(e, ast.Attribute):
        return _atom(e.value)
    if isinstance(e, ast.UnaryOp) and isinstance(e.op, (ast.USub, ast.UAdd)) and isinstance(e.operand, ast.Constant):
        return True
    return False


def _table_rows(repo, fi, it, ref):
    """Rows of the constant table a loop iterates, when the table is a module- or class-level literal the reviewed tree does not
    have: a tuple / list of atoms or of equally long tuples of atoms, or `<dict literal>.items()` (rows are (key, value))."""
    items = False
    if isinstance(it, ast.Call) and isinstance(it.func, ast.Attribute) and it.func.attr == 'items' and not it.args and not it.keywords:
        it, items = it.func.value, True
    val = None
    m = fi.module
    if isinstance(it, ast.Name):
        if it.id in ref.get('modules', {}).get(m.name, [it.id]) or it.id in local_names(fi.node):
            return None
        vals = m.assigns.get(it.id) or []
        val = vals[0] if len(vals) == 1 else None
        if val is None and it.id in m.annotations and False:
            return None
    elif isinstance(it, ast.Attribute) and isinstance(it.value, ast.Name):
        owner = None
        if it.value.id in ('self', 'cls') and fi.cls is not None:
            owner = next((c for c in fi.cls.mro() if it.attr in c.attrs), None)
        elif it.value.id in m.classes:
            owner = m.classes[it.value.id] if it.attr in m.classes[it.value.id].attrs else None
        if owner is None or it.attr in ref.get('classes', {}).get(owner.qualname, {}).get('consts', [it.attr]):
            return None
        val = owner.attrs.get(it.attr)
    if val is None:
        return None
    if items:
        if not isinstance(val, ast.Dict) or any(k is None for k in val.keys):
            return None
        rows = [[k, v] for k, v in zip(val.keys, val.values)]
    else:
        if not isinstance(val, (ast.Tuple, ast.List)):
            return None
        rows = [list(r.elts) if isinstance(r, ast.Tuple) else [r] for r in val.elts]
    def cell(x):
        # an atom, a tuple of constants (`('b', '%')` handed to startswith) or `slice(<constants>)`
        return _atom(x) or (isinstance(x, ast.Tuple) and x.elts and all(isinstance(e, ast.Constant) for e in x.elts)) \
            or (isinstance(x, ast.Call) and isinstance(x.func, ast.Name) and x.func.id == 'slice' and not x.keywords and 1 <= len(x.args) <= 3 and all(_atom(a) for a in x.args))
    if not rows or len(rows) > 16 or len({len(r) for r in rows}) != 1 or not all(cell(x) for r in rows for x in r):
        return None
    # names used in the table must mean the same where the loop is (same module)
    return rows


class _TableCellCanon(ast.NodeTransformer):
    """What substituting table cells leaves behind, spelled the ordinary way: `str.startswith(x, a)` -> `x.startswith(a)` for a
    parameter x annotated `str`; `x[slice(a, b)]` -> `x[a:b]`."""
    def __init__(self, str_params):
        self.str_params, self.count = str_params, 0

    def visit_Call(self, node):
        self.generic_visit(node)
        f = node.func
        if isinstance(f, ast.Attribute) and isinstance(f.value, ast.Name) and f.value.id == 'str' and node.args and isinstance(node.args[0], ast.Name) \
                and node.args[0].id in self.str_params and not node.keywords:
            self.count += 1
            new = ast.Call(func=ast.Attribute(value=node.args[0], attr=f.attr, ctx=ast.Load()), args=node.args[1:], keywords=[])
            return ast.copy_location(new, node)
        return node

    def visit_Subscript(self, node):
        self.generic_visit(node)
        sl = node.slice
        if isinstance(sl, ast.Call) and isinstance(sl.func, ast.Name) and sl.func.id == 'slice' and not sl.keywords and 1 <= len(sl.args) <= 3:
            a = list(sl.args)
            none = lambda e: None if (isinstance(e, ast.Constant) and e.value is None) else e
            if len(a) == 1:
                lo, hi, stp = None, none(a[0]), None
            else:
                lo, hi, stp = none(a[0]), none(a[1]), (none(a[2]) if len(a) == 3 else None)
            self.count += 1
            node.slice = ast.copy_location(ast.Slice(lower=lo, upper=hi, step=stp), sl)
        return node


class _ConstFold(ast.NodeTransformer):
    """Decides what substituting table constants has made constant: boolean operations with literal operands, `not <literal>`,
    `len('..')`, comparisons of two literals, `s.startswith('')`, conditional expressions and `if` statements on a literal."""
    def visit_BoolOp(self, node):
        self.generic_visit(node)
        vals = []
        is_and = isinstance(node.op, ast.And)
        for k, v in enumerate(node.values):
            last = k == len(node.values) - 1
            if isinstance(v, ast.Constant) and isinstance(v.value, bool):
                if v.value == is_and:
                    if last and not vals:
                        return v
                    if not last:
                        continue          # neutral element
                    vals.append(v)
                else:
                    vals.append(v)        # absorbing: what follows is never evaluated
                    break
            else:
                vals.append(v)
        if len(vals) == 1:
            return vals[0]
        # `x and True` as a value is not `x`; keep the literal unless the whole thing is a test (handled by callers reading truthiness)
        node.values = vals
        return node

    def visit_UnaryOp(self, node):
        self.generic_visit(node)
        if isinstance(node.op, ast.Not) and isinstance(node.operand, ast.Constant):
            return ast.copy_location(ast.Constant(value=not node.operand.value), node)
        return node

    def visit_Call(self, node):
        self.generic_visit(node)
        if isinstance(node.func, ast.Name) and node.func.id == 'len' and len(node.args) == 1 and isinstance(node.args[0], ast.Constant) \
                and isinstance(node.args[0].value, (str, bytes)):
            return ast.copy_location(ast.Constant(value=len(node.args[0].value)), node)
        if isinstance(node.func, ast.Attribute) and node.func.attr in ('startswith', 'endswith') and len(node.args) == 1 and isinstance(node.args[0], ast.Constant) \
                and node.args[0].value == '' and _is_pure(node.func.value):
            return ast.copy_location(ast.Constant(value=True), node)
        if isinstance(node.func, ast.Name) and node.func.id == 'int' and len(node.args) == 1 and not node.keywords and isinstance(node.args[0], ast.Constant) \
                and type(node.args[0].value) is int:
            return node.args[0]
        return node

    def visit_BinOp(self, node):
        self.generic_visit(node)
        if isinstance(node.left, ast.Constant) and isinstance(node.right, ast.Constant) and type(node.left.value) is int and type(node.right.value) is int:
            a, b = node.left.value, node.right.value
            r = None
            if isinstance(node.op, ast.BitAnd):
                r = a & b
            elif isinstance(node.op, ast.BitOr):
                r = a | b
            elif isinstance(node.op, ast.Add):
                r = a + b
            elif isinstance(node.op, ast.Sub):
                r = a - b
            if r is not None:
                return ast.copy_location(ast.Constant(value=r), node)
        return node

    def visit_Compare(self, node):
        self.generic_visit(node)
        if len(node.ops) == 1 and isinstance(node.left, ast.Constant) and isinstance(node.comparators[0], ast.Constant):
            a, b = node.left.value, node.comparators[0].value
            op = node.ops[0]
            r = None
            if isinstance(op, ast.Eq):
                r = a == b
            elif isinstance(op, ast.NotEq):
                r = a != b
            elif isinstance(op, ast.Is) and (a is None or b is None or isinstance(a, bool) or isinstance(b, bool)):
                r = a is b
            elif isinstance(op, ast.IsNot) and (a is None or b is None or isinstance(a, bool) or isinstance(b, bool)):
                r = a is not b
            if r is not None:
                return ast.copy_location(ast.Constant(value=r), node)
        return node

    def visit_IfExp(self, node):
        self.generic_visit(node)
        if isinstance(node.test, ast.Constant):
            return node.body if node.test.value else node.orelse
        return node


def _fold_if_statements(stmts):
    out = []
    for st in stmts:
        for fld in ('body', 'orelse', 'finalbody'):
            if hasattr(st, fld) and isinstance(getattr(st, fld), list) and not isinstance(st, ast.If):
                setattr(st, fld, _fold_if_statements(getattr(st, fld)) or ([ast.copy_location(ast.Pass(), st)] if fld == 'body' else []))
        if isinstance(st, ast.If):
            st.body = _fold_if_statements(st.body) or [ast.copy_location(ast.Pass(), st)]
            st.orelse = _fold_if_statements(st.orelse)
            if isinstance(st.test, ast.Constant):
                out.extend(st.body if st.test.value else st.orelse)
                continue
            # `if True and X` already reduced to `if X` by the expression folder; `if X and True` -> `if X`
            if isinstance(st.test, ast.BoolOp) and isinstance(st.test.op, ast.And) and isinstance(st.test.values[-1], ast.Constant) and st.test.values[-1].value is True:
                st.test = st.test.values[0] if len(st.test.values) == 2 else ast.BoolOp(op=ast.And(), values=st.test.values[:-1])
        out.append(st)
        if isinstance(st, (ast.Return, ast.Raise)):
            break
    return out


def _unroll_tables(repo, fi, ref) -> list[str]:
    fn = fi.node
    done = []
    for body in list(_bodies(fn)):
        i = 0
        while i < len(body):
            st = body[i]
            i += 1
            if not (isinstance(st, ast.For) and not st.orelse):
                continue
            rows = _table_rows(repo, fi, st.iter, ref)
            if rows is None:
                continue
            tg = st.target
            names = [tg.id] if isinstance(tg, ast.Name) else [e.id for e in tg.elts] if isinstance(tg, ast.Tuple) and all(isinstance(e, ast.Name) for e in tg.elts) else None
            if names is None or len(names) != len(rows[0]) or len(set(names)) != len(names):
                continue
            inside = {id(n) for n in ast.walk(st)}
            if any(isinstance(n, ast.Name) and n.id in names and id(n) not in inside for n in ast.walk(fn)):
                continue      # a loop variable is read after the loop
            if any(isinstance(n, ast.Name) and n.id in names and isinstance(n.ctx, ast.Store) for b in st.body for n in ast.walk(b)):
                continue
            # break / continue of this loop (not of a nested one) would need more than copying the body
            def own_jumps(stmts):
                for s_ in stmts:
                    if isinstance(s_, (ast.Break, ast.Continue)):
                        return True
                    if isinstance(s_, (ast.For, ast.While)):
                        continue
                    for fld in ('body', 'orelse', 'handlers', 'finalbody'):
                        sub = getattr(s_, fld, None)
                        if isinstance(sub, list) and own_jumps([x for x in sub if isinstance(x, ast.stmt)] + [y for x in sub if isinstance(x, ast.ExceptHandler) for y in x.body]):
                            return True
                return False
            if own_jumps(st.body):
                # first match wins: `for row in T: if C: <effects>; break` -> if C1: .. elif C2: .. (the one `break` is what ends the search)
                b0 = st.body[0] if len(st.body) == 1 else None
                if not (isinstance(b0, ast.If) and not b0.orelse and isinstance(b0.body[-1], ast.Break) and not own_jumps(b0.body[:-1])):
                    continue
                chain = None
                for r in reversed(rows):
                    w = ast.Module(body=[copy.deepcopy(b0)], type_ignores=[])
                    w = _ConstFold().visit(_Subst(dict(zip(names, r))).visit(w))
                    node_ = w.body[0]
                    node_.body = node_.body[:-1] or [ast.Pass()]
                    if isinstance(node_.test, ast.Constant):
                        if node_.test.value:
                            chain = node_.body          # always matches: what follows is never tried
                        continue
                    node_.orelse = chain if isinstance(chain, list) else ([chain] if chain is not None else [])
                    chain = node_
                new = chain if isinstance(chain, list) else ([chain] if chain is not None else [])
                for n in new:
                    for x in ast.walk(n):
                        if isinstance(x, ast.stmt):
                            ast.copy_location(x, st)
                body[i - 1:i] = new or [ast.copy_location(ast.Pass(), st)]
                i += len(new) - 1
                done.append(f'first-match loop for {_u(st.target)} in {_u(st.iter)} ({len(rows)} rows)')
                continue
            new = []
            for r in rows:
                copy_body = copy.deepcopy(st.body)
                wrapper = ast.Module(body=copy_body, type_ignores=[])
                wrapper = _Subst(dict(zip(names, r))).visit(wrapper)
                wrapper = _ConstFold().visit(wrapper)
                new.extend(_fold_if_statements(wrapper.body))
                if new and isinstance(new[-1], (ast.Return, ast.Raise)):
                    break
            for n in new:
                for x in ast.walk(n):
                    if isinstance(x, ast.stmt):
                        ast.copy_location(x, st)
            body[i - 1:i] = new or [ast.copy_location(ast.Pass(), st)]
            i += len(new) - 1
            done.append(f'for {_u(st.target)} in {_u(st.iter)} ({len(rows)} rows)')
    return done


# ------------------------------------------------------------------------------------------------ (s) d.get(k, default)

def _expand_get_default(fn: ast.FunctionDef, known_assigns: set[str], known_returns: set[str]) -> list[str]:
    """A new `return E[d.get('k', D)]` / `x = E[d.get('k', D)]` -> `if 'k' in d: <stmt with d['k']> else: <stmt with D>` (constant key,
    `d` and `D` free of effects, the lookup evaluated unconditionally and exactly once in the statement)."""
    done = []
    for body in list(_bodies(fn)):
        i = 0
        while i < len(body):
            st = body[i]
            i += 1
            if isinstance(st, ast.Return) and st.value is not None:
                if _u(st) in known_returns:
                    continue
            elif isinstance(st, (ast.Assign, ast.AnnAssign)) and getattr(st, 'value', None) is not None:
                if _u(st) in known_assigns:
                    continue
            else:
                continue
            gets = [c for c in ast.walk(st.value) if isinstance(c, ast.Call) and isinstance(c.func, ast.Attribute) and c.func.attr == 'get' and len(c.args) == 2
                    and not c.keywords and isinstance(c.args[0], ast.Constant) and isinstance(c.args[0].value, str) and _is_pure(c.func.value) and _is_pure(c.args[1])]
            if len(gets) != 1:
                continue
            g = gets[0]
            # the reviewed function spelled this lookup with .get itself: nothing to recover
            if any(f'.get({g.args[0].value!r}' in t for t in list(known_assigns) + list(known_returns)):
                continue
            # unconditional: not under a boolean operator, conditional expression, lambda or comprehension
            cond_parents = [n for n in ast.walk(st.value) if isinstance(n, (ast.BoolOp, ast.IfExp, ast.Lambda, ast.ListComp, ast.GeneratorExp, ast.DictComp, ast.SetComp))
                            and any(x is g for x in ast.walk(n))]
            if cond_parents:
                continue
            d, k, dflt = g.func.value, g.args[0], g.args[1]

            def variant(repl):
                c = copy.deepcopy(st)

                class R(ast.NodeTransformer):
                    def visit_Call(self_, node):
                        if _u(node) == _u(g):
                            return copy.deepcopy(repl)
                        return self_.generic_visit(node)
                c.value = R().visit(c.value)
                c = _ConstFold().visit(c)
                return c
            hit = variant(ast.Subscript(value=copy.deepcopy(d), slice=copy.deepcopy(k), ctx=ast.Load()))
            miss = variant(dflt)
            if isinstance(st, ast.AnnAssign):
                hit = ast.Assign(targets=[copy.deepcopy(st.target)], value=hit.value)
                miss = ast.Assign(targets=[copy.deepcopy(st.target)], value=miss.value)
            new = ast.If(test=ast.Compare(left=copy.deepcopy(k), ops=[ast.In()], comparators=[copy.deepcopy(d)]), body=[hit], orelse=[miss])
            for n in ast.walk(new):
                if isinstance(n, (ast.stmt, ast.expr)):
                    ast.copy_location(n, st)
            body[i - 1] = new
            done.append(_u(st)[:70])
    return done


# ------------------------------------------------------------------------------------------------ (t) v = d.get(k) / if v is None

def _values_never_none(repo, fi, d) -> bool:
    """Every value the dictionary `d` can hold is an object: a module-level dict literal without None values, or `self.X` that is
    only ever filled by `self.X[..] = <fresh instance>` / a literal / an empty dict inside the class family."""
    if isinstance(d, ast.Name):
        vals = fi.module.assigns.get(d.id) or []
        if len(vals) == 1 and isinstance(vals[0], ast.Dict) and d.id not in local_names(fi.node):
            return all(not (isinstance(v, ast.Constant) and v.value is None) and (isinstance(v, (ast.Constant, ast.Attribute, ast.Name)) or _noneness(repo, fi, v) is False)
                       for v in vals[0].values)
        return False
    if isinstance(d, ast.Attribute) and isinstance(d.value, ast.Name) and d.value.id == 'self' and fi.cls is not None:
        attr = d.attr
        ok_any = False
        for c in fi.cls.mro() + fi.cls.all_subclasses():
            for f in list(c.methods.values()) + list(c.setters.values()):
                for n in ast.walk(f.node):
                    if isinstance(n, ast.Attribute) and n.attr == attr and isinstance(n.value, ast.Name) and n.value.id == 'self' and isinstance(n.ctx, ast.Store):
                        # self.X = <value>
                        par = next((a for a in ast.walk(f.node) if isinstance(a, (ast.Assign, ast.AnnAssign)) and (n in getattr(a, 'targets', []) or getattr(a, 'target', None) is n)), None)
                        v = getattr(par, 'value', None)
                        if isinstance(v, ast.Dict) and all(_noneness(repo, f, x) is False for x in v.values):
                            ok_any = True
                        elif isinstance(v, ast.Call) and _u(v.func) == 'dict' and not v.args and not v.keywords:
                            ok_any = True
                        elif v is None and isinstance(par, ast.AnnAssign):
                            pass
                        else:
                            return False
                    if isinstance(n, ast.Subscript) and isinstance(n.ctx, ast.Store) and _u(n.value) == f'self.{attr}':
                        par = next((a for a in ast.walk(f.node) if isinstance(a, ast.Assign) and n in a.targets), None)
                        if par is None or _noneness(repo, f, par.value) is not False:
                            return False
                    if isinstance(n, ast.Call) and isinstance(n.func, ast.Attribute) and _u(n.func.value) == f'self.{attr}' and n.func.attr in ('update', 'setdefault', '__setitem__'):
                        return False
        return ok_any
    return False


def _expand_get_none_test(repo, fi, known_assigns: set[str]) -> list[str]:
    """A new `v = d.get(k)` directly followed by a test of `v is None` / `v is not None`, for a dictionary that never holds None:
    the test is `k not in d` / `k in d` and `v` is `d[k]` where it was found."""
    fn = fi.node
    done = []
    for body in list(_bodies(fn)):
        i = 0
        while i + 1 < len(body):
            a, b = body[i], body[i + 1]
            i += 1
            if not (isinstance(a, ast.Assign) and len(a.targets) == 1 and isinstance(a.targets[0], ast.Name) and _u(a) not in known_assigns
                    and isinstance(a.value, ast.Call) and isinstance(a.value.func, ast.Attribute) and a.value.func.attr == 'get' and len(a.value.args) == 1
                    and not a.value.keywords and _is_pure(a.value.func.value) and _is_pure(a.value.args[0])):
                continue
            v, d, k = a.targets[0].id, a.value.func.value, a.value.args[0]
            if not (isinstance(b, ast.If) and isinstance(b.test, ast.Compare) and len(b.test.ops) == 1 and isinstance(b.test.left, ast.Name) and b.test.left.id == v
                    and isinstance(b.test.comparators[0], ast.Constant) and b.test.comparators[0].value is None and isinstance(b.test.ops[0], (ast.Is, ast.IsNot))):
                continue
            stores = [n for n in ast.walk(fn) if isinstance(n, ast.Name) and n.id == v and isinstance(n.ctx, ast.Store)]
            if len(stores) != 1 or not _values_never_none(repo, fi, d):
                continue
            found_when_true = isinstance(b.test.ops[0], ast.IsNot)
            found_branch, missing_branch = (b.body, b.orelse) if found_when_true else (b.orelse, b.body)
            rest = body[i + 1:]
            uses_missing = any(isinstance(n, ast.Name) and n.id == v for s_ in missing_branch for n in ast.walk(s_))
            uses_after = any(isinstance(n, ast.Name) and n.id == v for s_ in rest for n in ast.walk(s_))
            if uses_missing:
                continue
            fetch = ast.Assign(targets=[ast.Name(id=v, ctx=ast.Store())], value=ast.Subscript(value=copy.deepcopy(d), slice=copy.deepcopy(k), ctx=ast.Load()))
            _set_lines(fetch, a)
            if uses_after:
                # only sound when the missing branch never falls through (`if v is None: exit` guard): fetch after the test
                if found_when_true or b.orelse or not _always_returns(b.body):
                    continue
                body.insert(i + 1, fetch)
            else:
                if found_when_true:
                    b.body.insert(0, fetch)
                else:
                    if not b.orelse:
                        pass          # v is not used where it was found: nothing to fetch
                    else:
                        b.orelse.insert(0, fetch)
            op = ast.In() if found_when_true else ast.NotIn()
            b.test = ast.copy_location(ast.Compare(left=copy.deepcopy(k), ops=[op], comparators=[copy.deepcopy(d)]), b.test)
            del body[i - 1]
            done.append(_u(a)[:60])
    return done


# ------------------------------------------------------------------------------------------------ (u) new named constants, new defaulted parameters

def _literal(e) -> bool:
    if isinstance(e, ast.Constant):
        return True
    if isinstance(e, ast.UnaryOp) and isinstance(e.op, (ast.USub, ast.UAdd, ast.Invert)) and isinstance(e.operand, ast.Constant):
        return True
    if isinstance(e, (ast.Tuple, ast.List)) and all(isinstance(x, ast.Constant) for x in e.elts) and len(e.elts) <= 8:
        return True          # (a flat tuple of literals; a table of rows is left to the table rewrites)
    if isinstance(e, ast.BinOp) and _literal(e.left) and _literal(e.right):
        return True
    return False


def _new_literal_constants(repo, ref) -> dict:
    """(module name, NAME) -> literal value, and (class qualname, NAME) -> literal value, for module- / class-level names the reviewed
    tree does not have, bound exactly once to a literal, and never rebound or mutated anywhere."""
    out = {}
    for m in repo.modules.values():
        known = set(ref.get('modules', {}).get(m.name, [])) if m.name in ref.get('modules', {}) else None
        if known is None:
            continue
        for name, vals in m.assigns.items():
            if name in known or len(vals) != 1 or not _literal(vals[0]) or not name.isupper() and not name.startswith('_'):
                continue
            out[('m', m.name, name)] = vals[0]
    for q, ci in repo.classes.items():
        rc = ref.get('classes', {}).get(q)
        if rc is None or 'consts' not in rc:
            continue
        if any('Enum' in _u(b) for b in ci.node.bases):
            continue
        for name, val in ci.attrs.items():
            if name in rc['consts'] or val is None or not _literal(val):
                continue
            out[('c', q, name)] = val
    # never stored to from code
    if out:
        names = {k[2] for k in out}
        for f in repo.functions.values():
            for n in ast.walk(f.node):
                if isinstance(n, (ast.Global, ast.Nonlocal)) and set(n.names) & names:
                    for k in [k for k in out if k[2] in n.names]:
                        out.pop(k, None)
                if isinstance(n, ast.Attribute) and isinstance(n.ctx, ast.Store) and n.attr in names:
                    for k in [k for k in out if k[2] == n.attr]:
                        out.pop(k, None)
    return out


class _FoldFString(ast.NodeTransformer):
    """f'{<str literal>}(...)' -> the literal text merged into the neighbouring text."""
    def visit_JoinedStr(self, node):
        self.generic_visit(node)
        vals = []
        for v in node.values:
            if isinstance(v, ast.FormattedValue) and isinstance(v.value, ast.Constant) and isinstance(v.value.value, str) and v.conversion == -1 and v.format_spec is None:
                v = ast.copy_location(ast.Constant(value=v.value.value), v)
            if isinstance(v, ast.Constant) and vals and isinstance(vals[-1], ast.Constant):
                vals[-1] = ast.copy_location(ast.Constant(value=vals[-1].value + v.value), vals[-1])
            else:
                vals.append(v)
        if len(vals) == 1 and isinstance(vals[0], ast.Constant):
            return vals[0]
        node.values = vals
        return node


class _ConstNames(ast.NodeTransformer):
    """A new named literal constant is its literal wherever the name is read (module constants by name in their module and where
    imported by name; class constants as Class.NAME / self.NAME / cls.NAME)."""
    def __init__(self, repo, fi, consts):
        self.repo, self.fi, self.consts, self.done = repo, fi, consts, []
        self.locals = local_names(fi.node) | {a.arg for a in fi.node.args.args + fi.node.args.kwonlyargs + fi.node.args.posonlyargs}

    def visit_Name(self, node):
        if not isinstance(node.ctx, ast.Load) or node.id in self.locals:
            return node
        m = self.fi.module
        v = self.consts.get(('m', m.name, node.id))
        if v is None and node.id not in m.assigns:
            imp = m.imports.get(node.id)
            if imp is not None and imp[0] == 'symbol':
                v = self.consts.get(('m', imp[1], imp[2]))
        if v is not None:
            self.done.append(node.id)
            return ast.copy_location(copy.deepcopy(v), node)
        return node

    def visit_Attribute(self, node):
        self.generic_visit(node)
        if isinstance(node.ctx, ast.Load) and isinstance(node.value, ast.Name):
            base = node.value.id
            cq = None
            if base in ('self', 'cls') and self.fi.cls is not None:
                for c in self.fi.cls.mro():
                    if ('c', c.qualname, node.attr) in self.consts:
                        cq = c.qualname
                        break
            elif base in self.fi.module.classes:
                cq = self.fi.module.classes[base].qualname
            else:
                imp = self.fi.module.imports.get(base)
                if imp is not None and imp[0] == 'symbol':
                    cq = f'{imp[1]}.{imp[2]}'
                elif imp is not None and imp[0] == 'module':
                    v = self.consts.get(('m', imp[1], node.attr))
                    if v is not None:
                        self.done.append(f'{base}.{node.attr}')
                        return ast.copy_location(copy.deepcopy(v), node)
            if cq is not None and ('c', cq, node.attr) in self.consts:
                self.done.append(f'{base}.{node.attr}')
                return ast.copy_location(copy.deepcopy(self.consts[('c', cq, node.attr)]), node)
        return node


def _new_default_params(repo, fi, ref_bindings: list[str]) -> dict:
    """Parameters the reviewed function does not have, with a literal (or module-constant) default, that no call in the
    repository passes: inside the function they are their default."""
    a = fi.node.args
    allp = a.posonlyargs + a.args
    defaults = dict(zip([p.arg for p in allp[len(allp) - len(a.defaults):]], a.defaults))
    for p, d in zip(a.kwonlyargs, a.kw_defaults):
        if d is not None:
            defaults[p.arg] = d
    new = {p: d for p, d in defaults.items() if p not in ref_bindings and (_literal(d) or isinstance(d, (ast.Name, ast.Attribute)))}
    if not new:
        return {}
    # positions of the new positional parameters: a call with that many positional arguments passes them
    pos = {p.arg: i - (1 if fi.kind in ('method', 'classmethod', 'property') and fi.cls is not None else 0) for i, p in enumerate(allp)}
    calls = []
    if fi.name == '__init__' and fi.cls is not None:
        family = [fi.cls] + fi.cls.all_subclasses()
        ctor_names = {c.name for c in family if c is fi.cls or '__init__' not in c.methods}
        for m in repo.modules.values():
            for c in ast.walk(m.tree):
                if isinstance(c, ast.Call):
                    fname = c.func.attr if isinstance(c.func, ast.Attribute) else c.func.id if isinstance(c.func, ast.Name) else None
                    if fname in ctor_names:
                        calls.append(c)
        for f in repo.functions.values():
            if f.cls is not None and f.cls in family and f.cls is not fi.cls:
                for c in ast.walk(f.node):
                    if isinstance(c, ast.Call) and isinstance(c.func, ast.Attribute) and c.func.attr == '__init__':
                        calls.append(c)
    else:
        for m in repo.modules.values():
            for c in ast.walk(m.tree):
                if isinstance(c, ast.Call):
                    fname = c.func.attr if isinstance(c.func, ast.Attribute) else c.func.id if isinstance(c.func, ast.Name) else None
                    if fname == fi.name:
                        calls.append(c)
    # a method of the same name (the function itself, an override, the parent scope's implementation) that hands on its own
    # parameter of that name, with the same default, passes nothing new: the value is still the default unless somebody else passes it
    handed_on = {}
    if fi.name != '__init__':
        for g in repo.functions.values():
            if g.name != fi.name:
                continue
            ga = g.node.args
            gp = ga.posonlyargs + ga.args
            gdef = dict(zip([x.arg for x in gp[len(gp) - len(ga.defaults):]], ga.defaults))
            for x, d in zip(ga.kwonlyargs, ga.kw_defaults):
                if d is not None:
                    gdef[x.arg] = d
            stored = {n.id for n in ast.walk(g.node) if isinstance(n, ast.Name) and isinstance(n.ctx, ast.Store)}
            same = {x for x in new if x in gdef and _u(gdef[x]) == _u(new[x]) and x not in stored}
            if same:
                for c in ast.walk(g.node):
                    if isinstance(c, ast.Call):
                        handed_on[id(c)] = same
    for c in calls:
        if any(k.arg is None for k in c.keywords) or any(isinstance(x, ast.Starred) for x in c.args):
            return {}
        own = handed_on.get(id(c), set())
        for k in c.keywords:
            if k.arg in new and (_u(k.value) == _u(new[k.arg]) or (k.arg in own and _u(k.value) == k.arg)):
                continue            # the default itself, spelled out (or handed on)
            new.pop(k.arg, None)
        for p in list(new):
            if p in pos and len(c.args) > pos[p] and _u(c.args[pos[p]]) != _u(new[p]) and not (p in own and _u(c.args[pos[p]]) == p):
                new.pop(p, None)
    return new


def _settle_default_params(repo, ref_funcs, log) -> None:
    """New defaulted parameters that are only ever handed on from another new defaulted parameter nobody passes: settle them in
    rounds, and drop the keyword that spells out the default at the call."""
    for _round in range(3):
        changed = False
        for q, fi in repo.functions.items():
            if q not in ref_funcs:
                continue
            nd = _new_default_params(repo, fi, ref_funcs[q].get('bindings', []))
            stored = {n.id for n in ast.walk(fi.node) if isinstance(n, ast.Name) and isinstance(n.ctx, ast.Store)}
            nd = {p_: d_ for p_, d_ in nd.items() if p_ not in stored}
            used = {n.id for st in fi.node.body for n in ast.walk(st) if isinstance(n, ast.Name)}
            if nd and used & set(nd):
                wrapper_ = ast.Module(body=fi.node.body, type_ignores=[])
                wrapper_ = _ConstFold().visit(_Subst(nd).visit(wrapper_))
                fi.node.body = _fold_if_statements(wrapper_.body) or [ast.Pass()]
                ast.fix_missing_locations(fi.node)
                log.setdefault(q, []).append(f'new parameters no caller passes read as their defaults: {", ".join(sorted(nd))}')
                changed = True
            if nd:
                for m in repo.modules.values():
                    for c in ast.walk(m.tree):
                        if isinstance(c, ast.Call) and c.keywords:
                            fname = c.func.attr if isinstance(c.func, ast.Attribute) else c.func.id if isinstance(c.func, ast.Name) else None
                            if fname == fi.name or (fi.name == '__init__' and fi.cls is not None and fname in (fi.cls.name, '__init__')):
                                keep = [k for k in c.keywords if not (k.arg in nd and _u(k.value) == _u(nd[k.arg]))]
                                if len(keep) != len(c.keywords):
                                    c.keywords = keep
                                    changed = True
        if not changed:
            break


# ------------------------------------------------------------------------------------------------ (v) lookups in new constant dictionaries

def _new_const_dict(repo, fi, e, ref):
    """The dict literal behind `NAME` / `Class.NAME` / `self.NAME` when that is a module- or class-level dictionary of atoms the
    reviewed tree does not have."""
    m = fi.module
    val = None
    if isinstance(e, ast.Name):
        if e.id in ref.get('modules', {}).get(m.name, [e.id]) or e.id in local_names(fi.node):
            return None
        vals = m.assigns.get(e.id) or []
        val = vals[0] if len(vals) == 1 else None
    elif isinstance(e, ast.Attribute) and isinstance(e.value, ast.Name):
        owner = None
        if e.value.id in ('self', 'cls') and fi.cls is not None:
            owner = next((c for c in fi.cls.mro() if e.attr in c.attrs), None)
        elif e.value.id in m.classes and e.attr in m.classes[e.value.id].attrs:
            owner = m.classes[e.value.id]
        if owner is None or e.attr in ref.get('classes', {}).get(owner.qualname, {}).get('consts', [e.attr]):
            return None
        val = owner.attrs.get(e.attr)
    if isinstance(val, ast.Dict) and val.keys and len(val.keys) <= 16 and all(k is not None and _atom(k) for k in val.keys) and all(_atom(v) for v in val.values):
        return val
    return None


def _new_const_collection(repo, fi, e, ref):
    """The elements behind `NAME` / `Class.NAME` / `self.NAME` when that is a module- or class-level set / frozenset / tuple / list of
    at most 8 atoms that the reviewed tree does not have."""
    m = fi.module
    val = None
    if isinstance(e, ast.Name):
        if e.id in ref.get('modules', {}).get(m.name, [e.id]) or e.id in local_names(fi.node):
            return None
        vals = m.assigns.get(e.id) or []
        val = vals[0] if len(vals) == 1 else None
    elif isinstance(e, ast.Attribute) and isinstance(e.value, ast.Name):
        owner = None
        if e.value.id in ('self', 'cls') and fi.cls is not None:
            owner = next((c for c in fi.cls.mro() if e.attr in c.attrs), None)
        elif e.value.id in m.classes and e.attr in m.classes[e.value.id].attrs:
            owner = m.classes[e.value.id]
        if owner is None or e.attr in ref.get('classes', {}).get(owner.qualname, {}).get('consts', [e.attr]):
            return None
        val = owner.attrs.get(e.attr)
    if isinstance(val, ast.Call) and isinstance(val.func, ast.Name) and val.func.id in ('frozenset', 'set', 'tuple', 'list') and len(val.args) == 1 and not val.keywords:
        val = val.args[0]
    if isinstance(val, (ast.Set, ast.Tuple, ast.List)) and 1 <= len(val.elts) <= 8 and all(_atom(x) for x in val.elts):
        return val.elts
    return None


class _MembershipInNewConst(ast.NodeTransformer):
    """`x in NEW` / `x not in NEW` for a new constant collection of atoms -> `x == a or x == b` / `x != a and x != b`."""
    def __init__(self, repo, fi, ref):
        self.repo, self.fi, self.ref, self.done = repo, fi, ref, []

    def visit_Compare(self, node):
        self.generic_visit(node)
        if len(node.ops) == 1 and isinstance(node.ops[0], (ast.In, ast.NotIn)) and _is_pure(node.left):
            elts = _new_const_collection(self.repo, self.fi, node.comparators[0], self.ref)
            if elts is not None:
                neg = isinstance(node.ops[0], ast.NotIn)
                parts = [ast.Compare(left=copy.deepcopy(node.left), ops=[ast.NotEq() if neg else ast.Eq()], comparators=[copy.deepcopy(x)]) for x in elts]
                new = parts[0] if len(parts) == 1 else ast.BoolOp(op=ast.And() if neg else ast.Or(), values=parts)
                for n in ast.walk(new):
                    if isinstance(n, (ast.expr,)):
                        ast.copy_location(n, node)
                self.done.append(_u(node)[:70])
                return new
        return node


def _unroll_local_dict_dispatch(fn: ast.FunctionDef, known_assigns: set[str]) -> list[str]:
    """A local dictionary the reviewed function does not have, `D = {k1: (a1, b1), k2: (a2, b2)}` (constant keys, pure elements), used
    only as `if KEY in D:` / `x, y = D[KEY]` first in that branch -> `if KEY == k1: <branch with a1, b1>` / `elif KEY == k2: ...`:
    the dispatch the table encodes, spelled as the if-chain it replaced."""
    done = []
    for body in list(_bodies(fn)):
        for di, dst in enumerate(body):
            if not (isinstance(dst, ast.Assign) and len(dst.targets) == 1 and isinstance(dst.targets[0], ast.Name) and isinstance(dst.value, ast.Dict)
                    and dst.value.keys and len(dst.value.keys) <= 8 and _u(dst) not in known_assigns):
                continue
            D = dst.targets[0].id
            d = dst.value
            if not all(k is not None and isinstance(k, ast.Constant) for k in d.keys) or not all(isinstance(v, ast.Tuple) and all(_is_pure(e) for e in v.elts) for v in d.values):
                continue
            arity = {len(v.elts) for v in d.values}
            if len(arity) != 1:
                continue
            uses = [n for n in ast.walk(fn) if isinstance(n, ast.Name) and n.id == D and n is not dst.targets[0]]
            # find the dispatching ifs
            sites = []
            for b2 in _bodies(fn):
                for j, st in enumerate(b2):
                    if isinstance(st, ast.If) and isinstance(st.test, ast.Compare) and len(st.test.ops) == 1 and isinstance(st.test.ops[0], ast.In) \
                            and isinstance(st.test.comparators[0], ast.Name) and st.test.comparators[0].id == D and _is_pure(st.test.left) and st.body \
                            and isinstance(st.body[0], ast.Assign) and len(st.body[0].targets) == 1 and isinstance(st.body[0].targets[0], ast.Tuple) \
                            and all(isinstance(t, ast.Name) for t in st.body[0].targets[0].elts) and len(st.body[0].targets[0].elts) == next(iter(arity)) \
                            and isinstance(st.body[0].value, ast.Subscript) and isinstance(st.body[0].value.value, ast.Name) and st.body[0].value.value.id == D \
                            and _u(st.body[0].value.slice) == _u(st.test.left):
                        sites.append((b2, j, st))
            if len(sites) != 1 or len(uses) != 2:
                continue
            b2, j, st = sites[0]
            names = [t.id for t in st.body[0].targets[0].elts]
            rest = st.body[1:]
            stored = {n.id for x in rest for n in ast.walk(x) if isinstance(n, ast.Name) and isinstance(n.ctx, ast.Store)}
            after = [n for k_, x in enumerate(b2) if k_ > j for n in ast.walk(x) if isinstance(n, ast.Name) and n.id in names]
            if stored & set(names) or after:
                continue
            chain = list(st.orelse)
            for k, v in reversed(list(zip(d.keys, d.values))):
                mapping = dict(zip(names, v.elts))
                new_body = [_Subst(mapping).visit(copy.deepcopy(x)) for x in rest] or [ast.Pass()]
                test = ast.Compare(left=copy.deepcopy(st.test.left), ops=[ast.Eq()], comparators=[copy.deepcopy(k)])
                node = ast.If(test=test, body=new_body, orelse=chain)
                _set_lines(node, st)
                for x_, y_ in zip(new_body, rest):
                    ast.copy_location(x_, y_)
                chain = [node]
            b2[j] = chain[0]
            body[di] = ast.Pass()
            ast.copy_location(body[di], dst)
            ast.fix_missing_locations(fn)
            done.append(_u(dst)[:70])
            return done + _unroll_local_dict_dispatch(fn, known_assigns)
    return done


def _unroll_dict_lookups(repo, fi, ref) -> list[str]:
    """`return T.get(x, d)` / `return T.get(x)` / `return T[x]` for a new constant dictionary T -> `if x == k1: return v1` ... and the
    default (or the KeyError) last."""
    done = []
    for body in list(_bodies(fi.node)):
        i = 0
        while i < len(body):
            st = body[i]
            i += 1
            if not (isinstance(st, ast.Return) and st.value is not None):
                continue
            v = st.value
            table = key = dflt = None
            if isinstance(v, ast.Call) and isinstance(v.func, ast.Attribute) and v.func.attr == 'get' and 1 <= len(v.args) <= 2 and not v.keywords:
                table, key = v.func.value, v.args[0]
                dflt = v.args[1] if len(v.args) == 2 else ast.Constant(value=None)
            elif isinstance(v, ast.Subscript) and isinstance(v.ctx, ast.Load):
                table, key = v.value, v.slice
            if table is None or not _is_pure(key) or (dflt is not None and not _is_pure(dflt)):
                continue
            d = _new_const_dict(repo, fi, table, ref)
            if d is None:
                continue
            last = ast.Return(value=dflt) if dflt is not None else \
                ast.Raise(exc=ast.Call(func=ast.Name(id='KeyError', ctx=ast.Load()), args=[copy.deepcopy(key)], keywords=[]), cause=None)
            chain = [last]
            for k, val in reversed(list(zip(d.keys, d.values))):
                test = ast.Compare(left=copy.deepcopy(key), ops=[ast.Eq()], comparators=[copy.deepcopy(k)])
                chain = [ast.If(test=test, body=[ast.Return(value=copy.deepcopy(val))], orelse=chain)]
            for n in ast.walk(chain[0]):
                if isinstance(n, (ast.stmt, ast.expr)):
                    ast.copy_location(n, st)
            body[i - 1] = chain[0]
            done.append(_u(st)[:70])
    return done


# ------------------------------------------------------------------------------------------------ (g) parallel assignments

def _split_parallel(fn: ast.FunctionDef, known_stmts: set[str]) -> list[str]:
    """`a, b = f(a), g(b)` -> `a = f(a)` / `b = g(b)` when no right-hand side reads a target assigned before it."""
    done = []
    closure_reads = {n.id for c in ast.walk(fn) if isinstance(c, (ast.Lambda, ast.FunctionDef, ast.GeneratorExp)) and c is not fn
                     for n in ast.walk(c) if isinstance(n, ast.Name)}
    for body in list(_bodies(fn)):
        i = 0
        while i < len(body):
            st = body[i]
            if isinstance(st, ast.Assign) and len(st.targets) == 1 and isinstance(st.targets[0], ast.Tuple) and isinstance(st.value, ast.Tuple) \
                    and len(st.targets[0].elts) == len(st.value.elts) and all(isinstance(t, ast.Name) for t in st.targets[0].elts) \
                    and _u(st) not in known_stmts:
                names = [t.id for t in st.targets[0].elts]
                ok = True
                for k, v in enumerate(st.value.elts):
                    reads = {n.id for n in ast.walk(v) if isinstance(n, ast.Name)}
                    if reads & set(names[:k]) or (not _is_pure(v) and closure_reads & set(names)):
                        ok = False      # (targets are plain locals: only code that reads them can tell the two orders apart)
                if ok and len(set(names)) == len(names):
                    new = []
                    for t, v in zip(st.targets[0].elts, st.value.elts):
                        if isinstance(v, ast.Name) and v.id == t.id:
                            continue          # `x = x` does nothing
                        a = ast.Assign(targets=[t], value=v)
                        _set_lines(a, st)
                        a.targets, a.value = [t], v
                        new.append(a)
                    body[i:i + 1] = new or [ast.copy_location(ast.Pass(), st)]
                    done.append(_u(st)[:70])
                    i += max(len(new), 1)
                    continue
            i += 1
    return done


# ------------------------------------------------------------------------------------------------ (e) renamings

def _rename_attr_everywhere(repo, old: str, new: str, cls=None):
    """Rename attribute `old` to `new`: inside `cls` and its subclasses when given (self./cls. receivers), else repo-wide."""
    if cls is None:
        for m in repo.modules.values():
            for n in ast.walk(m.tree):
                if isinstance(n, ast.Attribute) and n.attr == old:
                    n.attr = new
        return
    for c in [cls] + cls.all_subclasses():
        for f in list(c.methods.values()) + list(getattr(c, 'setters', {}).values()):
            for n in ast.walk(f.node):
                if isinstance(n, ast.Attribute) and n.attr == old:
                    n.attr = new
    # ... and where another function reaches into an object annotated as one of these classes (`variant: InstructionVariant`)
    family = {c.name for c in [cls] + cls.all_subclasses()}
    for f in repo.functions.values():
        typed = {}
        a = f.node.args
        for p in a.posonlyargs + a.args + a.kwonlyargs:
            if p.annotation is not None:
                typed[p.arg] = _u(p.annotation)
        for n in ast.walk(f.node):
            if isinstance(n, ast.AnnAssign) and isinstance(n.target, ast.Name):
                typed[n.target.id] = _u(n.annotation)
        names = {v for v, t in typed.items() if t.strip('\'"').split('.')[-1] in family}
        if not names:
            continue
        for n in ast.walk(f.node):
            if isinstance(n, ast.Attribute) and n.attr == old and isinstance(n.value, ast.Name) and n.value.id in names:
                n.attr = new


def _recover_renames(repo, ref, log: dict) -> None:
    ref_f, ref_c = ref['functions'], ref.get('classes', {})
    all_ref_attrs = {a for c in ref_c.values() for a in c['attrs']}
    all_ref_methods = {m for c in ref_c.values() for m in c['methods']}
    # private methods: a method the reviewed class does not have, while one it had is gone, with the same structure
    for cq, ci in repo.classes.items():
        rc = ref_c.get(cq)
        if rc is None:
            continue
        now = set(ci.methods)
        gone = [m for m in rc['methods'] if m not in now and m.startswith('_') and not m.startswith('__')]
        added = [m for m in now if m not in rc['methods'] and m.startswith('_') and not m.startswith('__')]
        for a in list(added):
            fa = ci.methods[a]
            cands = [g for g in gone if ref_f.get(f'{cq}.{g}', {}).get('shape') == shape(fa.node)]
            if len(cands) != 1 and len(gone) == 1 and len(added) == 1:
                cands = gone
            if len(cands) != 1:
                continue
            g = cands[0]
            gone.remove(g)
            added.remove(a)
            # re-key the function and rename every reference to it
            del ci.methods[a]
            ci.methods[g] = fa
            oldq = fa.qualname
            fa.node.name = g
            fa.name = g
            fa.qualname = f'{cq}.{g}'
            repo.functions.pop(oldq, None)
            repo.functions[fa.qualname] = fa
            _rename_attr_everywhere(repo, a, g, None if a not in all_ref_methods and a not in all_ref_attrs else ci)
            log.setdefault(cq, []).append(f'private method {a} recognised as the reviewed {g} (same structure)')
    # private attributes
    for cq, ci in repo.classes.items():
        rc = ref_c.get(cq)
        if rc is None:
            continue
        now = class_private_attrs(ci)
        own_methods = {m_ for c_ in ci.mro() for m_ in c_.methods} | {m_ for c_ in ci.all_subclasses() for m_ in c_.methods}
        family_attrs = {a_ for c_ in ci.mro() + ci.all_subclasses() if c_ is not ci for a_ in class_private_attrs(c_)}
        # (an attribute that merely moved to another class of the family is not gone, and one read from there is not new)
        gone = [a for a in rc['attrs'] if a not in now and a not in own_methods and a not in family_attrs]
        added = [a for a in now if a not in rc['attrs'] and a not in own_methods and a not in rc['methods']]
        now_m = class_private_attrs(ci, True)
        for a in list(added):
            cands = [g for g in gone if rc['attrs'][g] == now[a]]
            if len(cands) > 1 and 'attrs_m' in rc:
                # several attributes are used alike: tell them apart by the methods that use them
                cands = [g for g in cands if rc['attrs_m'].get(g) == now_m.get(a)]
            if len(cands) != 1 and len(gone) == 1 and len(added) == 1:
                cands = gone
            if len(cands) != 1:
                continue
            g = cands[0]
            gone.remove(g)
            added.remove(a)
            _rename_attr_everywhere(repo, a, g, None if a not in all_ref_attrs and a not in all_ref_methods else ci)
            log.setdefault(cq, []).append(f'private attribute {a} recognised as the reviewed {g} (same uses)')
    # parameters and locals: same number of bindings, in the same order
    for q, fi in repo.functions.items():
        rf = ref_f.get(q)
        if rf is None or 'bindings' not in rf:
            continue
        was, now = rf['bindings'], ordered_bindings(fi.node)
        if was == now or len(was) != len(now):
            continue
        if rf.get('shape') != shape(fi.node):
            continue          # more than names changed: the new names may play other roles
        ren = {n: w for w, n in zip(was, now) if w != n}
        if not ren or set(ren) & set(was) or len(set(ren.values())) != len(ren):
            continue          # a swap or a clash: not a plain renaming
        for n in ast.walk(fi.node):
            if isinstance(n, ast.Name) and n.id in ren:
                n.id = ren[n.id]
            elif isinstance(n, ast.arg) and n.arg in ren:
                n.arg = ren[n.arg]
            elif isinstance(n, ast.ExceptHandler) and n.name in ren:
                n.name = ren[n.name]
            elif isinstance(n, ast.keyword) and False:
                pass
        # keyword arguments at call sites that name a renamed parameter
        pren = {n: w for n, w in ren.items() if w in [a.arg for a in fi.node.args.args + fi.node.args.kwonlyargs]}
        if pren:
            for m in repo.modules.values():
                for c in ast.walk(m.tree):
                    if isinstance(c, ast.Call) and (getattr(c.func, 'attr', None) == fi.name or getattr(c.func, 'id', None) == fi.name):
                        for k in c.keywords:
                            if k.arg in pren:
                                k.arg = pren[k.arg]
        log.setdefault(q, []).append('renamed bindings recognised: ' + ', '.join(f'{n}->{w}' for n, w in ren.items()))


# ------------------------------------------------------------------------------------------------ (f) assignment expressions

def _hoist_walrus(fn: ast.FunctionDef) -> list[str]:
    """`if (m := E) is not None:` -> `m = E` / `if m is not None:` when the assignment is the first thing the test evaluates."""
    done = []

    def first_walrus(e):
        # the sub-expression evaluated first, unconditionally
        while True:
            if isinstance(e, ast.NamedExpr):
                return e
            if isinstance(e, ast.Compare):
                e = e.left
            elif isinstance(e, ast.UnaryOp):
                e = e.operand
            elif isinstance(e, ast.BoolOp):
                e = e.values[0]
            elif isinstance(e, ast.Call) and e.args and not isinstance(e.func, ast.NamedExpr) and isinstance(e.func, ast.Name):
                e = e.args[0]
            else:
                return None
    for body in list(_bodies(fn)):
        i = 0
        while i < len(body):
            st = body[i]
            if isinstance(st, ast.If):
                w = first_walrus(st.test)
                if w is not None and isinstance(w.target, ast.Name):
                    asg = ast.Assign(targets=[ast.Name(id=w.target.id, ctx=ast.Store())], value=w.value)
                    _set_lines(asg, st)
                    asg.value = w.value

                    class R(ast.NodeTransformer):
                        def visit_NamedExpr(self, node):
                            if node is w:
                                return ast.copy_location(ast.Name(id=w.target.id, ctx=ast.Load()), node)
                            return self.generic_visit(node)
                    st.test = R().visit(st.test)
                    body.insert(i, asg)
                    done.append(f'{w.target.id} := {_u(w.value)[:50]}')
                    i += 1
            i += 1
    return done


class _Spelling2(ast.NodeTransformer):
    """isinstance(x, (A, B)) -> isinstance(x, A) or isinstance(x, B)."""
    def __init__(self):
        self.done = []

    def visit_Call(self, node: ast.Call):
        self.generic_visit(node)
        if isinstance(node.func, ast.Name) and node.func.id == 'isinstance' and len(node.args) == 2 and isinstance(node.args[1], ast.Tuple) and node.args[1].elts \
                and _is_pure(node.args[0]):
            alts = [ast.Call(func=ast.Name(id='isinstance', ctx=ast.Load()), args=[copy.deepcopy(node.args[0]), e], keywords=[]) for e in node.args[1].elts]
            new = ast.BoolOp(op=ast.Or(), values=alts) if len(alts) > 1 else alts[0]
            _set_lines(new, node)
            self.done.append(_u(node)[:60])
            return new
        return node


# ------------------------------------------------------------------------------------------------ driver

def normalise(repo) -> dict:
    ref = load_reference()
    if ref is None:
        return {}
    ref_funcs = ref['functions']
    log: dict = {}
    try:
        _recover_renames(repo, ref, log)
    except Exception as e:
        log.setdefault('#errors', []).append(f'rename recovery: {type(e).__name__}: {e}')
    try:
        _inline_helpers(repo, set(ref_funcs), log)
    except Exception as e:   # normalisation must never decide anything: on trouble leave the tree as written
        log.setdefault('#errors', []).append(f'helper inlining: {type(e).__name__}: {e}')
    try:
        records = _records(repo, ref)
    except Exception as e:
        records = {}
        log.setdefault('#errors', []).append(f'records: {type(e).__name__}: {e}')
    try:
        new_consts = _new_literal_constants(repo, ref)
    except Exception as e:
        new_consts = {}
        log.setdefault('#errors', []).append(f'named constants: {type(e).__name__}: {e}')
    inlined_into = {q for q, v in log.items() if any(x.startswith('inlined helper call') for x in v)}
    for q, fi in repo.functions.items():
        if q in inlined_into and q in ref_funcs:
            try:
                d = _sink_continuations(repo, fi)
                if d:
                    log.setdefault(q, []).extend(f'result variable -> early returns: {x}' for x in d)
                    ast.fix_missing_locations(fi.node)
            except Exception as e:
                log.setdefault('#errors', []).append(f'{q}: continuation sinking: {type(e).__name__}: {e}')
    try:
        _settle_default_params(repo, ref_funcs, log)
    except Exception as e:
        log.setdefault('#errors', []).append(f'default parameters: {type(e).__name__}: {e}')
    for q, fi in repo.functions.items():
        key = q if q in ref_funcs else None
        known_locals = set(ref_funcs[key]['locals']) if key else None
        known_ifexp = set(ref_funcs[key]['ifexp']) if key else None
        if known_locals is None:
            continue          # a function the rules have never seen: nothing refers to its locals, leave it as written
        try:
            if new_consts:
                cn = _ConstNames(repo, fi, new_consts)
                cn.visit(fi.node)
                if cn.done:
                    _FoldFString().visit(fi.node)
                    log.setdefault(q, []).append(f'new named constants read as their literals: {", ".join(sorted(set(cn.done)))}')
            nd = _new_default_params(repo, fi, ref_funcs[key].get('bindings', []))
            stored_names = {n.id for n in ast.walk(fi.node) if isinstance(n, ast.Name) and isinstance(n.ctx, ast.Store)}
            nd = {p_: d_ for p_, d_ in nd.items() if p_ not in stored_names}
            if nd:
                wrapper_ = ast.Module(body=fi.node.body, type_ignores=[])
                wrapper_ = _ConstFold().visit(_Subst(nd).visit(wrapper_))
                fi.node.body = _fold_if_statements(wrapper_.body) or [ast.Pass()]
                log.setdefault(q, []).append(f'new parameters no caller passes read as their defaults: {", ".join(sorted(nd))}')
            known_asg = set(ref_funcs[key].get('assigns', []))
            if known_asg:
                for body_ in list(_bodies(fi.node)):
                    for k_, st_ in enumerate(body_):
                        if isinstance(st_, ast.AnnAssign) and st_.value is not None and isinstance(st_.target, ast.Name) and _u(st_) not in known_asg:
                            plain = ast.Assign(targets=[st_.target], value=st_.value)
                            ast.copy_location(plain, st_)
                            if _u(plain) in known_asg or not any(t.startswith(f'{st_.target.id}: ') for t in known_asg):
                                body_[k_] = plain       # an annotation added to an assignment the reviewed tree wrote without one
                                log.setdefault(q, []).append(f'annotation of a local dropped: {_u(st_)[:60]}')
            sp = _Spelling(fi.module.imports)
            sp.visit(fi.node)
            if sp.done:
                log.setdefault(q, []).extend(f'tuple prefix test -> or: {x}' for x in sp.done)
            if 're' in fi.module.imports and fi.module.name in ref.get('modules', {}):
                cp = _CompiledPatternUse(fi.module, set(ref['modules'][fi.module.name]) | local_names(fi.node) | {a.arg for a in fi.node.args.args}, fi.cls, ref)
                cp.visit(fi.node)
                if cp.done:
                    log.setdefault(q, []).extend(f'new pre-compiled pattern used in place: {x}' for x in cp.done)
            sp2 = _Spelling2()
            sp2.visit(fi.node)
            if sp2.done:
                log.setdefault(q, []).extend(f'isinstance with a tuple -> or: {x}' for x in sp2.done)
            d = _hoist_walrus(fi.node)
            if d:
                log.setdefault(q, []).extend(f'assignment expression hoisted: {x}' for x in d)
            d = _expand_quantifiers(fi.node)
            if d:
                log.setdefault(q, []).extend(f'quantifier / writelines expanded into a loop: {x}' for x in d)
            if any(isinstance(n, ast.Name) and n.id == 'map' for n in ast.walk(fi.node)) or \
                    any(isinstance(n, ast.Starred) and isinstance(n.value, (ast.GeneratorExp, ast.ListComp)) for n in ast.walk(fi.node)):
                ms = _MapSpelling({n.id for n in ast.walk(fi.node) if isinstance(n, ast.Name)} | {a.arg for a in fi.node.args.args})
                ms.visit(fi.node)
                if ms.done:
                    log.setdefault(q, []).extend(f'map / starred comprehension respelled: {x}' for x in ms.done)
            d = _inline_single_use_generators(fi.node, known_locals)
            if d:
                log.setdefault(q, []).extend(f'single-use generator used in place: {x}' for x in d)
                ms = _MapSpelling(set())
                ms.visit(fi.node)
            d = _expand_comprehensions(fi.node, set(ref_funcs[key].get('comp', [])), set(ref_funcs[key].get('elementwise', [])))
            if d:
                log.setdefault(q, []).extend(f'comprehension -> loop: {x}' for x in d)
            for _pass in range(3):
                d = _expand_find_first(fi.node, set(ref_funcs[key].get('assigns', [])))
                if not d:
                    break
                log.setdefault(q, []).extend(f'find-first -> loop: {x}' for x in d)
            if 'returns' in ref_funcs[key]:
                d = _expand_get_default(fi.node, set(ref_funcs[key].get('assigns', [])), set(ref_funcs[key]['returns']))
                if d:
                    log.setdefault(q, []).extend(f'get with a default -> membership test: {x}' for x in d)
            d = _expand_get_none_test(repo, fi, set(ref_funcs[key].get('assigns', [])))
            if d:
                log.setdefault(q, []).extend(f'get + None test -> membership test: {x}' for x in d)
            d = _unroll_local_dict_dispatch(fi.node, set(ref_funcs[key].get('assigns', [])))
            if d:
                log.setdefault(q, []).extend(f'dispatch through a new local dictionary -> if-chain: {x}' for x in d)
            mb = _MembershipInNewConst(repo, fi, ref)
            mb.visit(fi.node)
            if mb.done:
                log.setdefault(q, []).extend(f'membership in a new constant collection -> comparisons: {x}' for x in mb.done)
            d = _unroll_dict_lookups(repo, fi, ref)
            if d:
                log.setdefault(q, []).extend(f'lookup in a new constant dictionary -> if-chain: {x}' for x in d)
            d = _unroll_tables(repo, fi, ref)
            if d:
                log.setdefault(q, []).extend(f'loop over a new constant table unrolled: {x}' for x in d)
                a_ = fi.node.args
                tc = _TableCellCanon({p_.arg for p_ in a_.posonlyargs + a_.args + a_.kwonlyargs if p_.annotation is not None and _u(p_.annotation) == 'str'})
                tc.visit(fi.node)
                sp_ = _Spelling(fi.module.imports)
                sp_.visit(fi.node)
                ast.fix_missing_locations(fi.node)
            d = _default_then_override(fi.node, set(ref_funcs[key].get('assigns', [])))
            if d:
                log.setdefault(q, []).extend(f'default-then-override -> if/else: {x}' for x in d)
            d = _enumerate_to_counter(fi.node, set(ref_funcs[key].get('loops', [])))
            if d:
                log.setdefault(q, []).extend(f'enumerate -> counter: {x}' for x in d)
            d = _split_parallel(fi.node, set(ref_funcs[key].get('parallel', [])))
            if d:
                log.setdefault(q, []).extend(f'parallel assignment split: {x}' for x in d)
            d = _expand_ifexp(fi.node, known_ifexp)
            if d:
                log.setdefault(q, []).extend(f'conditional expression -> if/else: {x}' for x in d)
            if records:
                rf = _RecordFieldOfCtor(records, fi)
                rf.visit(fi.node)
                if rf.done:
                    log.setdefault(q, []).extend(f'field of a record built in place: {x}' for x in rf.done)
                d = _scalarise_records(repo, fi, records, known_locals)
                if d:
                    log.setdefault(q, []).extend(f'record local -> scalars: {x}' for x in d)
                if d:
                    d2 = _expand_ifexp(fi.node, known_ifexp)
                    if d2:
                        log.setdefault(q, []).extend(f'conditional expression -> if/else: {x}' for x in d2)
            d = _rename_by_definition(fi.node, known_locals, ref_funcs[key].get('assigns', []))
            if d:
                log.setdefault(q, []).extend(f'local recognised by its definition: {x}' for x in d)
            d = _inline_locals(fi, known_locals)
            if d:
                log.setdefault(q, []).extend(f'inlined new local: {x}' for x in d)
            ast.fix_missing_locations(fi.node)
        except Exception as e:
            log.setdefault('#errors', []).append(f'{q}: {type(e).__name__}: {e}')
    return log
