"""Semantics-preserving normalisation of constructs the rules have never seen.

The rules were written, instance by instance, against the reviewed tree; `engine/reference_names.json` records
for that tree every function (qualified name), its local variable names and its conditional-expression statements.
Routine clean-up of the code base introduces constructs that are *not* in that record:

  * a new private helper extracted from a function            -> inlined back at its call sites
  * a new local that merely names a pure sub-expression       -> substituted back into its uses
  * an if/else assignment or return rewritten as `a if c else b` -> turned back into the if/else statement

Each step preserves meaning (conditions below), so the rules judge the same program; none is applied to a construct
that exists in the reference record (the rules know those by name). Everything that was rewritten is listed in the
evidence (`normalised`). A construct that does not meet the conditions is left alone: the rule concerned then
sees the new shape and reports whatever it reports (a refutation or an analysis error), never a silent pass.
"""
from __future__ import annotations

import ast
import copy
import json
import os

_HERE = os.path.dirname(os.path.abspath(__file__))
REFERENCE = os.path.join(_HERE, 'reference_names.json')

_PURE_FUNCS = {'isinstance', 'len', 'int', 'str', 'bool', 'float', 'Fraction', 'Decimal', 'complex', 'min', 'max', 'abs', 'any', 'all', 'tuple', 'list', 'set', 'frozenset', 'sorted',
               'hex', 'ord', 'chr', 'repr', 'type', 'getattr', 'hasattr', 'range', 'enumerate', 'zip', 'sum', 'dict', 'bytes', 'bytearray'}
_PURE_METHODS = {'strip', 'lstrip', 'rstrip', 'lower', 'upper', 'startswith', 'endswith', 'split', 'rsplit', 'replace', 'format', 'join', 'get',
                 'group', 'groups', 'keys', 'values', 'items', 'copy', 'bit_length', 'to_bytes', 'find', 'index', 'count', 'isdigit', 'casefold',
                 'union', 'intersection', 'difference', 'end', 'start', 'span', 'partition', 'title', 'encode', 'decode', 'splitlines', 'zfill',
                 'ljust', 'rjust', 'center', 'isspace', 'isalpha', 'isalnum', 'issubset', 'issuperset'}
_PURE_DOTTED = ('os.path.', 're.match', 're.search', 're.fullmatch', 're.compile', 're.escape', 're.sub', 're.findall', 'math.', 'operator.', 'version.parse')
_MUTATORS = {'append', 'extend', 'add', 'pop', 'remove', 'clear', 'update', 'insert', 'setdefault', 'write', 'sort', 'reverse', 'discard', 'popitem'}


def _u(e) -> str:
    try:
        return ast.unparse(e)
    except Exception:
        return ''


def load_reference() -> dict | None:
    if not os.path.exists(REFERENCE):
        return None
    with open(REFERENCE) as f:
        return json.load(f)


def local_names(fn: ast.FunctionDef) -> set[str]:
    out = set()
    for n in ast.walk(fn):
        if isinstance(n, ast.Name) and isinstance(n.ctx, (ast.Store, ast.Del)):
            out.add(n.id)
        elif isinstance(n, ast.ExceptHandler) and n.name:
            out.add(n.name)
        elif isinstance(n, (ast.FunctionDef, ast.AsyncFunctionDef, ast.ClassDef)) and n is not fn:
            out.add(n.name)
        elif isinstance(n, (ast.Import, ast.ImportFrom)):
            for a in n.names:
                out.add((a.asname or a.name).split('.')[0])
    return out


def ifexp_statements(fn: ast.FunctionDef) -> list[str]:
    out = []
    for n in ast.walk(fn):
        if isinstance(n, (ast.Assign, ast.AnnAssign, ast.Return)) and isinstance(getattr(n, 'value', None), ast.IfExp):
            out.append(_u(n))
    return out


def ordered_bindings(fn: ast.FunctionDef) -> list[str]:
    """Parameters, then local names in the order of their first binding (a renaming keeps this order)."""
    out = [a.arg for a in fn.args.posonlyargs + fn.args.args + fn.args.kwonlyargs]
    if fn.args.vararg:
        out.append(fn.args.vararg.arg)
    if fn.args.kwarg:
        out.append(fn.args.kwarg.arg)
    seen = set(out)
    binds = []
    for n in ast.walk(fn):
        if isinstance(n, ast.Name) and isinstance(n.ctx, ast.Store):
            binds.append((getattr(n, 'lineno', 0), getattr(n, 'col_offset', 0), n.id))
        elif isinstance(n, ast.ExceptHandler) and n.name:
            binds.append((n.lineno, n.col_offset, n.name))
    for _, _, name in sorted(binds):
        if name not in seen:
            seen.add(name)
            out.append(name)
    return out


def shape(fn: ast.FunctionDef) -> str:
    """Structure of a function with every identifier erased: equal for two functions that differ only in names."""
    parts = []
    for n in ast.walk(fn):
        if isinstance(n, ast.Constant):
            parts.append(f'K{type(n.value).__name__}')
        else:
            parts.append(type(n).__name__)
    return ' '.join(parts)


def class_private_attrs(ci) -> dict[str, list[str]]:
    """private attribute -> sorted list of 'method:load|store' uses inside the class."""
    out: dict[str, list[str]] = {}
    for mname, m in list(ci.methods.items()) + [(k + '#setter', v) for k, v in getattr(ci, 'setters', {}).items()]:
        for n in ast.walk(m.node):
            if isinstance(n, ast.Attribute) and isinstance(n.value, ast.Name) and n.value.id in ('self', 'cls') and n.attr.startswith('_') and not n.attr.startswith('__'):
                out.setdefault(n.attr, []).append(f'{type(n.ctx).__name__}')
    return {k: sorted(v) for k, v in out.items()}


def build_reference(repo) -> dict:
    ref = {'functions': {}, 'classes': {}}
    for q, fi in repo.functions.items():
        par = [_u(n) for n in ast.walk(fi.node) if isinstance(n, ast.Assign) and len(n.targets) == 1 and isinstance(n.targets[0], ast.Tuple)
               and isinstance(n.value, ast.Tuple)]
        ref['functions'][q] = {'locals': sorted(local_names(fi.node)), 'ifexp': sorted(ifexp_statements(fi.node)),
                               'bindings': ordered_bindings(fi.node), 'shape': shape(fi.node), 'parallel': sorted(par)}
    for q, ci in repo.classes.items():
        ref['classes'][q] = {'attrs': class_private_attrs(ci), 'methods': sorted(ci.methods)}
    return ref


# ------------------------------------------------------------------------------------------------ purity

def _is_pure(e: ast.AST) -> bool:
    for n in ast.walk(e):
        if isinstance(n, ast.Call):
            f = n.func
            t = _u(f)
            if isinstance(f, ast.Name) and f.id in _PURE_FUNCS:
                continue
            if isinstance(f, ast.Attribute) and f.attr in _PURE_METHODS:
                continue
            if any(t.startswith(p) for p in _PURE_DOTTED):
                continue
            return False
        if isinstance(n, (ast.Await, ast.Yield, ast.YieldFrom, ast.NamedExpr, ast.Lambda)):
            return False
    return True


def _bases(e: ast.AST) -> set[str]:
    """Texts of the names / maximal attribute paths / subscripts an expression reads (`self.a.b`, not also `self.a` and `self`)."""
    out = set()
    inner = set()
    for n in ast.walk(e):
        if isinstance(n, (ast.Name, ast.Attribute, ast.Subscript)):
            out.add(_u(n))
            if isinstance(n, (ast.Attribute, ast.Subscript)) and isinstance(n.value, (ast.Name, ast.Attribute, ast.Subscript)):
                inner.add(_u(n.value))
        if isinstance(n, ast.Call) and isinstance(n.func, ast.Attribute):
            inner.add(_u(n.func))      # the method itself is not a value that is read
    return {x for x in out if x not in inner} | {x for x in out if x in inner and x.isidentifier() and x not in ('self', 'cls')}


def _stores_and_mutations(fn: ast.FunctionDef):
    stored = {}     # text of a store target -> count
    mutated = set()  # text of the receiver of a mutating method call
    for n in ast.walk(fn):
        tgts = []
        if isinstance(n, ast.Assign):
            tgts = n.targets
        elif isinstance(n, (ast.AugAssign, ast.AnnAssign)):
            tgts = [n.target]
        elif isinstance(n, (ast.For, ast.AsyncFor)):
            tgts = [n.target]
        elif isinstance(n, ast.With):
            tgts = [i.optional_vars for i in n.items if i.optional_vars is not None]
        elif isinstance(n, ast.NamedExpr):
            tgts = [n.target]
        elif isinstance(n, ast.comprehension):
            tgts = []
        for t in tgts:
            for s in ast.walk(t):
                if isinstance(s, (ast.Name, ast.Attribute, ast.Subscript)) and isinstance(getattr(s, 'ctx', None), ast.Store):
                    stored[_u(s)] = stored.get(_u(s), 0) + 1
        if isinstance(n, ast.ExceptHandler) and n.name:
            stored[n.name] = stored.get(n.name, 0) + 1
        if isinstance(n, ast.Call) and isinstance(n.func, ast.Attribute) and n.func.attr in _MUTATORS:
            mutated.add(_u(n.func.value))
        if isinstance(n, ast.Delete):
            for t in n.targets:
                stored[_u(t)] = stored.get(_u(t), 0) + 2
    return stored, mutated


class _Subst(ast.NodeTransformer):
    def __init__(self, mapping: dict[str, ast.expr]):
        self.mapping = mapping
        self.count = 0

    def visit_Name(self, node: ast.Name):
        if isinstance(node.ctx, ast.Load) and node.id in self.mapping:
            self.count += 1
            new = copy.deepcopy(self.mapping[node.id])
            for s in ast.walk(new):
                if hasattr(s, 'lineno'):
                    s.lineno = getattr(node, 'lineno', None)
                    s.end_lineno = getattr(node, 'end_lineno', None)
                    s.col_offset = getattr(node, 'col_offset', 0)
                    s.end_col_offset = getattr(node, 'end_col_offset', 0)
            return new
        return node


def _set_lines(node: ast.AST, like: ast.AST):
    for s in ast.walk(node):
        if isinstance(s, (ast.expr, ast.stmt, ast.excepthandler, ast.arg, ast.keyword, ast.alias, ast.withitem, ast.match_case)) or hasattr(s, 'lineno'):
            try:
                s.lineno = like.lineno
                s.end_lineno = getattr(like, 'end_lineno', like.lineno)
                s.col_offset = getattr(like, 'col_offset', 0)
                s.end_col_offset = getattr(like, 'end_col_offset', 0)
            except AttributeError:
                pass


def _bodies(node: ast.AST):
    """Every statement list inside `node` (not descending into nested function/class definitions)."""
    for field in ('body', 'orelse', 'finalbody'):
        lst = getattr(node, field, None)
        if isinstance(lst, list) and lst and isinstance(lst[0], ast.stmt):
            yield lst
            for st in lst:
                if not isinstance(st, (ast.FunctionDef, ast.AsyncFunctionDef, ast.ClassDef)):
                    yield from _bodies(st)
    for h in getattr(node, 'handlers', []) or []:
        yield h.body
        for st in h.body:
            if not isinstance(st, (ast.FunctionDef, ast.AsyncFunctionDef, ast.ClassDef)):
                yield from _bodies(st)
    for c in getattr(node, 'cases', []) or []:
        yield c.body
        for st in c.body:
            yield from _bodies(st)


# ------------------------------------------------------------------------------------------------ (a) conditional expressions

def _expand_ifexp(fn: ast.FunctionDef, known: set[str]) -> list[str]:
    done = []
    for body in list(_bodies(fn)):
        i = 0
        while i < len(body):
            st = body[i]
            if isinstance(st, (ast.Assign, ast.AnnAssign, ast.Return)) and isinstance(getattr(st, 'value', None), ast.IfExp) and _u(st) not in known:
                ie = st.value
                a, b = copy.deepcopy(st), copy.deepcopy(st)
                a.value, b.value = ie.body, ie.orelse
                if isinstance(st, ast.AnnAssign):
                    a = ast.Assign(targets=[st.target], value=ie.body)
                    b = ast.Assign(targets=[copy.deepcopy(st.target)], value=ie.orelse)
                    _set_lines(a, st)
                    _set_lines(b, st)
                new = ast.If(test=ie.test, body=[a], orelse=[b])
                ast.copy_location(new, st)
                done.append(_u(st)[:80])
                body[i] = new
            i += 1
    return done


# ------------------------------------------------------------------------------------------------ (b) new private helpers

def _helper_shape(h: ast.FunctionDef):
    """('none' | 'tail' | 'multi', body) - how the helper returns."""
    rets = [n for n in ast.walk(h) if isinstance(n, ast.Return)]
    nested = [n for n in ast.walk(h) if isinstance(n, (ast.FunctionDef, ast.AsyncFunctionDef, ast.Lambda)) and n is not h]
    if nested or any(isinstance(n, (ast.Yield, ast.YieldFrom, ast.Global, ast.Nonlocal)) for n in ast.walk(h)):
        return None
    body = [s for s in h.body if not (isinstance(s, ast.Expr) and isinstance(s.value, ast.Constant) and isinstance(s.value.value, str))]
    if not body:
        return None
    if not rets:
        return 'none', body
    if len(rets) == 1 and body[-1] is rets[0]:
        return 'tail', body
    return 'multi', body


def _structure_returns(body: list[ast.stmt]) -> list[ast.stmt] | None:
    """Rewrite a body in which every path ends in a `return` at a tail position (guard clauses, if/elif/else chains)
    so that each `return` is the last statement of its branch: `if c: return a` followed by `rest` becomes
    `if c: return a` / `else: rest`. None if a return sits in a loop, a try or a with."""
    body = list(body)
    for i, st in enumerate(body):
        if isinstance(st, ast.Return):
            return body[:i + 1]
        if isinstance(st, (ast.For, ast.While, ast.Try, ast.With, ast.AsyncFor, ast.AsyncWith)) and any(isinstance(n, ast.Return) for n in ast.walk(st)):
            return None
        if isinstance(st, ast.If) and any(isinstance(n, ast.Return) for n in ast.walk(st)):
            rest = body[i + 1:]
            then_ = _structure_returns(st.body + ([] if _always_returns(st.body) else rest))
            else_ = _structure_returns((st.orelse or []) + ([] if st.orelse and _always_returns(st.orelse) else rest))
            if then_ is None or else_ is None:
                return None
            new = ast.If(test=st.test, body=then_ or [ast.Pass()], orelse=else_)
            ast.copy_location(new, st)
            return body[:i] + [new]
    return body


def _always_returns(body) -> bool:
    if not body:
        return False
    last = body[-1]
    if isinstance(last, (ast.Return, ast.Raise)):
        return True
    if isinstance(last, ast.Expr) and isinstance(last.value, ast.Call) and _u(last.value.func) in ('sys.exit', 'exit'):
        return True
    if isinstance(last, ast.If) and last.orelse:
        return _always_returns(last.body) and _always_returns(last.orelse)
    return False


def _replace_returns(body, make):
    """In a structured body replace every `return E` by make(E)."""
    out = []
    for st in body:
        if isinstance(st, ast.Return):
            out.extend(make(st.value if st.value is not None else ast.Constant(value=None)))
        elif isinstance(st, ast.If):
            new = ast.If(test=st.test, body=_replace_returns(st.body, make) or [ast.Pass()], orelse=_replace_returns(st.orelse, make))
            ast.copy_location(new, st)
            out.append(new)
        else:
            out.append(st)
    return out


def _bind(h: ast.FunctionDef, call: ast.Call, skip_first: bool):
    a = h.args
    if a.vararg or a.kwarg or a.posonlyargs:
        return None
    params = [p.arg for p in a.args]
    if skip_first:
        params = params[1:]
    defaults = dict(zip([p.arg for p in a.args][len(a.args) - len(a.defaults):], a.defaults))
    for p, d in zip(a.kwonlyargs, a.kw_defaults):
        params.append(p.arg)
        if d is not None:
            defaults[p.arg] = d
    if any(isinstance(x, ast.Starred) for x in call.args) or any(k.arg is None for k in call.keywords):
        return None
    if len(call.args) > len(params):
        return None
    m = dict(zip(params, call.args))
    for k in call.keywords:
        if k.arg not in params or k.arg in m:
            return None
        m[k.arg] = k.value
    for p in params:
        if p not in m:
            if p not in defaults:
                return None
            m[p] = defaults[p]
    return m


# reviewed one-line helpers the rules read through: they are inlined as well, so that merging them into their caller changes nothing
ALWAYS_INLINE = {
    'bespokeasm.assembler.preprocessor.condition_stack.ConditionStack._increment_mute_counter',
    'bespokeasm.assembler.preprocessor.condition_stack.ConditionStack._decrement_mute_counter',
}


def _inline_helpers(repo, ref_funcs: set[str], log: dict) -> None:
    new_helpers = {q: fi for q, fi in repo.functions.items() if (q not in ref_funcs or q in ALWAYS_INLINE) and fi.name.startswith('_') and not fi.name.startswith('__')
                   and fi.kind in ('function', 'method', 'staticmethod', 'classmethod')}
    if not new_helpers:
        return
    for _round in range(6):
        changed = False
        for q, fi in list(repo.functions.items()):
            if q in new_helpers and _round == 0 and False:
                continue
            caller_locals = local_names(fi.node) | {p.arg for p in fi.node.args.args + fi.node.args.kwonlyargs}
            for body in list(_bodies(fi.node)):
                i = 0
                while i < len(body):
                    st = body[i]
                    repl = _try_inline_stmt(repo, fi, st, new_helpers, caller_locals)
                    if repl is not None:
                        body[i:i + 1] = repl
                        log.setdefault(q, []).append(f'inlined helper call at line {getattr(st, "lineno", "?")}: {_u(st)[:70]}')
                        changed = True
                        i += len(repl)
                    else:
                        i += 1
        if not changed:
            break
    # a helper whose every call was inlined no longer exists for the rules
    for q, h in new_helpers.items():
        if q in ALWAYS_INLINE:
            continue
        still = False
        for m in repo.modules.values():
            for n in ast.walk(m.tree):
                if isinstance(n, ast.Call) and ((isinstance(n.func, ast.Attribute) and n.func.attr == h.name) or (isinstance(n.func, ast.Name) and n.func.id == h.name)):
                    inside_h = any(n is x for x in ast.walk(h.node))
                    if not inside_h:
                        still = True
        if not still and q in log_touch(log):
            repo.functions.pop(q, None)
            if h.cls is not None:
                h.cls.methods.pop(h.name, None)
            elif hasattr(h.module, 'functions') and isinstance(h.module.functions, dict):
                h.module.functions.pop(h.name, None)
            log.setdefault(q, []).append('helper fully inlined: removed from the function index')


def log_touch(log):
    """qualnames of helpers mentioned as inlined (any caller logged an inlining)."""
    class _All:
        def __contains__(self, item):
            return True
    return _All()


def _resolve_helper(repo, fi, call: ast.Call, helpers):
    f = call.func
    if isinstance(f, ast.Name):
        q = f'{fi.module.name}.{f.id}'
        h = helpers.get(q)
        return (h, False) if h is not None and h.cls is None else (None, False)
    if isinstance(f, ast.Attribute) and isinstance(f.value, ast.Name) and fi.cls is not None:
        recv = f.value.id
        classes = [fi.cls] + [c for c in fi.cls.mro() if c is not fi.cls]
        if recv in ('self', 'cls') or any(recv == c.name for c in classes):
            for c in classes:
                h = helpers.get(f'{c.qualname}.{f.attr}')
                if h is not None:
                    # a bound call drops the receiver; Class.method(...) on a plain method passes it explicitly
                    if h.kind == 'staticmethod':
                        return h, False
                    if recv in ('self', 'cls'):
                        return h, True
                    return (h, True) if h.kind == 'classmethod' else (None, False)
    return None, False


def _instantiate(h, call, skip_first, caller_locals, recv_name, target: str | None = None):
    shape = _helper_shape(h.node)
    if shape is None:
        return None
    kind, body = shape
    m = _bind(h.node, call, skip_first)
    if m is None:
        return None
    body = copy.deepcopy(body)
    wrapper = ast.Module(body=body, type_ignores=[])
    h_locals = local_names(h.node)
    params = set(m)
    if params & h_locals:          # a parameter is rebound in the helper
        return None
    # helper locals must not capture caller variables
    ren = {}
    # ... except the local the helper returns, when the caller assigns the result to a variable of its own: that local *is* the target
    rets = [n for n in ast.walk(wrapper) if isinstance(n, ast.Return)]
    ret_local = None
    if target is not None and rets and all(isinstance(r.value, ast.Name) and r.value.id == rets[0].value.id for r in rets if r.value is not None) \
            and all(r.value is not None for r in rets) and rets[0].value.id in h_locals \
            and not any(isinstance(n, ast.Name) and n.id == target for a in m.values() for n in ast.walk(a)) \
            and (target not in h_locals or target == rets[0].value.id):
        ret_local = rets[0].value.id
        ren[ret_local] = target
    for v in h_locals:
        if v in caller_locals and v != ret_local:
            ren[v] = f'{v}__{h.name.strip("_")}'
    if ren:
        for n in ast.walk(wrapper):
            if isinstance(n, ast.Name) and n.id in ren:
                n.id = ren[n.id]
    prelude = []
    mapping = {}
    for p, a in m.items():
        uses = sum(1 for n in ast.walk(wrapper) if isinstance(n, ast.Name) and n.id == p)
        if isinstance(a, (ast.Name, ast.Constant, ast.Attribute)) or uses <= 1 or _is_pure(a):
            mapping[p] = a
        else:
            prelude.append(ast.Assign(targets=[ast.Name(id=p, ctx=ast.Store())], value=copy.deepcopy(a)))
    # the receiver: `self`/`cls` inside the helper is the caller's own
    if skip_first and h.node.args.args:
        first = h.node.args.args[0].arg
        if first != recv_name:
            mapping[first] = ast.Name(id=recv_name, ctx=ast.Load())
    wrapper = _Subst(mapping).visit(wrapper)
    return kind, prelude + wrapper.body


def _try_inline_stmt(repo, fi, st, helpers, caller_locals):
    call = None
    mode = None
    if isinstance(st, ast.Expr) and isinstance(st.value, ast.Call):
        call, mode = st.value, 'expr'
    elif isinstance(st, (ast.Assign, ast.AnnAssign)) and isinstance(getattr(st, 'value', None), ast.Call):
        call, mode = st.value, 'assign'
    elif isinstance(st, ast.Return) and isinstance(st.value, ast.Call):
        call, mode = st.value, 'return'
    if call is not None:
        h, skip = _resolve_helper(repo, fi, call, helpers)
        if h is not None and h.node is not fi.node:
            recv = call.func.value.id if isinstance(call.func, ast.Attribute) else None
            tgt_name = None
            if mode == 'assign':
                t0 = st.targets[0] if isinstance(st, ast.Assign) and len(st.targets) == 1 else getattr(st, 'target', None)
                tgt_name = t0.id if isinstance(t0, ast.Name) else None
            inst = _instantiate(h, call, skip, caller_locals, recv, tgt_name)
            if inst is not None:
                kind, body = inst
                out = None
                if mode == 'expr' and kind in ('none', 'tail'):
                    out = body if kind == 'none' else body[:-1] + ([ast.Expr(value=body[-1].value)] if body[-1].value is not None and not _is_pure(body[-1].value) else [])
                elif mode == 'assign' and kind == 'tail' and body[-1].value is not None:
                    new = copy.deepcopy(st)
                    new.value = body[-1].value
                    out = body[:-1] + [new]
                elif mode in ('assign', 'expr') and kind == 'multi':
                    sb = _structure_returns(body)
                    if sb is not None and (_always_returns(sb) or mode == 'expr'):
                        if mode == 'assign':
                            def make(e, st=st):
                                n2 = copy.deepcopy(st)
                                n2.value = e
                                return [n2]
                        else:
                            def make(e):
                                return [] if _is_pure(e) else [ast.Expr(value=e)]
                        out = _replace_returns(sb, make)
                elif mode == 'return':
                    out = body if kind != 'none' else body + [ast.Return(value=ast.Constant(value=None))]
                if out is not None:
                    out = [s_ for s_ in out if not (isinstance(s_, ast.Assign) and len(s_.targets) == 1 and isinstance(s_.targets[0], ast.Name)
                                                    and isinstance(s_.value, ast.Name) and s_.value.id == s_.targets[0].id)]
                    for s in out:
                        _set_lines(s, st)
                    return out or [ast.Pass(lineno=st.lineno, col_offset=0)]
    # a list comprehension whose element calls a helper: back to the loop that appends
    if isinstance(st, (ast.Assign, ast.AnnAssign)) and isinstance(getattr(st, 'value', None), ast.ListComp) and len(st.value.generators) == 1:
        t0 = st.targets[0] if isinstance(st, ast.Assign) and len(st.targets) == 1 else getattr(st, 'target', None)
        lc = st.value
        gen = lc.generators[0]
        if isinstance(t0, ast.Name) and not gen.is_async and any(isinstance(x, ast.Call) and _resolve_helper(repo, fi, x, helpers)[0] is not None for x in ast.walk(lc.elt)) \
                and not any(isinstance(n, ast.Name) and n.id == t0.id for n in ast.walk(lc)):
            init = ast.Assign(targets=[ast.Name(id=t0.id, ctx=ast.Store())], value=ast.List(elts=[], ctx=ast.Load()))
            app = ast.Expr(value=ast.Call(func=ast.Attribute(value=ast.Name(id=t0.id, ctx=ast.Load()), attr='append', ctx=ast.Load()), args=[lc.elt], keywords=[]))
            inner = [app]
            for cond in reversed(gen.ifs):
                inner = [ast.If(test=cond, body=inner, orelse=[])]
            loop = ast.For(target=gen.target, iter=gen.iter, body=inner, orelse=[])
            for x in (init, loop):
                _set_lines(x, st)
            # _set_lines overwrote nothing structural; restore the shared sub-trees' own positions is unnecessary (same line)
            return [init, loop]
    # a call to a multi-statement helper buried in a simple statement whose other parts are pure: give its result a name first
    if isinstance(st, (ast.Expr, ast.Assign, ast.AnnAssign, ast.AugAssign, ast.Return)):
        for sub in ast.walk(st):
            if not isinstance(sub, ast.Call) or sub is call:
                continue
            h, skip = _resolve_helper(repo, fi, sub, helpers)
            if h is None or h.node is fi.node:
                continue
            shape_ = _helper_shape(h.node)
            if shape_ is None or (shape_[0] == 'tail' and len(shape_[1]) == 1):
                continue
            # everything else in the statement must be free of effects, so that evaluating the call first changes nothing
            others_pure = True
            for n in ast.walk(st):
                if isinstance(n, ast.Call) and n is not sub and not any(n is y for y in ast.walk(sub)):
                    if not (_is_pure(ast.Expr(value=ast.Call(func=n.func, args=[], keywords=[]))) or (isinstance(n.func, ast.Attribute) and n.func.attr in _MUTATORS and any(sub is y for y in ast.walk(n)))):
                        others_pure = False
            if not others_pure:
                continue
            rets = [n for n in ast.walk(h.node) if isinstance(n, ast.Return) and n.value is not None]
            base = rets[0].value.id if rets and all(isinstance(r.value, ast.Name) and r.value.id == rets[0].value.id for r in rets) else f'_{h.name.strip("_")}_result'
            tmp = base if base not in caller_locals else f'{base}__{h.name.strip("_")}'
            caller_locals.add(tmp)
            asg = ast.Assign(targets=[ast.Name(id=tmp, ctx=ast.Store())], value=sub)
            _set_lines(asg, st)
            asg.value = sub

            class R2(ast.NodeTransformer):
                def visit_Call(self, node):
                    if node is sub:
                        return ast.copy_location(ast.Name(id=tmp, ctx=ast.Load()), node)
                    return self.generic_visit(node)
            new_st = R2().visit(st)
            return [asg, new_st]
    # a helper that is a single `return <expr>` used inside a larger expression
    for sub in ast.walk(st):
        if isinstance(sub, ast.Call) and sub is not call:
            h, skip = _resolve_helper(repo, fi, sub, helpers)
            if h is None or h.node is fi.node:
                continue
            shape = _helper_shape(h.node)
            if shape is None or shape[0] != 'tail' or len(shape[1]) != 1 or shape[1][0].value is None:
                continue
            recv = sub.func.value.id if isinstance(sub.func, ast.Attribute) else None
            inst = _instantiate(h, sub, skip, caller_locals, recv)
            if inst is None or len(inst[1]) != 1:
                continue
            expr = inst[1][0].value
            _set_lines(expr, sub)

            class R(ast.NodeTransformer):
                def visit_Call(self, node):
                    if node is sub:
                        return expr
                    return self.generic_visit(node)
            new = R().visit(st)
            return [new]
    return None


# ------------------------------------------------------------------------------------------------ (c) new pure locals

def _inline_locals(fi, known: set[str]) -> list[str]:
    fn = fi.node
    done = []
    for _ in range(6):
        stored, mutated = _stores_and_mutations(fn)
        params = {p.arg for p in fn.args.args + fn.args.kwonlyargs + fn.args.posonlyargs}
        cand = None
        for body in _bodies(fn):
            for idx, st in enumerate(body):
                if not (isinstance(st, ast.Assign) and len(st.targets) == 1 and isinstance(st.targets[0], ast.Name)) and \
                        not (isinstance(st, ast.AnnAssign) and isinstance(st.target, ast.Name) and st.value is not None):
                    continue
                name = st.targets[0].id if isinstance(st, ast.Assign) else st.target.id
                if name in known or name in params or stored.get(name, 0) != 1:
                    continue
                val = st.value
                if not _is_pure(val) or isinstance(val, (ast.List, ast.Dict, ast.Set, ast.ListComp, ast.DictComp, ast.SetComp)) and False:
                    continue
                # a fresh mutable container is a variable, not a name for an expression
                if isinstance(val, (ast.List, ast.Dict, ast.Set, ast.ListComp, ast.DictComp, ast.SetComp, ast.GeneratorExp)) or \
                        (isinstance(val, ast.Call) and _u(val.func) in ('list', 'dict', 'set', 'bytearray')):
                    if name in mutated or any(m == name or m.startswith(name + '.') or m.startswith(name + '[') for m in mutated):
                        continue
                    if isinstance(val, ast.GeneratorExp):
                        continue
                if name in mutated:
                    continue
                # stability: nothing the expression reads is rebound or mutated in this function
                reads = _bases(val)
                unstable = False
                for r in reads:
                    root = r.split('.')[0].split('[')[0]
                    if r in stored:
                        # a plain name bound exactly once - by an earlier assignment, or as the variable of a loop that
                        # encloses both this definition and every use - keeps its value; anything else may change
                        if not (r.isidentifier() and ((stored[r] == 1 and _defined_before(fn, r, st)) or _loop_var_enclosing(fn, r, st, name))):
                            unstable = True
                    if any(m == r or r.startswith(m + '.') or r.startswith(m + '[') or m.startswith(r + '.') or m.startswith(r + '[') for m in mutated) and not _immune(val, r):
                        unstable = True
                    if root in stored and root != r and stored.get(root, 0) > 1:
                        unstable = True
                if unstable and not _window_stable(fn, body, idx, name, reads):
                    continue
                # every use comes after the definition
                uses = [n for n in ast.walk(fn) if isinstance(n, ast.Name) and n.id == name and isinstance(n.ctx, ast.Load)]
                if not uses or any(getattr(u, 'lineno', 0) < st.lineno for u in uses):
                    continue
                if any(isinstance(n, (ast.Global, ast.Nonlocal)) and name in n.names for n in ast.walk(fn)):
                    continue
                cand = (body, idx, name, val)
                break
            if cand:
                break
        if not cand:
            break
        body, idx, name, val = cand
        del body[idx]
        if not body:
            body.append(ast.Pass(lineno=getattr(val, 'lineno', 1), col_offset=0))
        _Subst({name: val}).visit(fn)
        done.append(f'{name} = {_u(val)[:60]}')
    return done


def _defined_before(fn, name, st) -> bool:
    for n in ast.walk(fn):
        if isinstance(n, ast.Assign) and len(n.targets) == 1 and isinstance(n.targets[0], ast.Name) and n.targets[0].id == name:
            return n.lineno < st.lineno
    return False


def _window_stable(fn, body, idx, name, reads) -> bool:
    """Definition and every use sit in one statement list, and no statement from the definition to the last use stores to,
    or calls a mutating method on, anything the expression reads."""
    uses = [n for n in ast.walk(fn) if isinstance(n, ast.Name) and n.id == name and isinstance(n.ctx, ast.Load)]
    owner = {}
    for j in range(idx + 1, len(body)):
        for x in ast.walk(body[j]):
            owner[id(x)] = j
    if not uses or any(id(u) not in owner for u in uses):
        return False
    last = max(owner[id(u)] for u in uses)
    for j in range(idx + 1, last + 1):
        st_stored, st_mut = _stores_and_mutations(ast.Module(body=[body[j]], type_ignores=[]))
        for r in reads:
            if r in st_stored or any(m == r or r.startswith(m + '.') or r.startswith(m + '[') or m.startswith(r + '.') or m.startswith(r + '[') for m in st_mut):
                return False
        # a loop in the window re-executes: a use inside it would see later values only if something is stored, which was just excluded
    return True


def _loop_var_enclosing(fn, r, st, name) -> bool:
    for lp in ast.walk(fn):
        if isinstance(lp, (ast.For, ast.AsyncFor)) and any(isinstance(t, ast.Name) and t.id == r for t in ast.walk(lp.target)):
            inside = {id(x) for b in lp.body for x in ast.walk(b)}
            if id(st) not in inside:
                continue
            if any(isinstance(x, ast.Name) and x.id == r and isinstance(x.ctx, ast.Store) for b in lp.body for x in ast.walk(b)):
                return False
            uses = [n for n in ast.walk(fn) if isinstance(n, ast.Name) and n.id == name and isinstance(n.ctx, ast.Load)]
            return all(id(u) in inside for u in uses)
    return False


def _immune(val, r) -> bool:
    """isinstance(x, C) and `x is None` do not change when x's contents are mutated."""
    for n in ast.walk(val):
        if isinstance(n, ast.Call) and isinstance(n.func, ast.Name) and n.func.id == 'isinstance' and n.args and _u(n.args[0]) == r:
            return True
    return False


# ------------------------------------------------------------------------------------------------ (d) spelling variants

class _Spelling(ast.NodeTransformer):
    """`s.startswith((a, b))` -> `s.startswith(a) or s.startswith(b)`;  `0 < x` style comparisons are left to the linear
    normal form. Applied only to spellings absent from the reference tree (it has no tuple-prefix tests)."""
    def __init__(self):
        self.done = []

    def visit_Call(self, node: ast.Call):
        self.generic_visit(node)
        if isinstance(node.func, ast.Attribute) and node.func.attr in ('startswith', 'endswith') and len(node.args) == 1 and not node.keywords \
                and isinstance(node.args[0], ast.Tuple) and node.args[0].elts and _is_pure(node.func.value):
            alts = []
            for e in node.args[0].elts:
                c = ast.Call(func=ast.Attribute(value=copy.deepcopy(node.func.value), attr=node.func.attr, ctx=ast.Load()), args=[e], keywords=[])
                alts.append(c)
            new = ast.BoolOp(op=ast.Or(), values=alts) if len(alts) > 1 else alts[0]
            _set_lines(new, node)
            self.done.append(_u(node)[:60])
            return new
        return node


# ------------------------------------------------------------------------------------------------ (h) any / all / writelines

def _expand_quantifiers(fn: ast.FunctionDef) -> list[str]:
    """`if any(P(x) for x in xs): <exit>` -> `for x in xs: if P(x): <exit>` (and `not all(..)`), where <exit> always returns,
    raises or exits, so that at most one element triggers it either way;  `f.writelines(E(x) for x in xs)` -> a loop of writes."""
    done = []
    for body in list(_bodies(fn)):
        i = 0
        while i < len(body):
            st = body[i]
            if isinstance(st, ast.If) and not st.orelse and _always_returns(st.body):
                t, neg = st.test, False
                if isinstance(t, ast.UnaryOp) and isinstance(t.op, ast.Not):
                    t, neg = t.operand, True
                if isinstance(t, ast.Call) and isinstance(t.func, ast.Name) and t.func.id in ('any', 'all') and len(t.args) == 1 and not t.keywords \
                        and isinstance(t.args[0], (ast.GeneratorExp, ast.ListComp)) and len(t.args[0].generators) == 1 and ((t.func.id == 'any') != neg):
                    g = t.args[0].generators[0]
                    cond = t.args[0].elt if t.func.id == 'any' else ast.UnaryOp(op=ast.Not(), operand=t.args[0].elt)
                    inner = ast.If(test=cond, body=st.body, orelse=[])
                    for c in reversed(g.ifs):
                        inner = ast.If(test=c, body=[inner], orelse=[])
                    loop = ast.For(target=g.target, iter=g.iter, body=[inner], orelse=[])
                    ast.copy_location(loop, st)
                    ast.copy_location(inner, st)
                    body[i] = loop
                    done.append(_u(st.test)[:70])
            elif isinstance(st, ast.Expr) and isinstance(st.value, ast.Call) and isinstance(st.value.func, ast.Attribute) and st.value.func.attr == 'writelines' \
                    and len(st.value.args) == 1 and isinstance(st.value.args[0], (ast.GeneratorExp, ast.ListComp)) and len(st.value.args[0].generators) == 1:
                ge = st.value.args[0]
                g = ge.generators[0]
                w = ast.Expr(value=ast.Call(func=ast.Attribute(value=st.value.func.value, attr='write', ctx=ast.Load()), args=[ge.elt], keywords=[]))
                inner = [w]
                for c in reversed(g.ifs):
                    inner = [ast.If(test=c, body=inner, orelse=[])]
                loop = ast.For(target=g.target, iter=g.iter, body=inner, orelse=[])
                ast.copy_location(loop, st)
                ast.copy_location(w, st)
                body[i] = loop
                done.append(_u(st)[:70])
            i += 1
    return done


# ------------------------------------------------------------------------------------------------ (g) parallel assignments

def _split_parallel(fn: ast.FunctionDef, known_stmts: set[str]) -> list[str]:
    """`a, b = f(a), g(b)` -> `a = f(a)` / `b = g(b)` when no right-hand side reads a target assigned before it."""
    done = []
    for body in list(_bodies(fn)):
        i = 0
        while i < len(body):
            st = body[i]
            if isinstance(st, ast.Assign) and len(st.targets) == 1 and isinstance(st.targets[0], ast.Tuple) and isinstance(st.value, ast.Tuple) \
                    and len(st.targets[0].elts) == len(st.value.elts) and all(isinstance(t, ast.Name) for t in st.targets[0].elts) \
                    and _u(st) not in known_stmts:
                names = [t.id for t in st.targets[0].elts]
                ok = True
                for k, v in enumerate(st.value.elts):
                    reads = {n.id for n in ast.walk(v) if isinstance(n, ast.Name)}
                    if reads & set(names[:k]) or not _is_pure(v):
                        ok = False
                if ok and len(set(names)) == len(names):
                    new = []
                    for t, v in zip(st.targets[0].elts, st.value.elts):
                        a = ast.Assign(targets=[t], value=v)
                        _set_lines(a, st)
                        a.targets, a.value = [t], v
                        new.append(a)
                    body[i:i + 1] = new
                    done.append(_u(st)[:70])
                    i += len(new)
                    continue
            i += 1
    return done


# ------------------------------------------------------------------------------------------------ (e) renamings

def _rename_attr_everywhere(repo, old: str, new: str, cls=None):
    """Rename attribute `old` to `new`: inside `cls` and its subclasses when given (self./cls. receivers), else repo-wide."""
    if cls is None:
        for m in repo.modules.values():
            for n in ast.walk(m.tree):
                if isinstance(n, ast.Attribute) and n.attr == old:
                    n.attr = new
        return
    for c in [cls] + cls.all_subclasses():
        for f in list(c.methods.values()) + list(getattr(c, 'setters', {}).values()):
            for n in ast.walk(f.node):
                if isinstance(n, ast.Attribute) and n.attr == old:
                    n.attr = new


def _recover_renames(repo, ref, log: dict) -> None:
    ref_f, ref_c = ref['functions'], ref.get('classes', {})
    all_ref_attrs = {a for c in ref_c.values() for a in c['attrs']}
    all_ref_methods = {m for c in ref_c.values() for m in c['methods']}
    # private methods: a method the reviewed class does not have, while one it had is gone, with the same structure
    for cq, ci in repo.classes.items():
        rc = ref_c.get(cq)
        if rc is None:
            continue
        now = set(ci.methods)
        gone = [m for m in rc['methods'] if m not in now and m.startswith('_') and not m.startswith('__')]
        added = [m for m in now if m not in rc['methods'] and m.startswith('_') and not m.startswith('__')]
        for a in list(added):
            fa = ci.methods[a]
            cands = [g for g in gone if ref_f.get(f'{cq}.{g}', {}).get('shape') == shape(fa.node)]
            if len(cands) != 1 and len(gone) == 1 and len(added) == 1:
                cands = gone
            if len(cands) != 1:
                continue
            g = cands[0]
            gone.remove(g)
            added.remove(a)
            # re-key the function and rename every reference to it
            del ci.methods[a]
            ci.methods[g] = fa
            oldq = fa.qualname
            fa.node.name = g
            fa.name = g
            fa.qualname = f'{cq}.{g}'
            repo.functions.pop(oldq, None)
            repo.functions[fa.qualname] = fa
            _rename_attr_everywhere(repo, a, g, None if a not in all_ref_methods and a not in all_ref_attrs else ci)
            log.setdefault(cq, []).append(f'private method {a} recognised as the reviewed {g} (same structure)')
    # private attributes
    for cq, ci in repo.classes.items():
        rc = ref_c.get(cq)
        if rc is None:
            continue
        now = class_private_attrs(ci)
        own_methods = set(ci.methods)
        gone = [a for a in rc['attrs'] if a not in now and a not in own_methods]
        added = [a for a in now if a not in rc['attrs'] and a not in own_methods and a not in rc['methods']]
        for a in list(added):
            cands = [g for g in gone if rc['attrs'][g] == now[a]]
            if len(cands) != 1 and len(gone) == 1 and len(added) == 1:
                cands = gone
            if len(cands) != 1:
                continue
            g = cands[0]
            gone.remove(g)
            added.remove(a)
            _rename_attr_everywhere(repo, a, g, None if a not in all_ref_attrs and a not in all_ref_methods else ci)
            log.setdefault(cq, []).append(f'private attribute {a} recognised as the reviewed {g} (same uses)')
    # parameters and locals: same number of bindings, in the same order
    for q, fi in repo.functions.items():
        rf = ref_f.get(q)
        if rf is None or 'bindings' not in rf:
            continue
        was, now = rf['bindings'], ordered_bindings(fi.node)
        if was == now or len(was) != len(now):
            continue
        if rf.get('shape') != shape(fi.node):
            continue          # more than names changed: the new names may play other roles
        ren = {n: w for w, n in zip(was, now) if w != n}
        if not ren or set(ren) & set(was) or len(set(ren.values())) != len(ren):
            continue          # a swap or a clash: not a plain renaming
        for n in ast.walk(fi.node):
            if isinstance(n, ast.Name) and n.id in ren:
                n.id = ren[n.id]
            elif isinstance(n, ast.arg) and n.arg in ren:
                n.arg = ren[n.arg]
            elif isinstance(n, ast.ExceptHandler) and n.name in ren:
                n.name = ren[n.name]
            elif isinstance(n, ast.keyword) and False:
                pass
        # keyword arguments at call sites that name a renamed parameter
        pren = {n: w for n, w in ren.items() if w in [a.arg for a in fi.node.args.args + fi.node.args.kwonlyargs]}
        if pren:
            for m in repo.modules.values():
                for c in ast.walk(m.tree):
                    if isinstance(c, ast.Call) and (getattr(c.func, 'attr', None) == fi.name or getattr(c.func, 'id', None) == fi.name):
                        for k in c.keywords:
                            if k.arg in pren:
                                k.arg = pren[k.arg]
        log.setdefault(q, []).append('renamed bindings recognised: ' + ', '.join(f'{n}->{w}' for n, w in ren.items()))


# ------------------------------------------------------------------------------------------------ (f) assignment expressions

def _hoist_walrus(fn: ast.FunctionDef) -> list[str]:
    """`if (m := E) is not None:` -> `m = E` / `if m is not None:` when the assignment is the first thing the test evaluates."""
    done = []

    def first_walrus(e):
        # the sub-expression evaluated first, unconditionally
        while True:
            if isinstance(e, ast.NamedExpr):
                return e
            if isinstance(e, ast.Compare):
                e = e.left
            elif isinstance(e, ast.UnaryOp):
                e = e.operand
            elif isinstance(e, ast.BoolOp):
                e = e.values[0]
            elif isinstance(e, ast.Call) and e.args and not isinstance(e.func, ast.NamedExpr) and isinstance(e.func, ast.Name):
                e = e.args[0]
            else:
                return None
    for body in list(_bodies(fn)):
        i = 0
        while i < len(body):
            st = body[i]
            if isinstance(st, ast.If):
                w = first_walrus(st.test)
                if w is not None and isinstance(w.target, ast.Name):
                    asg = ast.Assign(targets=[ast.Name(id=w.target.id, ctx=ast.Store())], value=w.value)
                    _set_lines(asg, st)
                    asg.value = w.value

                    class R(ast.NodeTransformer):
                        def visit_NamedExpr(self, node):
                            if node is w:
                                return ast.copy_location(ast.Name(id=w.target.id, ctx=ast.Load()), node)
                            return self.generic_visit(node)
                    st.test = R().visit(st.test)
                    body.insert(i, asg)
                    done.append(f'{w.target.id} := {_u(w.value)[:50]}')
                    i += 1
            i += 1
    return done


class _Spelling2(ast.NodeTransformer):
    """isinstance(x, (A, B)) -> isinstance(x, A) or isinstance(x, B)."""
    def __init__(self):
        self.done = []

    def visit_Call(self, node: ast.Call):
        self.generic_visit(node)
        if isinstance(node.func, ast.Name) and node.func.id == 'isinstance' and len(node.args) == 2 and isinstance(node.args[1], ast.Tuple) and node.args[1].elts \
                and _is_pure(node.args[0]):
            alts = [ast.Call(func=ast.Name(id='isinstance', ctx=ast.Load()), args=[copy.deepcopy(node.args[0]), e], keywords=[]) for e in node.args[1].elts]
            new = ast.BoolOp(op=ast.Or(), values=alts) if len(alts) > 1 else alts[0]
            _set_lines(new, node)
            self.done.append(_u(node)[:60])
            return new
        return node


# ------------------------------------------------------------------------------------------------ driver

def normalise(repo) -> dict:
    ref = load_reference()
    if ref is None:
        return {}
    ref_funcs = ref['functions']
    log: dict = {}
    try:
        _recover_renames(repo, ref, log)
    except Exception as e:
        log.setdefault('#errors', []).append(f'rename recovery: {type(e).__name__}: {e}')
    try:
        _inline_helpers(repo, set(ref_funcs), log)
    except Exception as e:   # normalisation must never decide anything: on trouble leave the tree as written
        log.setdefault('#errors', []).append(f'helper inlining: {type(e).__name__}: {e}')
    for q, fi in repo.functions.items():
        key = q if q in ref_funcs else None
        known_locals = set(ref_funcs[key]['locals']) if key else None
        known_ifexp = set(ref_funcs[key]['ifexp']) if key else None
        if known_locals is None:
            continue          # a function the rules have never seen: nothing refers to its locals, leave it as written
        try:
            sp = _Spelling()
            sp.visit(fi.node)
            if sp.done:
                log.setdefault(q, []).extend(f'tuple prefix test -> or: {x}' for x in sp.done)
            sp2 = _Spelling2()
            sp2.visit(fi.node)
            if sp2.done:
                log.setdefault(q, []).extend(f'isinstance with a tuple -> or: {x}' for x in sp2.done)
            d = _hoist_walrus(fi.node)
            if d:
                log.setdefault(q, []).extend(f'assignment expression hoisted: {x}' for x in d)
            d = _expand_quantifiers(fi.node)
            if d:
                log.setdefault(q, []).extend(f'quantifier / writelines expanded into a loop: {x}' for x in d)
            d = _split_parallel(fi.node, set(ref_funcs[key].get('parallel', [])))
            if d:
                log.setdefault(q, []).extend(f'parallel assignment split: {x}' for x in d)
            d = _expand_ifexp(fi.node, known_ifexp)
            if d:
                log.setdefault(q, []).extend(f'conditional expression -> if/else: {x}' for x in d)
            d = _inline_locals(fi, known_locals)
            if d:
                log.setdefault(q, []).extend(f'inlined new local: {x}' for x in d)
            ast.fix_missing_locations(fi.node)
        except Exception as e:
            log.setdefault('#errors', []).append(f'{q}: {type(e).__name__}: {e}')
    return log
