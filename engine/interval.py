"""A small interval / bit-kind abstract interpreter for cursor code (used for the packer, C01.9).

Tracked numeric cells (intervals over the integers, None = unbounded side):
  * attributes of self and locals assigned integer expressions;
  * the ghost cell D = (byte index attribute) - len(byte buffer)        (pairing of `append` and `+= 1`);
  * the ghost cell T = (bit cursor) + (bits already stored in the current byte)   (7 when there is neither a gap nor a collision).
Bit kinds of locals: ('single', k) for `1 << k`, ('masked', k) for `x & (1 << k)`, 'bit' for a value that is 0 or 1.
Events are recorded (stores into the buffer, refills, exits); the rule that owns the interpreter judges them.
Anything the interpreter does not understand makes the touched cell unbounded - never silently precise."""
import ast

TOP = (None, None)


def _lo(a, b):
    return None if a is None or b is None else min(a, b)


def _hi(a, b):
    return None if a is None or b is None else max(a, b)


def join(a, b):
    if a is None:
        return b
    if b is None:
        return a
    return (_lo(a[0], b[0]), _hi(a[1], b[1]))


def add(a, b):
    return (None if a[0] is None or b[0] is None else a[0] + b[0], None if a[1] is None or b[1] is None else a[1] + b[1])


def neg(a):
    return (None if a[1] is None else -a[1], None if a[0] is None else -a[0])


def within(a, lo, hi):
    return a is not None and a[0] is not None and a[1] is not None and lo <= a[0] and a[1] <= hi


def meet(a, lo, hi):
    """a restricted to [lo, hi] (None = unbounded); returns None when empty."""
    nlo = a[0] if lo is None else (lo if a[0] is None else max(a[0], lo))
    nhi = a[1] if hi is None else (hi if a[1] is None else min(a[1], hi))
    if nlo is not None and nhi is not None and nlo > nhi:
        return None
    return (nlo, nhi)


def fmt(a):
    if a is None:
        return 'unreachable'
    return '[%s, %s]' % ('-inf' if a[0] is None else a[0], '+inf' if a[1] is None else a[1])


class State:
    def __init__(self, cells=None, kinds=None):
        self.cells = dict(cells or {})
        self.kinds = dict(kinds or {})

    def copy(self):
        return State(self.cells, self.kinds)

    def get(self, k):
        return self.cells.get(k, TOP)

    def __eq__(self, o):
        return o is not None and self.cells == o.cells and self.kinds == o.kinds


def join_states(a, b):
    if a is None:
        return None if b is None else b.copy()
    if b is None:
        return a.copy()
    s = State()
    for k in set(a.cells) | set(b.cells):
        s.cells[k] = join(a.get(k), b.get(k))
    for k in set(a.kinds) & set(b.kinds):
        if a.kinds[k] == b.kinds[k]:
            s.kinds[k] = a.kinds[k]
    return s


class CursorInterp:
    """buffer: text of the byte buffer (`self._bytes`); cursor: the bit cursor; index: the byte index."""

    def __init__(self, buffer, cursor, index, flag_names=()):
        self.buffer, self.cursor, self.index = buffer, cursor, index
        self.flag_names = set(flag_names)
        self.stores = []       # (node, index text, kind ok, shift interval, T before, D before)
        self.overwrites = []   # nodes that store into / delete from / re-bind the buffer other than by |=
        self.refills = []      # (node of the append call, interval of the cursor when the enclosing branch is entered, under flag?)
        self.exits = []        # states at return / fall-through
        self.unknown = []      # nodes that were not understood and touch a tracked cell
        self._branch = []      # stack of (cursor interval at branch entry, mentions flag)

    # ------------------------------------------------------------------ expressions
    def ev(self, e, st):
        if isinstance(e, ast.Constant) and isinstance(e.value, int) and not isinstance(e.value, bool):
            return (e.value, e.value)
        if isinstance(e, (ast.Name, ast.Attribute)):
            return st.get(ast.unparse(e))
        if isinstance(e, ast.UnaryOp) and isinstance(e.op, ast.USub):
            return neg(self.ev(e.operand, st))
        if isinstance(e, ast.BinOp):
            a, b = self.ev(e.left, st), self.ev(e.right, st)
            if isinstance(e.op, ast.Add):
                return add(a, b)
            if isinstance(e.op, ast.Sub):
                return add(a, neg(b))
            if isinstance(e.op, ast.Mod) and b[0] is not None and b[0] == b[1] and b[0] > 0:
                return (0, b[0] - 1)
            if isinstance(e.op, ast.BitAnd) and b[0] is not None and b[0] == b[1] and b[0] >= 0:
                return (0, b[0])
        if isinstance(e, ast.Call) and ast.unparse(e.func) == 'len':
            return (0, None)
        if isinstance(e, ast.IfExp):
            return join(self.ev(e.body, st), self.ev(e.orelse, st))
        return TOP

    def kind(self, e, st):
        if isinstance(e, ast.Name):
            return st.kinds.get(e.id)
        if isinstance(e, ast.Constant) and e.value in (0, 1) and not isinstance(e.value, bool):
            return 'bit'
        if isinstance(e, ast.BinOp):
            if isinstance(e.op, ast.LShift) and isinstance(e.left, ast.Constant) and e.left.value == 1:
                return ('single', ast.unparse(e.right))
            if isinstance(e.op, ast.BitAnd):
                for x, m in ((e.left, e.right), (e.right, e.left)):
                    if isinstance(m, ast.Constant) and m.value == 1:
                        return 'bit'
                    km = self.kind(m, st)
                    if isinstance(km, tuple) and km[0] == 'single':
                        return ('masked', km[1])
            if isinstance(e.op, ast.RShift):
                kl = self.kind(e.left, st)
                if isinstance(kl, tuple) and kl[0] == 'masked' and kl[1] == ast.unparse(e.right):
                    return 'bit'
        if isinstance(e, ast.Call) and ast.unparse(e.func) in ('int', 'bool') and len(e.args) == 1:
            if isinstance(e.args[0], ast.Compare) or self.kind(e.args[0], st) == 'bit':
                return 'bit'
        if isinstance(e, ast.IfExp) and self.kind(e.body, st) == 'bit' and self.kind(e.orelse, st) == 'bit':
            return 'bit'
        return None

    # ------------------------------------------------------------------ conditions
    def refine(self, test, st, truth):
        """state when `test` evaluates to `truth`; None when that is impossible."""
        if st is None:
            return None
        if isinstance(test, ast.UnaryOp) and isinstance(test.op, ast.Not):
            return self.refine(test.operand, st, not truth)
        if isinstance(test, ast.BoolOp):
            conj = isinstance(test.op, ast.And)
            if conj == truth:          # all operands have the value `truth`
                cur = st
                for v in test.values:
                    cur = self.refine(v, cur, truth)
                return cur
            out, cur = None, st        # some operand is the first to differ
            for v in test.values:
                out = join_states(out, self.refine(v, cur, truth))
                cur = self.refine(v, cur, not truth)
            return out
        if isinstance(test, ast.Compare) and len(test.ops) == 1:
            l, r, op = test.left, test.comparators[0], test.ops[0]
            lt, rt = ast.unparse(l), ast.unparse(r)
            cl, cr = self.ev(l, st), self.ev(r, st)
            flip = {ast.Lt: ast.Gt, ast.Gt: ast.Lt, ast.LtE: ast.GtE, ast.GtE: ast.LtE, ast.Eq: ast.Eq, ast.NotEq: ast.NotEq}
            if type(op) not in flip:
                return st
            if not (lt in st.cells and cr[0] is not None and cr[0] == cr[1]):
                if rt in st.cells and cl[0] is not None and cl[0] == cl[1]:
                    lt, cl, cr, op = rt, cr, cl, flip[type(op)]()
                else:
                    return st
            c = cr[0]
            t = type(op)
            if not truth:
                t = {ast.Lt: ast.GtE, ast.GtE: ast.Lt, ast.Gt: ast.LtE, ast.LtE: ast.Gt, ast.Eq: ast.NotEq, ast.NotEq: ast.Eq}[t]
            if t is ast.Lt:
                nv = meet(cl, None, c - 1)
            elif t is ast.LtE:
                nv = meet(cl, None, c)
            elif t is ast.Gt:
                nv = meet(cl, c + 1, None)
            elif t is ast.GtE:
                nv = meet(cl, c, None)
            elif t is ast.Eq:
                nv = meet(cl, c, c)
            else:
                nv = cl
                if cl[0] == c and cl[1] == c:
                    nv = None
                elif cl[0] == c:
                    nv = (c + 1, cl[1])
                elif cl[1] == c:
                    nv = (cl[0], c - 1)
            if nv is None:
                return None
            s = st.copy()
            s.cells[lt] = nv
            return s
        return st

    # ------------------------------------------------------------------ statements
    def _assign_cell(self, st, name, val, node, delta=None):
        """delta: the exact amount added when the statement is `name += c` / `name -= c`."""
        if name == self.buffer:
            self.overwrites.append(node)
            st.cells['D'] = TOP
            return
        old = st.get(name)
        st.cells[name] = val
        if name == self.cursor:
            # S = bits stored in the current byte, T = cursor + S (either may be unknown; T = 7 is the class invariant)
            if delta is not None:
                st.cells['T'] = add(st.get('T'), delta)
            else:
                if st.get('S') == TOP:
                    st.cells['S'] = add(st.get('T'), neg(old))
                st.cells['T'] = add(val, st.get('S'))
        if name == self.index:
            if delta is not None:
                st.cells['D'] = add(st.get('D'), delta)
            elif isinstance(node, ast.Assign) and ast.unparse(node.value).replace(' ', '') == 'len(%s)-1' % self.buffer:
                st.cells['D'] = (-1, -1)
            else:
                st.cells['D'] = TOP

    def block(self, stmts, st, loop=None):
        for s in stmts:
            if st is None:
                return None
            st = self.stmt(s, st, loop)
        return st

    def stmt(self, s, st, loop):
        st = st.copy()
        if isinstance(s, ast.Assign) and len(s.targets) == 1:
            t = s.targets[0]
            if isinstance(t, ast.Subscript) and ast.unparse(t.value) == self.buffer:
                self.overwrites.append(s)
                return st
            if isinstance(t, (ast.Name, ast.Attribute)):
                name = ast.unparse(t)
                self._assign_cell(st, name, self.ev(s.value, st), s)
                k = self.kind(s.value, st)
                if isinstance(t, ast.Name):
                    # a kind that mentions a re-assigned name is stale
                    for n, kk in list(st.kinds.items()):
                        if isinstance(kk, tuple) and kk[1] == name:
                            del st.kinds[n]
                    if k is not None:
                        st.kinds[name] = k
                    else:
                        st.kinds.pop(name, None)
                return st
            for n in ast.walk(t):
                if isinstance(n, (ast.Name, ast.Attribute)) and ast.unparse(n) in (self.cursor, self.index, self.buffer):
                    self.unknown.append(s)
            return st
        if isinstance(s, ast.AnnAssign) and s.value is not None and isinstance(s.target, (ast.Name, ast.Attribute)):
            return self.stmt(ast.copy_location(ast.Assign(targets=[s.target], value=s.value), s), st, loop)
        if isinstance(s, ast.AugAssign):
            t = s.target
            if isinstance(t, ast.Subscript) and ast.unparse(t.value) == self.buffer:
                if not isinstance(s.op, ast.BitOr):
                    self.overwrites.append(s)
                    return st
                v = s.value
                kind_ok, shift = False, TOP
                if isinstance(v, ast.BinOp) and isinstance(v.op, ast.LShift):
                    kind_ok = self.kind(v.left, st) == 'bit'
                    shift = self.ev(v.right, st)
                    uses_cursor = ast.unparse(v.right) == self.cursor
                else:
                    uses_cursor = False
                self.stores.append((s, ast.unparse(t.slice), kind_ok, shift, st.get('T'), st.get('D'), uses_cursor))
                if uses_cursor:
                    st.cells['T'] = add(st.get('T'), (1, 1))
                    st.cells['S'] = add(st.get('S'), (1, 1))
                else:
                    st.cells['T'] = st.cells['S'] = TOP
                return st
            if isinstance(t, (ast.Name, ast.Attribute)):
                name = ast.unparse(t)
                d = self.ev(s.value, st)
                exact = d if d[0] is not None and d[0] == d[1] else None
                if isinstance(s.op, ast.Add):
                    self._assign_cell(st, name, add(st.get(name), d), s, exact)
                elif isinstance(s.op, ast.Sub):
                    self._assign_cell(st, name, add(st.get(name), neg(d)), s, None if exact is None else neg(exact))
                else:
                    self._assign_cell(st, name, TOP, s)
                if isinstance(t, ast.Name):
                    st.kinds.pop(name, None)
                return st
            return st
        if isinstance(s, ast.Delete):
            for t in s.targets:
                if self.buffer in ast.unparse(t):
                    self.overwrites.append(s)
            return st
        if isinstance(s, ast.Expr):
            c = s.value
            if isinstance(c, ast.Call) and isinstance(c.func, ast.Attribute) and ast.unparse(c.func.value) == self.buffer:
                if c.func.attr == 'append' and len(c.args) == 1:
                    st.cells['D'] = add(st.get('D'), (-1, -1))
                    # a fresh byte holds no bits
                    st.cells['S'] = (0, 0)
                    st.cells['T'] = st.get(self.cursor)
                    ent = self._branch[-1] if self._branch else (None, False)
                    self.refills.append((c, ent[0], ent[1], ast.unparse(c.args[0])))
                else:
                    self.overwrites.append(s)
            elif isinstance(c, ast.Call) and any(isinstance(a, (ast.Name, ast.Attribute)) and ast.unparse(a) == self.buffer for a in c.args):
                self.overwrites.append(s)
            return st
        if isinstance(s, ast.If):
            mentions = bool(self.flag_names & {n.id for n in ast.walk(s.test) if isinstance(n, ast.Name)})
            outer_flag = any(b[1] for b in self._branch)
            tt, ff = self.refine(s.test, st, True), self.refine(s.test, st, False)
            out = None
            if tt is not None:
                self._branch.append((tt.get(self.cursor), mentions or outer_flag))
                out = self.block(s.body, tt, loop)
                self._branch.pop()
            if ff is not None:
                self._branch.append((ff.get(self.cursor), outer_flag))
                out = join_states(out, self.block(s.orelse, ff, loop))
                self._branch.pop()
            return out
        if isinstance(s, (ast.For, ast.While)):
            return self.loop(s, st)
        if isinstance(s, ast.Return):
            self.exits.append((s, st))
            return None
        if isinstance(s, ast.Raise):
            return None
        if isinstance(s, ast.Continue) and loop is not None:
            loop['continue'] = join_states(loop['continue'], st)
            return None
        if isinstance(s, ast.Break) and loop is not None:
            loop['break'] = join_states(loop['break'], st)
            return None
        if isinstance(s, (ast.Pass, ast.Assert, ast.Import, ast.ImportFrom, ast.Global, ast.Nonlocal)):
            return st
        if isinstance(s, ast.Try):
            out = self.block(s.body, st, loop)
            for h in s.handlers:
                out = join_states(out, self.block(h.body, join_states(st, out), loop))
            out = self.block(s.orelse, out, loop) if out is not None else None
            return self.block(s.finalbody, out, loop) if out is not None else None
        if isinstance(s, ast.With):
            return self.block(s.body, st, loop)
        self.unknown.append(s)
        return st

    def loop(self, s, st):
        entry = st
        head = entry.copy()
        exit_state = None
        for rounds in range(40):
            cur = head.copy()
            if isinstance(s, ast.For):
                tgt = ast.unparse(s.target)
                rng = TOP
                it = s.iter
                if isinstance(it, ast.Call) and ast.unparse(it.func) == 'range' and 1 <= len(it.args) <= 3:
                    a = [self.ev(x, cur) for x in it.args]
                    if len(a) == 1:
                        rng = (0, None if a[0][1] is None else a[0][1] - 1)
                    else:
                        step = a[2] if len(a) == 3 else (1, 1)
                        if step[0] is not None and step[0] == step[1] and step[0] > 0:
                            rng = (a[0][0], None if a[1][1] is None else a[1][1] - 1)
                        elif step[0] is not None and step[0] == step[1] and step[0] < 0:
                            rng = (None if a[1][0] is None else a[1][0] + 1, a[0][1])
                if isinstance(s.target, ast.Name):
                    cur.cells[tgt] = rng
                    for n, kk in list(cur.kinds.items()):
                        if isinstance(kk, tuple) and kk[1] == tgt:
                            del cur.kinds[n]
                    cur.kinds.pop(tgt, None)
                body_in, skip = cur, head
            else:
                body_in, skip = self.refine(s.test, cur, True), self.refine(s.test, cur, False)
            ctl = {'continue': None, 'break': None}
            # events of earlier rounds are superseded by those of the widest round
            marks = (len(self.stores), len(self.refills), len(self.overwrites), len(self.exits), len(self.unknown))
            out = self.block(s.body, body_in, ctl) if body_in is not None else None
            back = join_states(out, ctl['continue'])
            new_head = join_states(entry, back)
            exit_state = join_states(skip, ctl['break'])
            if new_head == head:
                if s.orelse:
                    exit_state = join_states(self.block(s.orelse, skip, None) if skip is not None else None, ctl['break'])
                return exit_state
            if rounds >= 20:   # widen
                for k in set(new_head.cells):
                    a, b = head.get(k), new_head.get(k)
                    new_head.cells[k] = (a[0] if a[0] == b[0] else None, a[1] if a[1] == b[1] else None)
            head = new_head
            del self.stores[marks[0]:], self.refills[marks[1]:], self.overwrites[marks[2]:], self.exits[marks[3]:], self.unknown[marks[4]:]
        return exit_state

    def run(self, fn_node, entry):
        out = self.block(fn_node.body, entry, None)
        if out is not None:
            self.exits.append((fn_node, out))
        return self
