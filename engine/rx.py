"""Regex AST utilities on constant-folded patterns (via re._parser; patterns are parsed, never matched)."""
from __future__ import annotations

import re
import re._parser as sre_parse
import re._constants as sre

ALL_ASCII = frozenset(chr(i) for i in range(32, 127))


def parse(pattern: str, flags: int = 0):
    return sre_parse.parse(pattern, flags)


def _category_chars(cat) -> frozenset:
    name = str(cat)
    if 'CATEGORY_DIGIT' in name and 'NOT' not in name:
        return frozenset('0123456789')
    if 'CATEGORY_NOT_DIGIT' in name:
        return ALL_ASCII - frozenset('0123456789')
    if 'CATEGORY_WORD' in name and 'NOT' not in name:
        return frozenset(c for c in ALL_ASCII if c.isalnum() or c == '_')
    if 'CATEGORY_NOT_WORD' in name:
        return frozenset(c for c in ALL_ASCII if not (c.isalnum() or c == '_'))
    if 'CATEGORY_SPACE' in name and 'NOT' not in name:
        return frozenset(' \t\n\r\x0b\x0c') & (ALL_ASCII | frozenset('\t\n\r\x0b\x0c'))
    if 'CATEGORY_NOT_SPACE' in name:
        return ALL_ASCII - frozenset(' ')
    return ALL_ASCII


def set_chars(items, ignorecase=False) -> frozenset:
    """Characters matched by the body of an IN node (printable ASCII only)."""
    out = set()
    negate = False
    for op, av in items:
        if op == sre.NEGATE:
            negate = True
        elif op == sre.LITERAL:
            out.add(chr(av))
        elif op == sre.RANGE:
            lo, hi = av
            out |= {chr(i) for i in range(lo, hi + 1)}
        elif op == sre.CATEGORY:
            out |= _category_chars(av)
    if ignorecase:
        out |= {c.lower() for c in out} | {c.upper() for c in out}
    out = frozenset(out)
    if negate:
        return ALL_ASCII - out
    return out


def first_chars(seq, ignorecase=False) -> tuple[frozenset, bool]:
    """(set of printable ASCII characters a match of `seq` can start with, can `seq` match the empty string)."""
    chars = set()
    for op, av in seq:
        if op == sre.LITERAL:
            c = chr(av)
            chars |= {c.lower(), c.upper()} if ignorecase else {c}
            return frozenset(chars), False
        if op == sre.NOT_LITERAL:
            chars |= ALL_ASCII - {chr(av)}
            return frozenset(chars), False
        if op == sre.ANY:
            chars |= ALL_ASCII
            return frozenset(chars), False
        if op == sre.IN:
            chars |= set_chars(av, ignorecase)
            return frozenset(chars), False
        if op == sre.BRANCH:
            nullable = False
            for alt in av[1]:
                c, n = first_chars(alt, ignorecase)
                chars |= c
                nullable = nullable or n
            if not nullable:
                return frozenset(chars), False
            continue
        if op == sre.SUBPATTERN:
            c, n = first_chars(av[3], ignorecase)
            chars |= c
            if not n:
                return frozenset(chars), False
            continue
        if op in (sre.MAX_REPEAT, sre.MIN_REPEAT, sre.POSSESSIVE_REPEAT):
            lo, hi, sub = av
            c, n = first_chars(sub, ignorecase)
            chars |= c
            if lo > 0 and not n:
                return frozenset(chars), False
            continue
        if op in (sre.AT, sre.ASSERT, sre.ASSERT_NOT):
            continue   # zero-width: over-approximate by ignoring the restriction
        if op == sre.GROUPREF:
            chars |= ALL_ASCII
            return frozenset(chars), False
        if op == sre.ATOMIC_GROUP:
            c, n = first_chars(av, ignorecase)
            chars |= c
            if not n:
                return frozenset(chars), False
            continue
        # unknown node: be conservative (can start with anything)
        chars |= ALL_ASCII
        return frozenset(chars), False
    return frozenset(chars), True


def min_width(pattern: str, flags: int = 0) -> int:
    return parse(pattern, flags).getwidth()[0]


def top_branches(pattern: str, flags: int = 0) -> list:
    """Top-level alternatives of the pattern (looking through one enclosing non-capturing/capturing group)."""
    p = parse(pattern, flags)
    seq = list(p)
    while len(seq) == 1 and seq[0][0] == sre.SUBPATTERN:
        seq = list(seq[0][1][3])
    if len(seq) == 1 and seq[0][0] == sre.BRANCH:
        out = []
        for alt in seq[0][1][1]:
            alt = list(alt)
            # nested pure alternation (PATTERN_HEX inside PATTERN_NUMERIC): flatten
            if len(alt) == 1 and alt[0][0] == sre.BRANCH:
                out.extend(list(a) for a in alt[0][1][1])
            elif len(alt) == 1 and alt[0][0] == sre.SUBPATTERN and len(alt[0][1][3]) == 1 and alt[0][1][3][0][0] == sre.BRANCH:
                out.extend(list(a) for a in alt[0][1][3][0][1][1])
            else:
                out.append(alt)
        return out
    return [seq]


def has_word_boundaries(pattern: str) -> tuple[bool, bool]:
    """Does the pattern start / end with a \\b assertion (looking through groups)."""
    p = list(parse(pattern))
    def is_b(item):
        return item[0] == sre.AT and item[1] in (sre.AT_BOUNDARY,)
    return (bool(p) and is_b(p[0]), bool(p) and is_b(p[-1]))


def literal_prefixes(branch) -> list[str] | None:
    """Literal string(s) a branch starts with: ['$', '0x'] for (?:\\$|0x)..., [] when it starts with a class."""
    seq = list(branch)
    if not seq:
        return []
    op, av = seq[0]
    if op == sre.LITERAL:
        s = ''
        for op2, av2 in seq:
            if op2 == sre.LITERAL:
                s += chr(av2)
            else:
                break
        return [s]
    if op == sre.SUBPATTERN:
        inner = list(av[3])
        if len(inner) == 1 and inner[0][0] == sre.BRANCH:
            outs = []
            for alt in inner[0][1][1]:
                if all(o == sre.LITERAL for o, _ in alt):
                    outs.append(''.join(chr(a) for _, a in alt))
                else:
                    return None
            return outs
        if len(inner) == 1 and inner[0][0] == sre.IN:
            cs = set_chars(inner[0][1])
            return sorted(cs) if len(cs) <= 4 else []
        return literal_prefixes(inner)
    if op == sre.BRANCH:
        outs = []
        for alt in av[1]:
            if all(o == sre.LITERAL for o, _ in alt):
                outs.append(''.join(chr(a) for _, a in alt))
            else:
                return None
        return outs
    if op == sre.IN:
        cs = set_chars(av)
        if len(cs) <= 2:
            return sorted(cs)
        return []
    return []


def repeated_class(branch) -> frozenset | None:
    """The character class of the first repeated item of the branch ([0-9a-fA-F]+ -> hex digits)."""
    for op, av in branch:
        if op in (sre.MAX_REPEAT, sre.MIN_REPEAT):
            lo, hi, sub = av
            sub = list(sub)
            if len(sub) == 1 and sub[0][0] == sre.IN:
                return set_chars(sub[0][1])
            if len(sub) == 1 and sub[0][0] == sre.LITERAL:
                return frozenset(chr(sub[0][1]))
    return None


def literal_suffix(branch) -> str:
    """Literal characters at the end of the branch (ignoring a trailing \\b)."""
    seq = [x for x in branch if not (x[0] == sre.AT)]
    s = ''
    for op, av in reversed(seq):
        if op == sre.LITERAL:
            s = chr(av) + s
        else:
            break
    return s


def finite_strings(seq, limit: int = 512) -> list[str] | None:
    """All strings matched by a repeat-free sequence of literals, alternations and groups (None if not finite/simple)."""
    outs = ['']
    for op, av in seq:
        if op == sre.LITERAL:
            outs = [o + chr(av) for o in outs]
        elif op == sre.BRANCH:
            alts = []
            for alt in av[1]:
                sub = finite_strings(alt, limit)
                if sub is None:
                    return None
                alts.extend(sub)
            outs = [o + a for o in outs for a in alts]
        elif op == sre.SUBPATTERN:
            sub = finite_strings(av[3], limit)
            if sub is None:
                return None
            outs = [o + a for o in outs for a in sub]
        elif op == sre.AT:
            continue
        else:
            return None
        if len(outs) > limit:
            return None
    return outs


def group_strings(pattern: str, flags: int, group: int) -> list[str] | None:
    """The finite language of capturing group `group` of the pattern."""
    def find(seq):
        for op, av in seq:
            if op == sre.SUBPATTERN:
                if av[0] == group:
                    return finite_strings(av[3])
                r = find(av[3])
                if r is not None:
                    return r
            elif op == sre.BRANCH:
                for alt in av[1]:
                    r = find(alt)
                    if r is not None:
                        return r
            elif op in (sre.MAX_REPEAT, sre.MIN_REPEAT):
                r = find(av[2])
                if r is not None:
                    return r
        return None
    return find(parse(pattern, flags))
