"""Boolean function computed by a small if/return method, as a truth table over named atoms.

The method body is a tree of `if` statements ending in `return <boolean expression>`; aborting branches
(sys.exit / raise) are preconditions and are left out. Atoms are sub-expressions rendered as text (after an
optional renaming); the table is an abstract object (at most 2**6 rows), nothing of the repository is run.
"""
from __future__ import annotations

import ast
import itertools

from .helpers import is_abort_stmt, unparse


class NotBoolForm(Exception):
    pass


def _expr(e: ast.expr, atoms: list[str], rename):
    if isinstance(e, ast.Constant) and isinstance(e.value, bool):
        v = e.value
        return lambda env: v
    if isinstance(e, ast.UnaryOp) and isinstance(e.op, ast.Not):
        f = _expr(e.operand, atoms, rename)
        return lambda env: not f(env)
    if isinstance(e, ast.BoolOp):
        fs = [_expr(v, atoms, rename) for v in e.values]
        if isinstance(e.op, ast.And):
            return lambda env: all(f(env) for f in fs)
        return lambda env: any(f(env) for f in fs)
    if isinstance(e, ast.IfExp):
        c, a, b = _expr(e.test, atoms, rename), _expr(e.body, atoms, rename), _expr(e.orelse, atoms, rename)
        return lambda env: a(env) if c(env) else b(env)
    # the negative spelling of a comparison is the negation of its positive spelling: one atom for both
    if isinstance(e, ast.Compare) and len(e.ops) == 1 and isinstance(e.ops[0], (ast.IsNot, ast.NotEq, ast.NotIn)):
        pos = {ast.IsNot: ast.Is, ast.NotEq: ast.Eq, ast.NotIn: ast.In}[type(e.ops[0])]()
        f = _expr(ast.Compare(left=e.left, ops=[pos], comparators=e.comparators), atoms, rename)
        return lambda env: not f(env)
    name = rename(unparse(e))
    if name not in atoms:
        atoms.append(name)
    return lambda env: env[name]


def _block(stmts: list[ast.stmt], atoms, rename, local: dict):
    """Returns f(env) -> bool | None (None = aborted)."""
    if not stmts:
        raise NotBoolForm('falls off the end')
    st = stmts[0]
    rest = stmts[1:]
    if isinstance(st, ast.Expr) and isinstance(st.value, ast.Constant):
        return _block(rest, atoms, rename, local)
    if is_abort_stmt(st):
        return lambda env: None
    if isinstance(st, ast.Return):
        if st.value is None:
            raise NotBoolForm('bare return')
        e = st.value
        if isinstance(e, ast.Name) and e.id in local:
            return _expr(local[e.id], atoms, rename)
        return _expr(e, atoms, rename)
    if isinstance(st, ast.Assign) and len(st.targets) == 1 and isinstance(st.targets[0], ast.Name):
        local = dict(local)
        local[st.targets[0].id] = st.value   # compiled lazily, only if used as a boolean
        return _block(rest, atoms, rename, local)
    if isinstance(st, ast.If):
        test = st.test
        if isinstance(test, ast.Name) and test.id in local:
            c = _expr(local[test.id], atoms, rename)
        else:
            c = _expr(test, atoms, rename)
        t = _block(list(st.body) + rest, atoms, rename, local)
        f = _block(list(st.orelse) + rest, atoms, rename, local)
        return lambda env: t(env) if c(env) else f(env)
    raise NotBoolForm(f'unsupported statement {type(st).__name__}')


def compile_fn(fn_node: ast.FunctionDef, rename=lambda s: s):
    atoms: list[str] = []
    f = _block(list(fn_node.body), atoms, rename, {})
    return atoms, f


def equals(fn_node, expected, atom_names: list[str], rename=lambda s: s, precondition=lambda env: True):
    """expected(env) -> bool over atom_names. True iff the method computes `expected` on every assignment of
    atom_names where the precondition holds (and does not abort there)."""
    atoms, f = compile_fn(fn_node, rename)
    extra = [a for a in atoms if a not in atom_names]
    if extra:
        return False, f'depends on unexpected atoms {extra}'
    if len(atom_names) > 8:
        raise NotBoolForm('too many atoms')
    for vals in itertools.product([False, True], repeat=len(atom_names)):
        env = dict(zip(atom_names, vals))
        if not precondition(env):
            continue
        got = f(env)
        if got is None:
            return False, f'aborts for {env}'
        if bool(got) != bool(expected(env)):
            return False, f'for {env} computes {got}, expected {bool(expected(env))}'
    return True, f'atoms {atoms}'
