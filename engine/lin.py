"""Canonical forms of integer guards: linear normalisation plus small boolean structure.

Not a solver: expressions are normalised to  sum(coeff * atom) + const  over named atoms
(attribute reads, locals, calls rendered as text after def-use inlining), comparisons to
`form >= 0`, `form == 0`, `form != 0`, and tests to CNF over such literals.
"""
from __future__ import annotations

import ast
from fractions import Fraction


class NotLinear(Exception):
    pass


class Lin:
    __slots__ = ('terms', 'const')

    def __init__(self, terms=None, const=0):
        self.terms = {k: v for k, v in (terms or {}).items() if v != 0}
        self.const = const

    def __add__(self, o):
        t = dict(self.terms)
        for k, v in o.terms.items():
            t[k] = t.get(k, 0) + v
        return Lin(t, self.const + o.const)

    def __neg__(self):
        return Lin({k: -v for k, v in self.terms.items()}, -self.const)

    def __sub__(self, o):
        return self + (-o)

    def scale(self, c):
        return Lin({k: v * c for k, v in self.terms.items()}, self.const * c)

    def is_const(self):
        return not self.terms

    def key(self):
        return (tuple(sorted(self.terms.items())), self.const)

    def atoms(self):
        return set(self.terms)

    def __repr__(self):
        parts = []
        for k, v in sorted(self.terms.items()):
            if v == 1:
                parts.append(f'+ {k}')
            elif v == -1:
                parts.append(f'- {k}')
            else:
                parts.append(f'{"+" if v > 0 else "-"} {abs(v)}*{k}')
        if self.const or not parts:
            parts.append(f'{"+" if self.const >= 0 else "-"} {abs(self.const)}')
        s = ' '.join(parts)
        return s[2:] if s.startswith('+ ') else s


class Resolver:
    """Resolves local names through single-assignment def-use and renders atoms."""

    def __init__(self, func_node: ast.FunctionDef | None = None, aliases: dict[str, str] | None = None,
                 inline: bool = True, fold=None):
        self.defs: dict[str, ast.expr] = {}
        self.multi: set[str] = set()
        self.aliases = aliases or {}
        self.fold = fold   # optional callable(expr) -> python value or raises
        if func_node is not None and inline:
            counts: dict[str, int] = {}
            params = {a.arg for a in list(func_node.args.args) + list(func_node.args.kwonlyargs) + list(func_node.args.posonlyargs)}
            for node in ast.walk(func_node):
                if isinstance(node, ast.Assign) and len(node.targets) == 1 and isinstance(node.targets[0], ast.Name):
                    n = node.targets[0].id
                    counts[n] = counts.get(n, 0) + 1
                    self.defs[n] = node.value
                elif isinstance(node, ast.AnnAssign) and isinstance(node.target, ast.Name) and node.value is not None:
                    n = node.target.id
                    counts[n] = counts.get(n, 0) + 1
                    self.defs[n] = node.value
                elif isinstance(node, (ast.AugAssign,)) and isinstance(node.target, ast.Name):
                    counts[node.target.id] = counts.get(node.target.id, 0) + 2
                elif isinstance(node, (ast.For, ast.comprehension)):
                    for t in ast.walk(node.target):
                        if isinstance(t, ast.Name):
                            counts[t.id] = counts.get(t.id, 0) + 2
                elif isinstance(node, ast.Assign):
                    for tg in node.targets:
                        for t in ast.walk(tg):
                            if isinstance(t, ast.Name) and isinstance(t.ctx, ast.Store):
                                counts[t.id] = counts.get(t.id, 0) + 2
            for n, c in counts.items():
                if c != 1 or n in params:
                    self.multi.add(n)
                    self.defs.pop(n, None)

    def definition(self, name: str):
        return self.defs.get(name)

    def atom(self, e: ast.expr) -> str:
        s = ast.unparse(e)
        return self.aliases.get(s, s)


def _const_value(e: ast.expr, res: Resolver):
    if isinstance(e, ast.Constant) and isinstance(e.value, (int, float)) and not isinstance(e.value, bool):
        return e.value
    if isinstance(e, ast.UnaryOp) and isinstance(e.op, ast.USub):
        v = _const_value(e.operand, res)
        return -v if v is not None else None
    if res.fold is not None:
        try:
            v = res.fold(e)
            if isinstance(v, (int,)) and not isinstance(v, bool):
                return v
        except Exception:
            return None
    return None


def to_lin(e: ast.expr, res: Resolver, depth: int = 0) -> Lin:
    cv = _const_value(e, res)
    if cv is not None and float(cv).is_integer():
        return Lin({}, int(cv))
    if isinstance(e, ast.Name):
        d = res.definition(e.id)
        if d is not None and depth < 8:
            return to_lin(d, res, depth + 1)
        return Lin({res.atom(e): 1})
    if isinstance(e, ast.BinOp):
        if isinstance(e.op, ast.Add):
            return to_lin(e.left, res, depth) + to_lin(e.right, res, depth)
        if isinstance(e.op, ast.Sub):
            return to_lin(e.left, res, depth) - to_lin(e.right, res, depth)
        if isinstance(e.op, ast.Mult):
            l, r = to_lin(e.left, res, depth), to_lin(e.right, res, depth)
            if l.is_const():
                return r.scale(l.const)
            if r.is_const():
                return l.scale(r.const)
            return Lin({f'({_render(e.left, res, depth)})*({_render(e.right, res, depth)})': 1})
        if isinstance(e.op, ast.Mod):
            return Lin({f'mod({_render(e.left, res, depth)},{_render(e.right, res, depth)})': 1})
        if isinstance(e.op, ast.Pow):
            l = to_lin(e.left, res, depth)
            if l.is_const() and l.const == 2:
                return Lin({f'pow2({_render(e.right, res, depth)})': 1})
            return Lin({f'pow({_render(e.left, res, depth)},{_render(e.right, res, depth)})': 1})
        if isinstance(e.op, ast.LShift):
            l = to_lin(e.left, res, depth)
            if l.is_const():
                return Lin({f'pow2({_render(e.right, res, depth)})': l.const})
            return Lin({f'shl({_render(e.left, res, depth)},{_render(e.right, res, depth)})': 1})
        if isinstance(e.op, ast.FloorDiv):
            return Lin({f'floordiv({_render(e.left, res, depth)},{_render(e.right, res, depth)})': 1})
        if isinstance(e.op, ast.Div):
            return Lin({f'div({_render(e.left, res, depth)},{_render(e.right, res, depth)})': 1})
        if isinstance(e.op, ast.BitAnd):
            return Lin({f'and({_render(e.left, res, depth)},{_render(e.right, res, depth)})': 1})
        return Lin({res.atom(e): 1})
    if isinstance(e, ast.UnaryOp):
        if isinstance(e.op, ast.USub):
            return -to_lin(e.operand, res, depth)
        if isinstance(e.op, ast.UAdd):
            return to_lin(e.operand, res, depth)
    if isinstance(e, ast.Call) and isinstance(e.func, ast.Name) and e.func.id == 'int' and len(e.args) == 1:
        return to_lin(e.args[0], res, depth)
    if isinstance(e, ast.Call) and isinstance(e.func, ast.Name) and e.func.id == 'len' and len(e.args) == 1:
        return Lin({f'len({_render(e.args[0], res, depth)})': 1})
    return Lin({res.atom(e): 1})


def _render(e: ast.expr, res: Resolver, depth: int) -> str:
    try:
        return repr(to_lin(e, res, depth))
    except NotLinear:
        return res.atom(e)


# ---------------------------------------------------------------- literals and CNF

def cmp_literal(op: ast.cmpop, left: Lin, right: Lin):
    """Canonical literal for `left op right` over the integers:
    ('ge', key)  means form >= 0;  ('eq', key) form == 0;  ('ne', key) form != 0."""
    d = left - right
    if isinstance(op, ast.GtE):
        return ('ge', d.key())
    if isinstance(op, ast.Gt):
        return ('ge', (d + Lin({}, -1)).key())
    if isinstance(op, ast.LtE):
        return ('ge', (-d).key())
    if isinstance(op, ast.Lt):
        return ('ge', (-d + Lin({}, -1)).key())
    if isinstance(op, (ast.Eq, ast.NotEq)):
        k = d.key()
        nk = (-d).key()
        k = min(k, nk)
        return ('eq' if isinstance(op, ast.Eq) else 'ne', k)
    return None


def negate_literal(lit):
    kind = lit[0]
    if kind == 'ge':
        terms, const = lit[1]
        neg = Lin(dict(terms), const)
        neg = -neg + Lin({}, -1)
        return ('ge', neg.key())
    if kind == 'eq':
        return ('ne', lit[1])
    if kind == 'ne':
        return ('eq', lit[1])
    if kind in ('isnone', 'isinstance', 'in', 'truthy', 'opaque', 'call'):
        return lit[:-1] + (not lit[-1],)
    raise ValueError(lit)


def expr_literal(e: ast.expr, res: Resolver):
    """Literal(s) for an atomic boolean expression, as a list of alternatives in AND form:
    returns ('and', [lits]) or ('lit', lit)."""
    if isinstance(e, ast.Compare) and len(e.ops) == 1:
        # emptiness tests in all their spellings are one literal: truthy(X)
        t = _emptiness(e.left, e.ops[0], e.comparators[0])
        if t is not None:
            subj, nonempty = t
            return ('lit', ('truthy', _subject(subj, res), nonempty))
    if isinstance(e, ast.Call) and isinstance(e.func, ast.Name) and e.func.id == 'bool' and len(e.args) == 1 and not e.keywords:
        return expr_literal(e.args[0], res)
    if isinstance(e, ast.Compare):
        lits = []
        left = e.left
        for op, right in zip(e.ops, e.comparators):
            lit = None
            if isinstance(op, (ast.Is, ast.IsNot)) and isinstance(right, ast.Constant) and right.value is None:
                lit = ('isnone', _subject(left, res), isinstance(op, ast.Is))
            elif isinstance(op, (ast.In, ast.NotIn)):
                lit = ('in', _subject(left, res), _subject(right, res), isinstance(op, ast.In))
            elif isinstance(op, (ast.Eq, ast.NotEq)) and (_is_nonnumeric(left) or _is_nonnumeric(right)):
                a, b = sorted([_subject(left, res), _subject(right, res)])
                lit = ('opaque', f'{a} == {b}', isinstance(op, ast.Eq))
            else:
                try:
                    lit = cmp_literal(op, to_lin(left, res), to_lin(right, res))
                except NotLinear:
                    lit = None
                if lit is None:
                    lit = ('opaque', ast.unparse(ast.Compare(left=left, ops=[op], comparators=[right])), True)
            lits.append(lit)
            left = right
        if len(lits) == 1:
            return ('lit', lits[0])
        return ('and', lits)
    if isinstance(e, ast.Call) and isinstance(e.func, ast.Name) and e.func.id == 'isinstance' and len(e.args) == 2:
        return ('lit', ('isinstance', _subject(e.args[0], res), ast.unparse(e.args[1]), True))
    if isinstance(e, ast.Constant):
        return ('const', bool(e.value))
    if isinstance(e, ast.Call):
        return ('lit', ('call', _subject(e, res), True))
    return ('lit', ('truthy', _subject(e, res), True))


def _emptiness(left, op, right):
    """(subject, True) for "subject is not empty", (subject, False) for "is empty"; None if the comparison is something else."""
    def is_len(x):
        return isinstance(x, ast.Call) and isinstance(x.func, ast.Name) and x.func.id == 'len' and len(x.args) == 1

    def const(x, v):
        return isinstance(x, ast.Constant) and type(x.value) is type(v) and x.value == v
    flip = {ast.Gt: ast.Lt, ast.Lt: ast.Gt, ast.GtE: ast.LtE, ast.LtE: ast.GtE, ast.Eq: ast.Eq, ast.NotEq: ast.NotEq}
    if type(op) not in flip:
        return None
    if not is_len(left) and is_len(right):
        left, right, op = right, left, flip[type(op)]()
    if is_len(left):
        x = left.args[0]
        if const(right, 0):
            if isinstance(op, (ast.Gt, ast.NotEq)):
                return x, True
            if isinstance(op, (ast.Eq, ast.LtE)):
                return x, False
        if const(right, 1):
            if isinstance(op, ast.GtE):
                return x, True
            if isinstance(op, ast.Lt):
                return x, False
        return None
    # comparison with the empty string
    if const(left, '') and not const(right, ''):
        left, right = right, left
    if const(right, '') and isinstance(op, (ast.Eq, ast.NotEq)):
        return left, isinstance(op, ast.NotEq)
    return None


def _is_nonnumeric(e: ast.expr) -> bool:
    return isinstance(e, ast.Constant) and isinstance(e.value, (str, bytes))


def _subject(e: ast.expr, res: Resolver) -> str:
    if isinstance(e, ast.Name):
        d = res.definition(e.id)
        if d is not None:
            return _subject(d, res)
    return res.atom(e)


def to_cnf(e: ast.expr, polarity: bool, res: Resolver) -> list[frozenset]:
    """CNF (list of clauses; clause = frozenset of literals) of `e` if polarity else `not e`."""
    if isinstance(e, ast.UnaryOp) and isinstance(e.op, ast.Not):
        return to_cnf(e.operand, not polarity, res)
    if isinstance(e, ast.BoolOp):
        is_and = isinstance(e.op, ast.And)
        if not polarity:
            is_and = not is_and
        parts = [to_cnf(v, polarity, res) for v in e.values]
        if is_and:
            out = []
            for p in parts:
                out.extend(p)
            return out
        # OR of CNFs: distribute (bounded)
        acc = [frozenset()]
        for p in parts:
            new = []
            for c1 in acc:
                for c2 in p:
                    new.append(c1 | c2)
                    if len(new) > 256:
                        return [frozenset({('opaque', ast.unparse(e), polarity)})]
            acc = new
        return acc
    # membership in a literal collection is a disjunction of equalities
    if isinstance(e, ast.Compare) and len(e.ops) == 1 and isinstance(e.ops[0], (ast.In, ast.NotIn)) \
            and isinstance(e.comparators[0], (ast.List, ast.Tuple, ast.Set)) and 1 <= len(e.comparators[0].elts) <= 8:
        alts = [ast.Compare(left=e.left, ops=[ast.Eq()], comparators=[x]) for x in e.comparators[0].elts]
        eq = ast.BoolOp(op=ast.Or(), values=alts) if len(alts) > 1 else alts[0]
        return to_cnf(eq, polarity if isinstance(e.ops[0], ast.In) else not polarity, res)
    kind = expr_literal(e, res)
    if kind[0] == 'const':
        v = kind[1] if polarity else not kind[1]
        return [] if v else [frozenset()]
    if kind[0] == 'lit':
        lit = kind[1] if polarity else negate_literal(kind[1])
        return [frozenset({lit})]
    # chained comparison: conjunction of literals
    lits = kind[1]
    if polarity:
        return [frozenset({lit}) for lit in lits]
    return [frozenset(negate_literal(lit) for lit in lits)]


def facts_cnf(facts: list[tuple[ast.expr, bool, int]], res: Resolver) -> list[frozenset]:
    out = []
    for test, pol, _ in facts:
        out.extend(to_cnf(test, pol, res))
    return out


def clause_implies(clauses: list[frozenset], required, side_ok=lambda lit: False) -> bool:
    """Some clause contains `required` and all its other literals satisfy side_ok (e.g. `x is None`)."""
    for c in clauses:
        if required in c and all(side_ok(l) for l in c if l != required):
            return True
    return False


def ge_literal(form: Lin):
    return ('ge', form.key())


def describe_literal(lit) -> str:
    if lit[0] in ('ge', 'eq', 'ne'):
        terms, const = lit[1]
        s = repr(Lin(dict(terms), const))
        return f'{s} {">=" if lit[0] == "ge" else ("==" if lit[0] == "eq" else "!=")} 0'
    return str(lit)
