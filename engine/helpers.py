"""Helpers shared by the rule modules."""
from __future__ import annotations

import ast

from .index import FuncInfo, ClassInfo, AnalysisError
from .lin import Resolver, to_lin, Lin, facts_cnf, to_cnf, clause_implies, cmp_literal, describe_literal
from .cfg import CFG, is_sys_exit_call, assigned_names
from .types import bind_args, CallGraph


# ------------------------------------------------------------------ resolver with property aliasing

def trivial_getters(ctx, c: ClassInfo) -> dict[str, str]:
    """Properties of class c (incl. inherited) whose getter is `return self._x`: {prop: '_x'}."""
    cache = ctx.__dict__.setdefault('_trivial_getters', {})
    if c.qualname in cache:
        return cache[c.qualname]
    out = {}
    for k in reversed(c.mro()):
        for name, f in k.methods.items():
            if f.kind in ('property', 'cached_property'):
                body = [s for s in f.node.body if not (isinstance(s, ast.Expr) and isinstance(s.value, ast.Constant))]
                if len(body) == 1 and isinstance(body[0], ast.Return) and isinstance(body[0].value, ast.Attribute) \
                        and isinstance(body[0].value.value, ast.Name) and body[0].value.value.id == 'self':
                    out[name] = body[0].value.attr
                else:
                    out.pop(name, None)
    cache[c.qualname] = out
    return out


class RepoResolver(Resolver):
    """Resolver that renders `x.prop` as `x._field` when prop is a trivial getter of x's static type,
    so `self.start` and `self._start` are the same atom."""

    def __init__(self, ctx, fn: FuncInfo, inline: bool = True):
        def fold(e):
            return ctx.fold.fold(e, fn.module, fn.cls)
        super().__init__(fn.node, inline=inline, fold=fold)
        self.ctx = ctx
        self.fn = fn
        self._env = None

    def _canon(self, e: ast.expr) -> ast.expr:
        ctx = self.ctx

        class Tr(ast.NodeTransformer):
            def visit_Attribute(tr, node):
                node = ast.Attribute(value=tr.visit(node.value), attr=node.attr, ctx=ast.Load())
                return node
        # find property reads bottom-up
        if self._env is None:
            self._env = ctx.types.env(self.fn)

        def rec(node):
            if isinstance(node, ast.Attribute):
                base = rec(node.value)
                new = ast.Attribute(value=base, attr=node.attr, ctx=ast.Load())
                try:
                    ts = ctx.types.type_of(node.value, self._env)
                except Exception:
                    ts = frozenset()
                fields = set()
                for t in ts:
                    if t[0] == 'inst' and t[1] in ctx.repo.classes:
                        c = ctx.repo.classes[t[1]]
                        # all overriding getters must be trivial on the same field
                        impls = [g for g in c.implementations(node.attr) if g.kind in ('property', 'cached_property')]
                        if impls:
                            fs = set()
                            for g in impls:
                                fs.add(trivial_getters(ctx, g.cls).get(node.attr) if g.cls.methods.get(node.attr) is g else None)
                            fields |= fs
                        else:
                            fields.add(None)
                    else:
                        fields.add(None)
                if len(fields) == 1 and None not in fields:
                    new = ast.Attribute(value=base, attr=fields.pop(), ctx=ast.Load())
                return new
            if isinstance(node, ast.Call):
                return ast.Call(func=rec(node.func), args=[rec(a) for a in node.args],
                                keywords=[ast.keyword(arg=k.arg, value=rec(k.value)) for k in node.keywords])
            if isinstance(node, ast.Subscript):
                return ast.Subscript(value=rec(node.value), slice=node.slice, ctx=ast.Load())
            return node
        return rec(e)

    def atom(self, e: ast.expr) -> str:
        try:
            e2 = self._canon(e)
        except Exception:
            e2 = e
        return ast.unparse(e2)


def resolver(ctx, fn: FuncInfo, inline: bool = True) -> RepoResolver:
    return RepoResolver(ctx, fn, inline)


# ------------------------------------------------------------------------ CFG facts

def facts_at(ctx, fn: FuncInfo, node: ast.AST, res: Resolver | None = None) -> list[frozenset]:
    g = ctx.cfg(fn)
    res = res or resolver(ctx, fn)
    n = g.node_of(node)
    return facts_cnf(g.branch_facts(n), res)


def lit_cmp(ctx, fn: FuncInfo, text: str, res: Resolver | None = None):
    """Canonical literal of a comparison written as Python text over the function's own names,
    e.g. lit_cmp(ctx, fn, 'value >= self._start')."""
    res = res or resolver(ctx, fn)
    e = ast.parse(text, mode='eval').body
    cl = to_cnf(e, True, res)
    if len(cl) != 1 or len(cl[0]) != 1:
        raise AnalysisError(f'not a single literal: {text}')
    return next(iter(cl[0]))


def isnone_side(lit) -> bool:
    return lit[0] == 'isnone' and lit[-1] is True


def guarded(ctx, fn: FuncInfo, effect: ast.AST, required_text: str, side_ok=isnone_side, res=None) -> bool:
    """The facts established by the branches dominating `effect` contain the literal `required_text`
    (possibly in a clause whose other literals are `x is None` escapes)."""
    res = res or resolver(ctx, fn)
    cl = facts_at(ctx, fn, effect, res)
    return clause_implies(cl, lit_cmp(ctx, fn, required_text, res), side_ok)


def describe_facts(cl: list[frozenset]) -> str:
    return ' AND '.join('(' + ' OR '.join(sorted(describe_literal(l) for l in c)) + ')' for c in cl) or 'TRUE'


# ------------------------------------------------------------------------ AST search

def walk_no_nested(node: ast.AST):
    """ast.walk that does not descend into nested function/class definitions."""
    todo = [node]
    first = True
    while todo:
        n = todo.pop()
        if not first and isinstance(n, (ast.FunctionDef, ast.AsyncFunctionDef, ast.ClassDef)):
            continue
        first = False
        yield n
        todo.extend(ast.iter_child_nodes(n))


def calls(fn_node: ast.AST, attr: str | None = None, name: str | None = None) -> list[ast.Call]:
    out = []
    for n in ast.walk(fn_node):
        if isinstance(n, ast.Call):
            if attr is not None and isinstance(n.func, ast.Attribute) and n.func.attr == attr:
                out.append(n)
            elif name is not None and isinstance(n.func, ast.Name) and n.func.id == name:
                out.append(n)
            elif attr is None and name is None:
                out.append(n)
    out.sort(key=lambda c: (c.lineno, c.col_offset))
    return out


def calls_to(ctx, fn: FuncInfo, callee_keys: set[str]) -> list[tuple[ast.AST, FuncInfo]]:
    """Call sites (or property accesses) in fn that resolve to one of the given functions."""
    out = []
    for e in ctx.cg.callees(fn):
        if CallGraph.key(e.callee) in callee_keys:
            out.append((e.node, e.callee))
    out.sort(key=lambda x: (getattr(x[0], 'lineno', 0), getattr(x[0], 'col_offset', 0)))
    return out


def self_attr_stores(fn_node: ast.AST, attr: str | None = None) -> list[tuple[ast.stmt, ast.Attribute, ast.expr | None]]:
    """Statements storing to self.<attr> (any attr when None): (stmt, target, value)."""
    out = []
    for n in ast.walk(fn_node):
        targets = []
        val = None
        if isinstance(n, ast.Assign):
            targets, val = n.targets, n.value
        elif isinstance(n, ast.AnnAssign):
            targets, val = [n.target], n.value
        elif isinstance(n, ast.AugAssign):
            targets, val = [n.target], n.value
        for t in targets:
            for sub in ([t] if not isinstance(t, (ast.Tuple, ast.List)) else t.elts):
                if isinstance(sub, ast.Attribute) and isinstance(sub.value, ast.Name) and sub.value.id == 'self' \
                        and (attr is None or sub.attr == attr):
                    out.append((n, sub, val))
    return out


def attr_writers(ctx, attr: str, receiver_class: ClassInfo | None = None) -> list[tuple[FuncInfo, ast.AST]]:
    """Every function in the repository that stores to `<expr>.<attr>` (optionally only when the receiver's
    static type is (a subclass of) receiver_class or unknown)."""
    out = []
    for fn in ctx.repo.all_functions():
        for n in ast.walk(fn.node):
            if isinstance(n, ast.Attribute) and n.attr == attr and isinstance(n.ctx, (ast.Store, ast.Del)):
                if receiver_class is not None:
                    ts = ctx.types.type_of(n.value, ctx.types.env(fn))
                    classes = [ctx.repo.classes[t[1]] for t in ts if t[0] == 'inst' and t[1] in ctx.repo.classes]
                    if classes and not any(c.is_subclass_of(receiver_class) or receiver_class.is_subclass_of(c) for c in classes):
                        continue
                out.append((fn, n))
    return out


def returns(fn: FuncInfo) -> list[ast.Return]:
    return [n for n in walk_no_nested(fn.node) if isinstance(n, ast.Return)]


def is_abort_stmt(st: ast.stmt) -> bool:
    return isinstance(st, ast.Raise) or (isinstance(st, ast.Expr) and is_sys_exit_call(st.value))


def body_only_aborts(body: list[ast.stmt]) -> bool:
    """The block does nothing observable but abort (possibly after building a message)."""
    if not body:
        return False
    for st in body[:-1]:
        if not isinstance(st, (ast.Assign, ast.Expr, ast.Pass)):
            return False
    return is_abort_stmt(body[-1])


def const_str(e: ast.expr) -> str | None:
    return e.value if isinstance(e, ast.Constant) and isinstance(e.value, str) else None


def unparse(e) -> str:
    try:
        return ast.unparse(e)
    except Exception:
        return '?'


def arg_of(call: ast.Call, fn: FuncInfo, param: str) -> ast.expr | None:
    return bind_args(call, fn).get(param)


def stmt_of(fn: FuncInfo, node: ast.AST) -> ast.stmt | None:
    """The innermost statement of fn containing node."""
    best = None
    for st in ast.walk(fn.node):
        if isinstance(st, ast.stmt):
            for sub in ast.walk(st):
                if sub is node:
                    if best is None or (st.lineno, -st.end_lineno) >= (best.lineno, -best.end_lineno):
                        best = st
                    break
    return best


def parent_map(root: ast.AST) -> dict[int, ast.AST]:
    pm = {}
    for n in ast.walk(root):
        for c in ast.iter_child_nodes(n):
            pm[id(c)] = n
    return pm


def reaching_def(ctx, fn: FuncInfo, name: str, at: ast.AST) -> ast.expr | None:
    """The unique definition `name = <expr>` that reaches `at` on every path (closest dominating assignment
    with no other assignment of `name` in between); None if there is no such unique definition."""
    g = ctx.cfg(fn)
    use = g.node_of(at)
    cands = []
    others = []
    for n in g.nodes:
        if n.kind == 'stmt' and isinstance(n.stmt, (ast.Assign, ast.AnnAssign, ast.AugAssign)):
            tg = n.stmt.targets if isinstance(n.stmt, ast.Assign) else [n.stmt.target]
            names = set()
            for t in tg:
                for sub in ast.walk(t):
                    if isinstance(sub, ast.Name) and isinstance(sub.ctx, ast.Store):
                        names.add(sub.id)
            if name in names:
                simple = isinstance(n.stmt, ast.Assign) and len(tg) == 1 and isinstance(tg[0], ast.Name) \
                    or (isinstance(n.stmt, ast.AnnAssign) and n.stmt.value is not None)
                if simple and n.id != use and g.dominates(n.id, use):
                    cands.append(n)
                else:
                    others.append(n)
        elif n.kind == 'iter':
            for sub in ast.walk(n.stmt.target):
                if isinstance(sub, ast.Name) and sub.id == name:
                    others.append(n)
    if not cands:
        return None
    last = cands[0]
    for c in cands[1:]:
        if g.dominates(last.id, c.id):
            last = c
    # another definition kills `last` only if it lies on a path last -> use that does not pass through `last` again
    avoid = frozenset({last.id})
    fwd = set()
    todo = list(g.succ[last.id])
    while todo:
        x = todo.pop()
        if x in fwd or x in avoid:
            continue
        fwd.add(x)
        todo.extend(g.succ[x])
    for o in others + [c for c in cands if c is not last]:
        if o.id != use and o.id in fwd and (g.reaches(o.id, use, avoiding=avoid) or use in g.succ[o.id]):
            return None
    return last.stmt.value


def deref(ctx, fn: FuncInfo, e: ast.expr, at: ast.AST | None = None, depth: int = 4) -> ast.expr:
    """Follow local names to their unique reaching definition (at most `depth` steps)."""
    at = at if at is not None else e
    while depth > 0 and isinstance(e, ast.Name):
        d = reaching_def(ctx, fn, e.id, at)
        if d is None:
            break
        e = d
        depth -= 1
    return e


def filter_facts_at(ctx, fn: FuncInfo, node: ast.AST, res: Resolver | None = None) -> list[frozenset]:
    """Like facts_at, but only the branch facts that *select* (the other branch continues normally);
    facts whose other branch can only abort are guards, not filters, and are left out."""
    g = ctx.cfg(fn)
    res = res or resolver(ctx, fn)
    n = g.node_of(node)
    keep = []
    for test, pol, tid in g.branch_facts(n):
        other = next(s for s in g.succ[tid] if g.nodes[s].kind == 'branch' and g.nodes[s].polarity != pol)
        if g.exit in g.reachable_from(other):
            keep.append((test, pol, tid))
    return facts_cnf(keep, res)


def path_fact_sets(ctx, fn: FuncInfo, node: ast.AST, res: Resolver | None = None, limit: int = 4000, via: ast.AST | None = None) -> list[list[frozenset]]:
    """Branch facts along every acyclic CFG path from the function entry to `node`: one CNF per path."""
    g = ctx.cfg(fn)
    res = res or resolver(ctx, fn)
    target = node if isinstance(node, int) else g.node_of(node)
    # nodes that can reach the target
    back = set()
    todo = [target]
    while todo:
        x = todo.pop()
        if x in back:
            continue
        back.add(x)
        todo.extend(g.pred[x])
    out = []
    cache = {}

    def lits(nid):
        nd = g.nodes[nid]
        if nd.kind == 'branch' and g.nodes[nd.test].kind == 'test':
            k = (nd.test, nd.polarity)
            if k not in cache:
                cache[k] = to_cnf(g.nodes[nd.test].expr, nd.polarity, res)
            return cache[k]
        return []
    via_id = g.node_of(via) if via is not None else None
    stack = [(g.entry, [], frozenset([g.entry]))]
    while stack:
        cur, facts, seen = stack.pop()
        if cur == target:
            if via_id is not None and via_id not in seen:
                continue
            out.append(facts)
            if len(out) > limit:
                raise AnalysisError(f'{fn.qualname}: too many paths')
            continue
        for s in g.succ[cur]:
            if s in seen or s not in back:
                continue
            stack.append((s, facts + lits(s), seen | {s}))
    return out


def all_paths_imply(ctx, fn: FuncInfo, node: ast.AST, required, side_ok=lambda l: False, res: Resolver | None = None, via: ast.AST | None = None) -> tuple[bool, str]:
    """On every acyclic path to `node`: the facts contain `required` (possibly in a clause whose other literals are
    side_ok escapes), or a side_ok literal holds outright on that path."""
    paths = path_fact_sets(ctx, fn, node, res, via=via)
    if not paths:
        return (True, 'no path through the construction site') if via is not None else (False, 'node unreachable')
    for cl in paths:
        if clause_implies(cl, required, side_ok):
            continue
        if any(len(c) == 1 and side_ok(next(iter(c))) for c in cl):
            continue
        return False, f'path with facts {describe_facts(cl)}'
    return True, f'{len(paths)} path(s)'


# ------------------------------------------------------------------ shape-independent views of common constructions

class _Rename(ast.NodeTransformer):
    def __init__(self, m):
        self.m = m

    def visit_Name(self, node):
        return ast.copy_location(ast.Name(id=self.m[node.id], ctx=node.ctx), node) if node.id in self.m else node


def _canon_elt(elt: ast.expr, target: ast.expr) -> str:
    """Text of `elt` with the bound variable(s) of `target` renamed to _0, _1, ..."""
    names = [n.id for n in ast.walk(target) if isinstance(n, ast.Name)]
    m = {n: f'_{i}' for i, n in enumerate(names)}
    import copy as _copy
    return ast.unparse(_Rename(m).visit(_copy.deepcopy(elt)))


def sum_view(e: ast.expr):
    """(iterable text, summand text over `_0`) for `sum(f(x) for x in IT)`, `sum([..])`, `reduce(lambda a, b: a + f(b), IT, 0)`;
    None when `e` is not a plain sum over one iterable."""
    if isinstance(e, ast.Call) and unparse(e.func) == 'sum' and len(e.args) >= 1 and isinstance(e.args[0], (ast.GeneratorExp, ast.ListComp)):
        c = e.args[0]
        if len(c.generators) == 1 and not c.generators[0].ifs and (len(e.args) == 1 or unparse(e.args[1]) == '0'):
            return unparse(c.generators[0].iter), _canon_elt(c.elt, c.generators[0].target)
    if isinstance(e, ast.Call) and unparse(e.func) in ('reduce', 'functools.reduce') and len(e.args) == 3 and unparse(e.args[2]) == '0' \
            and isinstance(e.args[0], ast.Lambda) and len(e.args[0].args.args) == 2:
        acc, x = (a.arg for a in e.args[0].args.args)
        b = e.args[0].body
        if isinstance(b, ast.BinOp) and isinstance(b.op, ast.Add):
            for l, r in ((b.left, b.right), (b.right, b.left)):
                if isinstance(l, ast.Name) and l.id == acc and not any(isinstance(n, ast.Name) and n.id == acc for n in ast.walk(r)):
                    return unparse(e.args[1]), _canon_elt(r, ast.Name(id=x, ctx=ast.Store()))
    return None


class SeqView:
    def __init__(self, iter_, target, elt, conds, site):
        self.iter, self.target, self.elt, self.conds, self.site = iter_, target, elt, conds, site

    @property
    def iter_text(self):
        return unparse(self.iter)


def seq_view(ctx, fn: FuncInfo, name: str):
    """How the list `name` is built in `fn`: from a comprehension assigned to it, or from `name = []` plus one loop that
    appends to it. Returns SeqView(iterable, loop target, appended element with loop-local temporaries substituted, selection
    conditions, node) or None."""
    n_defs = 0
    for n in walk_no_nested(fn.node):
        val = n.value if isinstance(n, (ast.Assign, ast.AnnAssign)) else None
        tgt = (n.targets[0] if isinstance(n, ast.Assign) and len(n.targets) == 1 else getattr(n, 'target', None)) if val is not None else None
        if tgt is not None and unparse(tgt) == name:
            n_defs += 1
    if n_defs > 1:
        return None          # bound in several places: not one construction
    for n in walk_no_nested(fn.node):
        val = n.value if isinstance(n, (ast.Assign, ast.AnnAssign)) else None
        tgt = (n.targets[0] if isinstance(n, ast.Assign) and len(n.targets) == 1 else getattr(n, 'target', None)) if val is not None else None
        if tgt is not None and unparse(tgt) == name and isinstance(val, ast.ListComp) and len(val.generators) == 1:
            g = val.generators[0]
            return SeqView(g.iter, g.target, val.elt, list(g.ifs), n)
    apps = [c for c in ast.walk(fn.node) if isinstance(c, ast.Call) and isinstance(c.func, ast.Attribute) and c.func.attr == 'append'
            and unparse(c.func.value) == name and len(c.args) == 1]
    if len(apps) != 1:
        return None
    pm = parent_map(fn.node)
    loop = pm.get(id(apps[0]))
    while loop is not None and not isinstance(loop, ast.For):
        loop = pm.get(id(loop))
    if loop is None:
        return None
    elt = deref(ctx, fn, apps[0].args[0], apps[0], depth=6)
    # substitute loop-local single definitions inside the element
    import copy as _copy
    elt = _copy.deepcopy(elt)
    for _ in range(4):
        changed = False
        for sub in list(ast.walk(elt)):
            if isinstance(sub, ast.Name):
                d = None
                for st in walk_no_nested(loop):
                    if isinstance(st, ast.Assign) and len(st.targets) == 1 and unparse(st.targets[0]) == sub.id:
                        d = st.value
                if d is not None:
                    class R(ast.NodeTransformer):
                        def visit_Name(self_, node):
                            return _copy.deepcopy(d) if node.id == sub.id else node
                    elt = R().visit(elt)
                    changed = True
                    break
        if not changed:
            break
    conds = filter_facts_at(ctx, fn, apps[0])
    loop_conds = [c for c in conds]
    return SeqView(loop.iter, loop.target, elt, loop_conds, loop)


def fmt_view(e: ast.expr):
    """A formatted string as [('lit', text) | ('field', expr, spec)] for an f-string, a `'...'.format(...)` call or a plain
    constant; None for anything else. Nested fields inside a format spec are given as text with the expressions substituted."""
    import string as _string
    if isinstance(e, ast.Constant) and isinstance(e.value, str):
        return [('lit', e.value)]
    if isinstance(e, ast.BinOp) and isinstance(e.op, ast.Add):
        # string concatenation: the operands side by side (a non-literal operand is a field without a format spec)
        parts = []
        for side in (e.left, e.right):
            v = fmt_view(side)
            parts += v if v is not None else [('field', side, '')]
        # merge adjacent literals
        out = []
        for p_ in parts:
            if out and p_[0] == 'lit' and out[-1][0] == 'lit':
                out[-1] = ('lit', out[-1][1] + p_[1])
            else:
                out.append(p_)
        return out
    if isinstance(e, ast.JoinedStr):
        out = []
        for v in e.values:
            if isinstance(v, ast.Constant):
                out.append(('lit', v.value))
            elif isinstance(v, ast.FormattedValue):
                spec = ''
                if v.format_spec is not None:
                    parts = fmt_view(v.format_spec) or []
                    spec = ''.join(p[1] if p[0] == 'lit' else '{' + unparse(p[1]) + '}' for p in parts)
                out.append(('field', v.value, spec))
        return out
    if isinstance(e, ast.Call) and isinstance(e.func, ast.Attribute) and e.func.attr == 'format' and isinstance(e.func.value, ast.Constant) \
            and isinstance(e.func.value.value, str):
        kw = {k.arg: k.value for k in e.keywords if k.arg}
        pos = list(e.args)
        out = []
        auto = 0

        def lookup(name):
            nonlocal auto
            if name == '':
                name = str(auto)
                auto += 1
            if name.isdigit():
                return pos[int(name)] if int(name) < len(pos) else None
            return kw.get(name)
        try:
            for lit, field, spec, conv in _string.Formatter().parse(e.func.value.value):
                if lit:
                    out.append(('lit', lit))
                if field is not None:
                    base = field.split('.')[0].split('[')[0]
                    ex = lookup(base)
                    if ex is None or base != field:
                        return None
                    s2 = ''
                    for l2, f2, sp2, c2 in _string.Formatter().parse(spec or ''):
                        s2 += l2 or ''
                        if f2 is not None:
                            e2 = lookup(f2)
                            if e2 is None:
                                return None
                            s2 += '{' + unparse(e2) + '}'
                    out.append(('field', ex, s2))
        except (ValueError, IndexError):
            return None
        return out
    return None


def membership_view(test: ast.expr):
    """(subject text, [element expr, ...]) for `s in [a, b]`, `s in (a, b)`, `s == a`, `s == a or s == b` (same subject);
    None for anything else."""
    if isinstance(test, ast.BoolOp) and isinstance(test.op, ast.Or):
        parts = [membership_view(v) for v in test.values]
        if all(p is not None for p in parts) and len({p[0] for p in parts}) == 1:
            return parts[0][0], [e for p in parts for e in p[1]]
        return None
    if isinstance(test, ast.Compare) and len(test.ops) == 1:
        if isinstance(test.ops[0], ast.In) and isinstance(test.comparators[0], (ast.List, ast.Tuple, ast.Set)):
            return unparse(test.left), list(test.comparators[0].elts)
        if isinstance(test.ops[0], ast.Eq):
            return unparse(test.left), [test.comparators[0]]
    return None


def folded_chain(fn: FuncInfo) -> list[ast.stmt]:
    """The function body (a copy) with guard clauses (`if c: return a` / `return b`) folded back into one if/elif/else chain, so
    that a rule reads an elif chain and a sequence of early returns as the same decision list."""
    import copy
    from engine.normalize import _structure_returns
    body = [s_ for s_ in copy.deepcopy(fn.node.body) if not (isinstance(s_, ast.Expr) and isinstance(s_.value, ast.Constant))]
    return _structure_returns(body) or body


def source_order(root: ast.AST) -> dict[int, int]:
    """id(node) -> position in a pre-order walk of `root` (the order the code is written in; line numbers alone do not order
    statements that the normaliser moved to one line)."""
    out: dict[int, int] = {}

    def rec(n):
        out[id(n)] = len(out)
        for c in ast.iter_child_nodes(n):
            rec(c)
    rec(root)
    return out
