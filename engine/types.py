"""Flow-insensitive type facts and resolved call graph for the analysed repository.

Types are derived from the repository's own annotations (parameters, returns, attributes),
constructor calls, isinstance narrowing and container element types. Property reads are call
edges to the getter (and its overrides, by class-hierarchy analysis); stores to a property
with a setter are call edges to the setter.
"""
from __future__ import annotations

import ast
from dataclasses import dataclass

from .index import Repo, Module, ClassInfo, FuncInfo, AnalysisError

EXT = lambda name: ('ext', name)  # noqa: E731
_BUILTIN_TYPES = {'str', 'int', 'bool', 'float', 'bytes', 'bytearray', 'object', 'None'}
_CONTAINERS = {'list': 'list', 'List': 'list', 'set': 'set', 'Set': 'set', 'frozenset': 'set',
               'dict': 'dict', 'Dict': 'dict', 'tuple': 'tuple', 'Tuple': 'tuple'}


def inst(c: ClassInfo):
    return ('inst', c.qualname)


@dataclass
class CallEdge:
    caller: FuncInfo
    callee: FuncInfo
    node: ast.AST          # ast.Call, or ast.Attribute for property get/set
    how: str               # call | ctor | property | setter | super
    resolved_by: str       # type | name

    @property
    def line(self):
        return getattr(self.node, 'lineno', None)


class FuncEnv:
    """Local variable types of one function (flow-insensitive)."""

    def __init__(self, types: 'Types', fn: FuncInfo):
        self.types = types
        self.fn = fn
        self.vars: dict[str, frozenset] = {}
        self._build()

    _changed = False

    def _add(self, name: str, ts):
        if not ts:
            return
        cur = self.vars.get(name, frozenset())
        new = cur | frozenset(ts)
        if new != cur:
            self.vars[name] = new
            self._changed = True

    def _build(self):
        T = self.types
        fn = self.fn
        m, cls = fn.module, fn.cls
        params = fn.params
        for i, p in enumerate(params):
            if i == 0 and fn.has_receiver:
                if p.arg == 'self':
                    self._add_init(p.arg, {inst(cls)})
                else:
                    self._add_init(p.arg, {('cls', cls.qualname, 'open')})
                continue
            if p.annotation is not None:
                self._add_init(p.arg, T.ann_to_types(p.annotation, m, cls))
        for p in (fn.node.args.vararg, fn.node.args.kwarg):
            if p is not None:
                self._add_init(p.arg, {EXT('args')})
        body = fn.node.body
        for _ in range(4):
            self._changed = False
            for st in body:
                for node in ast.walk(st):
                    self._visit(node)
            if not self._changed:
                break

    def _add_init(self, name, ts):
        self.vars[name] = frozenset(ts)

    def _visit(self, node):
        T = self.types
        if isinstance(node, ast.Assign):
            ts = T.type_of(node.value, self)
            for t in node.targets:
                self._bind_target(t, ts)
        elif isinstance(node, ast.AnnAssign):
            if isinstance(node.target, ast.Name):
                self._add(node.target.id, T.ann_to_types(node.annotation, self.fn.module, self.fn.cls))
                if node.value is not None:
                    self._add(node.target.id, T.type_of(node.value, self))
        elif isinstance(node, (ast.For, ast.comprehension)):
            it = node.iter
            self._bind_target(node.target, T.elem_types(it, self))
        elif isinstance(node, ast.With):
            for item in node.items:
                if item.optional_vars is not None:
                    self._bind_target(item.optional_vars, T.type_of(item.context_expr, self))
        elif isinstance(node, ast.NamedExpr):
            self._bind_target(node.target, T.type_of(node.value, self))
        elif isinstance(node, ast.ExceptHandler):
            if node.name:
                self._add(node.name, {EXT('exception')})
        elif isinstance(node, ast.Call):
            # isinstance narrowing (flow-insensitive: adds the tested class as a possibility)
            if isinstance(node.func, ast.Name) and node.func.id == 'isinstance' and len(node.args) == 2 \
                    and isinstance(node.args[0], ast.Name):
                for c in T.classes_in_expr(node.args[1], self.fn.module, self.fn.cls):
                    self._add(node.args[0].id, {inst(c)})
            # lambda parameters of sort/sorted/max/min keys take the element type
            key = next((k.value for k in node.keywords if k.arg == 'key'), None)
            if isinstance(key, ast.Lambda) and key.args.args:
                src = None
                if isinstance(node.func, ast.Attribute) and node.func.attr == 'sort':
                    src = node.func.value
                elif isinstance(node.func, ast.Name) and node.func.id in ('sorted', 'max', 'min') and node.args:
                    src = node.args[0]
                if src is not None:
                    self._add(key.args.args[0].arg, T.elem_types(src, self))
            if isinstance(node.func, ast.Name) and node.func.id == 'reduce' and node.args \
                    and isinstance(node.args[0], ast.Lambda) and len(node.args) >= 2:
                lam = node.args[0]
                if len(lam.args.args) == 2:
                    self._add(lam.args.args[1].arg, T.elem_types(node.args[1], self))

    def _bind_target(self, target, ts):
        if isinstance(target, ast.Name):
            self._add(target.id, ts)
        elif isinstance(target, (ast.Tuple, ast.List)):
            for i, el in enumerate(target.elts):
                sub = set()
                for t in ts:
                    if t[0] == 'tuple' and len(t) > 1 + i:
                        sub |= set(t[1 + i])
                self._bind_target(el, sub)

    def get(self, name: str) -> frozenset:
        return self.vars.get(name, frozenset())


class Types:
    def __init__(self, repo: Repo):
        self.repo = repo
        self._envs: dict[str, FuncEnv] = {}
        self._attr_cache: dict = {}
        self._attr_active: set = set()
        self._env_active: set = set()

    # ------------------------------------------------------------ annotations
    def classes_in_expr(self, e: ast.expr, m: Module, cls: ClassInfo | None) -> list[ClassInfo]:
        out = []
        if isinstance(e, (ast.Tuple, ast.List)):
            for x in e.elts:
                out += self.classes_in_expr(x, m, cls)
            return out
        s = self.repo.resolve_expr_to_symbol(m, e, cls)
        if isinstance(s, ClassInfo):
            out.append(s)
        return out

    def ann_to_types(self, a: ast.expr, m: Module, cls: ClassInfo | None) -> frozenset:
        if a is None:
            return frozenset()
        if isinstance(a, ast.Constant):
            if a.value is None:
                return frozenset({EXT('None')})
            if isinstance(a.value, str):
                try:
                    return self.ann_to_types(ast.parse(a.value, mode='eval').body, m, cls)
                except SyntaxError:
                    return frozenset()
            return frozenset()
        if isinstance(a, ast.BinOp) and isinstance(a.op, ast.BitOr):
            return self.ann_to_types(a.left, m, cls) | self.ann_to_types(a.right, m, cls)
        if isinstance(a, ast.Subscript):
            base = a.value
            bname = base.id if isinstance(base, ast.Name) else (base.attr if isinstance(base, ast.Attribute) else None)
            args = list(a.slice.elts) if isinstance(a.slice, ast.Tuple) else [a.slice]
            if bname in _CONTAINERS:
                kind = _CONTAINERS[bname]
                if kind in ('list', 'set'):
                    return frozenset({(kind, self.ann_to_types(args[0], m, cls))})
                if kind == 'dict':
                    k = self.ann_to_types(args[0], m, cls)
                    v = self.ann_to_types(args[1], m, cls) if len(args) > 1 else frozenset()
                    return frozenset({('dict', k, v)})
                if kind == 'tuple':
                    return frozenset({('tuple',) + tuple(self.ann_to_types(x, m, cls) for x in args)})
            if bname in ('type', 'Type'):
                out = set()
                for t in self.ann_to_types(args[0], m, cls):
                    if t[0] == 'inst':
                        out.add(('cls', t[1], 'open'))
                return frozenset(out)
            if bname == 'Optional':
                return self.ann_to_types(args[0], m, cls) | {EXT('None')}
            if bname == 'Union':
                out = frozenset()
                for x in args:
                    out |= self.ann_to_types(x, m, cls)
                return out
            return frozenset({EXT(ast.unparse(base))})
        if isinstance(a, ast.Name):
            if a.id in _BUILTIN_TYPES:
                return frozenset({EXT(a.id)})
            if a.id in _CONTAINERS:
                kind = _CONTAINERS[a.id]
                if kind == 'dict':
                    return frozenset({('dict', frozenset(), frozenset())})
                if kind == 'tuple':
                    return frozenset({('tuple',)})
                return frozenset({(kind, frozenset())})
        s = self.repo.resolve_expr_to_symbol(m, a, cls)
        if isinstance(s, ClassInfo):
            return frozenset({inst(s)})
        try:
            return frozenset({EXT(ast.unparse(a))})
        except Exception:
            return frozenset()

    # ---------------------------------------------------------------- envs
    def env(self, fn: FuncInfo) -> FuncEnv:
        key = fn.qualname + ('#setter' if fn.kind == 'setter' else '')
        if key not in self._envs:
            e = FuncEnv.__new__(FuncEnv)
            e.types, e.fn, e.vars = self, fn, {}
            self._envs[key] = e      # registered before building: recursive demands see the partial env
            e._build()
        return self._envs[key]

    def warm(self):
        """Build every environment twice: the second pass sees complete attribute types from the first."""
        for _ in range(2):
            self._attr_cache.clear()
            old = self._envs
            self._envs = {}
            self._prev_envs = old
            for fn in self.repo.all_functions():
                self.env(fn)
        self._attr_cache.clear()
        self._warm = True

    def return_types(self, fn: FuncInfo) -> frozenset:
        if fn.node.returns is not None:
            return self.ann_to_types(fn.node.returns, fn.module, fn.cls)
        return frozenset()

    # ---------------------------------------------------------- attributes
    def attr_types(self, c: ClassInfo, name: str) -> frozenset:
        """Types of instance attribute c().name: property return type, class-level annotation, or the
        types of every value stored into self.name by methods of the class and its bases."""
        key = (c.qualname, name)
        if key in self._attr_cache:
            return self._attr_cache[key]
        if key in self._attr_active:
            return frozenset()
        self._attr_active.add(key)
        try:
            out = set()
            getter = c.lookup(name)
            if getter is not None and getter.kind in ('property', 'cached_property'):
                out |= self.return_types(getter)
                if not out:
                    out |= self._infer_return(getter)
            elif getter is not None:
                out.add(('func', getter.qualname))
            else:
                for k in c.mro():
                    if name in k.attr_annotations:
                        out |= self.ann_to_types(k.attr_annotations[name], k.module, k)
                    for meth in list(k.methods.values()) + list(k.setters.values()):
                        for node in ast.walk(meth.node):
                            tgt = None
                            val = None
                            if isinstance(node, ast.Assign):
                                for t in node.targets:
                                    if _is_self_attr(t, name):
                                        tgt, val = t, node.value
                            elif isinstance(node, ast.AnnAssign) and _is_self_attr(node.target, name):
                                out |= self.ann_to_types(node.annotation, k.module, k)
                                tgt, val = node.target, node.value
                            if tgt is not None and val is not None:
                                out |= self.type_of(val, self.env(meth))
                    if name in k.attrs and name not in k.attr_annotations:
                        pass
            res = frozenset(out)
        finally:
            self._attr_active.discard(key)
        if getattr(self, '_warm', False):
            self._attr_cache[key] = res
        return res

    def _infer_return(self, fn: FuncInfo) -> frozenset:
        out = set()
        env = self.env(fn)
        for node in ast.walk(fn.node):
            if isinstance(node, ast.Return) and node.value is not None:
                out |= self.type_of(node.value, env)
        return frozenset(out)

    # ------------------------------------------------------------ expressions
    def elem_types(self, e: ast.expr, env: FuncEnv) -> frozenset:
        """Element types when iterating e."""
        if isinstance(e, ast.Call):
            f = e.func
            if isinstance(f, ast.Name):
                if f.id == 'enumerate' and e.args:
                    return frozenset({('tuple', frozenset({EXT('int')}), self.elem_types(e.args[0], env))})
                if f.id == 'range':
                    return frozenset({EXT('int')})
                if f.id in ('sorted', 'list', 'reversed', 'set', 'tuple') and e.args:
                    return self.elem_types(e.args[0], env)
                if f.id == 'zip':
                    return frozenset({('tuple',) + tuple(self.elem_types(a, env) for a in e.args)})
            if isinstance(f, ast.Attribute):
                if f.attr == 'items':
                    out = set()
                    for t in self.type_of(f.value, env):
                        if t[0] == 'dict':
                            out.add(('tuple', t[1], t[2]))
                    if out:
                        return frozenset(out)
                if f.attr == 'values':
                    out = set()
                    for t in self.type_of(f.value, env):
                        if t[0] == 'dict':
                            out |= set(t[2])
                    if out:
                        return frozenset(out)
                if f.attr == 'keys':
                    out = set()
                    for t in self.type_of(f.value, env):
                        if t[0] == 'dict':
                            out |= set(t[1])
                    if out:
                        return frozenset(out)
                if f.attr == 'copy':
                    return self.elem_types(f.value, env)
        out = set()
        for t in self.type_of(e, env):
            if t[0] in ('list', 'set'):
                out |= set(t[1])
            elif t[0] == 'dict':
                out |= set(t[1])
            elif t[0] == 'tuple':
                for x in t[1:]:
                    out |= set(x)
            elif t == EXT('str'):
                out.add(EXT('str'))
            elif t[0] == 'ext':
                out.add(EXT('elem'))
        return frozenset(out)

    def type_of(self, e: ast.expr, env: FuncEnv) -> frozenset:
        fn = env.fn
        m, cls = fn.module, fn.cls
        if isinstance(e, ast.Constant):
            return frozenset({EXT(type(e.value).__name__ if e.value is not None else 'None')})
        if isinstance(e, ast.JoinedStr):
            return frozenset({EXT('str')})
        if isinstance(e, ast.Name):
            if e.id in env.vars:
                return env.vars[e.id]
            r = self.repo.resolve_name(m, e.id, cls)
            if isinstance(r, ClassInfo):
                return frozenset({('cls', r.qualname, 'exact')})
            if isinstance(r, FuncInfo):
                return frozenset({('func', r.qualname)})
            if isinstance(r, tuple) and r[0] == 'module':
                return frozenset({('mod', r[1])})
            if isinstance(r, tuple) and r[0] == 'const':
                mod: Module = r[1]
                if r[2] in mod.annotations:
                    return self.ann_to_types(mod.annotations[r[2]], mod, None)
                return frozenset({EXT('const')})
            if isinstance(r, tuple) and r[0] == 'external':
                return frozenset({EXT(r[1])})
            return frozenset()
        if isinstance(e, ast.Attribute):
            out = set()
            for t in self.type_of(e.value, env):
                out |= self._attr_of_type(t, e.attr)
            return frozenset(out)
        if isinstance(e, ast.Call):
            return self._call_type(e, env)
        if isinstance(e, ast.Subscript):
            out = set()
            idx = e.slice
            for t in self.type_of(e.value, env):
                if t[0] == 'list':
                    if isinstance(idx, ast.Slice):
                        out.add(t)
                    else:
                        out |= set(t[1])
                elif t[0] == 'dict':
                    out |= set(t[2]) or {EXT('data')}
                elif t[0] == 'tuple':
                    for x in t[1:]:
                        out |= set(x)
                elif t[0] == 'ext':
                    out.add(EXT('data'))
                elif t[0] == 'inst':
                    c = self.repo.classes.get(t[1])
                    if c is not None:
                        g = c.lookup('__getitem__')
                        if g is not None:
                            out |= self.return_types(g)
                        elif any(b.startswith('dict') for b in c.external_bases()):
                            # class Foo(dict[str, V]) -> V
                            for k in c.mro():
                                for b in k.node.bases:
                                    if isinstance(b, ast.Subscript):
                                        for tt in self.ann_to_types(b, k.module, k):
                                            if tt[0] == 'dict':
                                                out |= set(tt[2])
            if not out and isinstance(idx, ast.Constant) and isinstance(idx.value, str):
                # string-keyed lookup in an untyped mapping: configuration data, never a repository object
                out.add(EXT('data'))
            return frozenset(out)
        if isinstance(e, ast.IfExp):
            return self.type_of(e.body, env) | self.type_of(e.orelse, env)
        if isinstance(e, ast.BoolOp):
            out = frozenset()
            for v in e.values:
                out |= self.type_of(v, env)
            return out
        if isinstance(e, (ast.List, ast.Set)):
            el = frozenset()
            for x in e.elts:
                el |= self.type_of(x.value if isinstance(x, ast.Starred) else x, env)
            return frozenset({('list' if isinstance(e, ast.List) else 'set', el)})
        if isinstance(e, ast.Tuple):
            return frozenset({('tuple',) + tuple(self.type_of(x, env) for x in e.elts)})
        if isinstance(e, ast.Dict):
            k = frozenset()
            v = frozenset()
            for kk, vv in zip(e.keys, e.values):
                if kk is not None:
                    k |= self.type_of(kk, env)
                v |= self.type_of(vv, env)
            return frozenset({('dict', k, v)})
        if isinstance(e, (ast.ListComp, ast.GeneratorExp)):
            return frozenset({('list', self.type_of(e.elt, env))})
        if isinstance(e, ast.SetComp):
            return frozenset({('set', self.type_of(e.elt, env))})
        if isinstance(e, ast.DictComp):
            return frozenset({('dict', self.type_of(e.key, env), self.type_of(e.value, env))})
        if isinstance(e, ast.BinOp):
            lt = self.type_of(e.left, env)
            if isinstance(e.op, ast.Add):
                return lt | self.type_of(e.right, env)
            return lt
        if isinstance(e, ast.Compare) or (isinstance(e, ast.UnaryOp) and isinstance(e.op, ast.Not)):
            return frozenset({EXT('bool')})
        if isinstance(e, ast.UnaryOp):
            return self.type_of(e.operand, env)
        if isinstance(e, ast.NamedExpr):
            return self.type_of(e.value, env)
        return frozenset()

    def _attr_of_type(self, t, attr: str) -> set:
        out = set()
        if t[0] == 'inst':
            c = self.repo.classes.get(t[1])
            if c is not None:
                out |= set(self.attr_types(c, attr))
                if not out:
                    # class-level constant or nested class accessed through an instance
                    if attr in c.nested:
                        out.add(('cls', c.nested[attr].qualname, 'exact'))
        elif t[0] == 'cls':
            c = self.repo.classes.get(t[1])
            if c is not None:
                if attr in c.nested:
                    out.add(('cls', c.nested[attr].qualname, 'exact'))
                else:
                    f = c.lookup(attr)
                    if f is not None:
                        out.add(('func', f.qualname))
                    else:
                        for k in c.mro():
                            if attr in k.attr_annotations:
                                out |= set(self.ann_to_types(k.attr_annotations[attr], k.module, k))
                                break
                            if attr in k.attrs:
                                # enum member: instance of the enum class
                                if any(b in ('enum.Enum', 'enum.IntEnum') for b in k.external_bases()):
                                    out.add(inst(k))
                                else:
                                    out.add(EXT('const'))
                                break
        elif t[0] == 'mod':
            modname = t[1]
            sub = f'{modname}.{attr}'
            if sub in self.repo.modules:
                out.add(('mod', sub))
            elif modname in self.repo.modules:
                r = self.repo.resolve_name(self.repo.modules[modname], attr)
                if isinstance(r, ClassInfo):
                    out.add(('cls', r.qualname, 'exact'))
                elif isinstance(r, FuncInfo):
                    out.add(('func', r.qualname))
                elif isinstance(r, tuple) and r[0] == 'module':
                    out.add(('mod', r[1]))
                elif r is not None:
                    out.add(EXT('const'))
            else:
                out.add(EXT(sub))
        elif t[0] == 'ext':
            out.add(EXT(f'{t[1]}.{attr}'))
        return out

    def _call_type(self, e: ast.Call, env: FuncEnv) -> frozenset:
        f = e.func
        if isinstance(f, ast.Name):
            if f.id == 'super':
                if env.fn.cls is not None:
                    return frozenset({('super', env.fn.cls.qualname)})
                return frozenset()
            if f.id in ('list', 'sorted', 'reversed') and e.args:
                return frozenset({('list', self.elem_types(e.args[0], env))})
            if f.id in ('set', 'frozenset'):
                return frozenset({('set', self.elem_types(e.args[0], env) if e.args else frozenset())})
            if f.id == 'tuple' and e.args:
                return frozenset({('list', self.elem_types(e.args[0], env))})
            if f.id in ('len', 'int', 'ord', 'abs', 'sum', 'min', 'max', 'round'):
                if f.id in ('min', 'max') and e.args and not (len(e.args) > 1):
                    return self.elem_types(e.args[0], env) or frozenset({EXT('int')})
                return frozenset({EXT('int')})
            if f.id in ('str', 'repr', 'hex', 'format'):
                return frozenset({EXT('str')})
            if f.id in ('bool', 'isinstance', 'any', 'all'):
                return frozenset({EXT('bool')})
            if f.id in ('bytearray', 'bytes'):
                return frozenset({EXT(f.id)})
            if f.id == 'dict':
                return frozenset({('dict', frozenset(), frozenset())})
            if f.id == 'open':
                return frozenset({EXT('file')})
        out = set()
        for t in self.type_of(f, env):
            if t[0] == 'cls':
                out.add(('inst', t[1]))
            elif t[0] == 'func':
                fi = self.repo.functions.get(t[1])
                if fi is not None:
                    rt = self.return_types(fi)
                    out |= set(rt)
            elif t[0] == 'ext':
                out.add(EXT(t[1] + '()'))
        if isinstance(f, ast.Attribute):
            # container / str methods on typed receivers
            for t in self.type_of(f.value, env):
                if t[0] in ('list', 'set'):
                    if f.attr in ('copy', 'union', 'intersection', 'difference'):
                        out.add(t)
                    elif f.attr == 'pop':
                        out |= set(t[1])
                elif t[0] == 'dict':
                    if f.attr in ('get', 'pop', 'setdefault'):
                        out |= set(t[2]) or {EXT('data')}
                    elif f.attr == 'copy':
                        out.add(t)
                    elif f.attr == 'values':
                        out.add(('list', t[2]))
                    elif f.attr == 'keys':
                        out.add(('list', t[1]))
                    elif f.attr == 'items':
                        out.add(('list', frozenset({('tuple', t[1], t[2])})))
                elif t[0] == 'super':
                    c = self.repo.classes.get(t[1])
                    if c is not None:
                        for k in c.mro()[1:]:
                            if f.attr in k.methods:
                                out |= set(self.return_types(k.methods[f.attr]))
                                break
                elif t[0] == 'inst':
                    c = self.repo.classes.get(t[1])
                    if c is not None and c.lookup(f.attr) is None and any(b.startswith('dict') for b in c.external_bases()):
                        # inherited dict methods on dict subclasses (InstructionSet)
                        if f.attr in ('get',):
                            out |= set(self.type_of(ast.Subscript(value=f.value, slice=ast.Constant(value=0), ctx=ast.Load()), env))
                elif t == EXT('str'):
                    if f.attr in ('strip', 'lower', 'upper', 'replace', 'format', 'join', 'lstrip', 'rstrip', 'center', 'ljust'):
                        out.add(EXT('str'))
                    elif f.attr in ('split', 'splitlines'):
                        out.add(('list', frozenset({EXT('str')})))
                    elif f.attr in ('startswith', 'endswith', 'isspace'):
                        out.add(EXT('bool'))
        return frozenset(out)

    # ------------------------------------------------------------ call targets
    def call_targets(self, e: ast.Call, env: FuncEnv) -> tuple[list[tuple[FuncInfo, str]], str]:
        """Resolve a call to repository functions. Returns ([(callee, how)], status) where status is
        'resolved', 'external' (callee outside the repository) or 'unresolved'."""
        f = e.func
        repo = self.repo
        targets: list[tuple[FuncInfo, str]] = []
        if isinstance(f, ast.Name):
            if f.id in env.vars:
                for t in env.vars[f.id]:
                    self._targets_of_callable_type(t, targets)
                if targets:
                    return targets, 'resolved'
                return [], 'unresolved'
            r = repo.resolve_name(env.fn.module, f.id, env.fn.cls)
            if isinstance(r, ClassInfo):
                init = r.lookup('__init__')
                if init is not None:
                    targets.append((init, 'ctor'))
                return targets, 'resolved'
            if isinstance(r, FuncInfo):
                return [(r, 'call')], 'resolved'
            if r is None or (isinstance(r, tuple) and r[0] in ('external', 'module')):
                return [], 'external'
            return [], 'unresolved'
        if isinstance(f, ast.Attribute):
            base_types = self.type_of(f.value, env)
            if not base_types:
                ext = repo.dotted_external(env.fn.module, f)
                if ext is not None:
                    return [], 'external'
                return [], 'unresolved'
            status = 'external'
            for t in base_types:
                if t[0] == 'inst':
                    c = repo.classes.get(t[1])
                    if c is None:
                        continue
                    impls = [i for i in c.implementations(f.attr) if i.kind not in ('property', 'cached_property')]
                    if impls:
                        for i in impls:
                            targets.append((i, 'call'))
                        status = 'resolved'
                    else:
                        # attribute holding a callable / inherited external (dict.get, list.append...)
                        at = self.attr_types(c, f.attr) if c.lookup(f.attr) is None else frozenset()
                        found = False
                        for tt in at:
                            n0 = len(targets)
                            self._targets_of_callable_type(tt, targets)
                            found = found or len(targets) > n0
                        if found:
                            status = 'resolved'
                        elif c.external_bases():
                            pass  # inherited from an external base (dict.get ...)
                        elif status != 'resolved':
                            status = 'unresolved'
                elif t[0] == 'cls':
                    c = repo.classes.get(t[1])
                    if c is None:
                        continue
                    if f.attr in c.nested:
                        init = c.nested[f.attr].lookup('__init__')
                        if init is not None:
                            targets.append((init, 'ctor'))
                        status = 'resolved'
                        continue
                    if t[2] == 'open':
                        impls = c.implementations(f.attr)
                    else:
                        one = c.lookup(f.attr)
                        impls = [one] if one is not None else []
                    for i in impls:
                        targets.append((i, 'call'))
                    if impls:
                        status = 'resolved'
                    elif status != 'resolved' and not c.external_bases():
                        status = 'unresolved'
                elif t[0] == 'super':
                    c = repo.classes.get(t[1])
                    if c is not None:
                        for k in c.mro()[1:]:
                            if f.attr in k.methods:
                                targets.append((k.methods[f.attr], 'super'))
                                status = 'resolved'
                                break
                elif t[0] == 'mod':
                    if t[1] in repo.modules:
                        r = repo.resolve_name(repo.modules[t[1]], f.attr)
                        if isinstance(r, ClassInfo):
                            init = r.lookup('__init__')
                            if init is not None:
                                targets.append((init, 'ctor'))
                            status = 'resolved'
                        elif isinstance(r, FuncInfo):
                            targets.append((r, 'call'))
                            status = 'resolved'
                elif t[0] == 'func':
                    pass
            return targets, status
        if isinstance(f, ast.Call) and isinstance(f.func, ast.Name) and f.func.id == 'super':
            return [], 'unresolved'
        return [], 'unresolved'

    def _targets_of_callable_type(self, t, targets):
        if t[0] == 'func':
            fi = self.repo.functions.get(t[1])
            if fi is not None:
                targets.append((fi, 'call'))
        elif t[0] == 'cls':
            c = self.repo.classes.get(t[1])
            if c is not None:
                init = c.lookup('__init__')
                if init is not None:
                    targets.append((init, 'ctor'))

    def property_targets(self, e: ast.Attribute, env: FuncEnv) -> list[tuple[FuncInfo, str]]:
        """Getter (Load) or setter (Store) implementations for a property access, by CHA on the receiver type."""
        out = []
        store = isinstance(e.ctx, ast.Store)
        for t in self.type_of(e.value, env):
            c = None
            if t[0] == 'inst':
                c = self.repo.classes.get(t[1])
            elif t[0] == 'super':
                k = self.repo.classes.get(t[1])
                if k is not None:
                    for b in k.mro()[1:]:
                        g = b.methods.get(e.attr)
                        if g is not None and g.kind in ('property', 'cached_property'):
                            out.append((g, 'property'))
                            break
                continue
            if c is None:
                continue
            if store:
                for s in c.setter_implementations(e.attr):
                    out.append((s, 'setter'))
            else:
                for g in c.implementations(e.attr):
                    if g.kind in ('property', 'cached_property'):
                        out.append((g, 'property'))
        return out


def _is_self_attr(t: ast.AST, name: str) -> bool:
    return isinstance(t, ast.Attribute) and t.attr == name and isinstance(t.value, ast.Name) and t.value.id == 'self'


def bind_args(call: ast.Call, fn: FuncInfo) -> dict[str, ast.expr]:
    """Map parameter names of fn to the argument expressions at this call site."""
    params = [p.arg for p in fn.call_params]
    out: dict[str, ast.expr] = {}
    pos = [a for a in call.args if not isinstance(a, ast.Starred)]
    for name, a in zip(params, pos):
        out[name] = a
    for k in call.keywords:
        if k.arg is not None:
            out[k.arg] = k.value
    return out


class CallGraph:
    def __init__(self, repo: Repo, types: Types):
        self.repo = repo
        self.types = types
        self.edges: list[CallEdge] = []
        self.out: dict[str, list[CallEdge]] = {}
        self.inc: dict[str, list[CallEdge]] = {}
        self.unresolved: list[tuple[FuncInfo, ast.Call]] = []
        self.external_calls = 0
        self.resolved_calls = 0
        self.property_edges = 0
        self._seen: set = set()
        self._method_names = set()
        for c in repo.classes.values():
            self._method_names |= set(c.methods)
        for f in repo.functions.values():
            self._method_names.add(f.name)
        types.warm()
        self._build()

    @staticmethod
    def key(fn: FuncInfo) -> str:
        return fn.qualname + ('#setter' if fn.kind == 'setter' else '')

    def _build(self):
        for fn in self.repo.all_functions():
            env = self.types.env(fn)
            for node in ast.walk(fn.node):
                if isinstance(node, ast.Call):
                    targets, status = self.types.call_targets(node, env)
                    if status == 'unresolved' and isinstance(node.func, ast.Attribute) \
                            and node.func.attr not in self._method_names:
                        # no class or module of the repository defines this name: cannot be an internal call
                        status = 'external'
                    if status == 'resolved':
                        self.resolved_calls += 1
                    elif status == 'external':
                        self.external_calls += 1
                    else:
                        self.unresolved.append((fn, node))
                    for callee, how in targets:
                        self._add(CallEdge(fn, callee, node, how, 'type'))
                elif isinstance(node, ast.Attribute):
                    for callee, how in self.types.property_targets(node, env):
                        self.property_edges += 1
                        self._add(CallEdge(fn, callee, node, how, 'type'))
        # decorators such as @classmethod do not create edges; class bodies are not executed code paths

    def _add(self, e: CallEdge):
        k = (id(e.node), self.key(e.callee))
        if k in self._seen:
            return
        self._seen.add(k)
        self.edges.append(e)
        self.out.setdefault(self.key(e.caller), []).append(e)
        self.inc.setdefault(self.key(e.callee), []).append(e)

    def callees(self, fn: FuncInfo) -> list[CallEdge]:
        return self.out.get(self.key(fn), [])

    def callers(self, fn: FuncInfo) -> list[CallEdge]:
        return self.inc.get(self.key(fn), [])

    def edges_at(self, fn: FuncInfo, node: ast.AST) -> list[CallEdge]:
        return [e for e in self.callees(fn) if e.node is node]

    def reachable(self, roots: list[FuncInfo], stop: set[str] | None = None) -> dict[str, FuncInfo]:
        seen: dict[str, FuncInfo] = {}
        todo = list(roots)
        while todo:
            f = todo.pop()
            k = self.key(f)
            if k in seen:
                continue
            seen[k] = f
            if stop and k in stop:
                continue
            for e in self.callees(f):
                todo.append(e.callee)
        return seen

    def path(self, src: FuncInfo, dst_keys: set[str]) -> list[CallEdge] | None:
        """A shortest call path from src to any function in dst_keys (BFS), as a list of edges."""
        from collections import deque
        prev: dict[str, CallEdge | None] = {self.key(src): None}
        q = deque([src])
        while q:
            f = q.popleft()
            k = self.key(f)
            if k in dst_keys and prev[k] is not None:
                out = []
                cur = k
                while prev[cur] is not None:
                    out.append(prev[cur])
                    cur = self.key(prev[cur].caller)
                return list(reversed(out))
            for e in self.callees(f):
                ck = self.key(e.callee)
                if ck not in prev:
                    prev[ck] = e
                    q.append(e.callee)
        return None

    def stats(self) -> dict:
        total = self.resolved_calls + self.external_calls + len(self.unresolved)
        return {
            'call_sites': total,
            'resolved_internal': self.resolved_calls,
            'external': self.external_calls,
            'unresolved': len(self.unresolved),
            'property_edges': self.property_edges,
            'edges': len(self.edges),
        }
