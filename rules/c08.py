"""C08 - conditional assembly selects exactly the lines of the taken branches."""
import ast

from engine.index import AnalysisError
from engine.helpers import (resolver, facts_at, filter_facts_at, lit_cmp, describe_facts, unparse, walk_no_nested, returns,
                            deref, body_only_aborts, is_abort_stmt, calls_to, self_attr_stores)
from engine.types import CallGraph, bind_args
from engine import boolform
from engine.selftest import V

CS = 'bespokeasm.assembler.preprocessor.condition_stack.ConditionStack'
COND = 'bespokeasm.assembler.preprocessor.condition'
PP = 'bespokeasm.assembler.preprocessor.Preprocessor'
FACT = 'bespokeasm.assembler.line_object.preprocessor_line.factory.PreprocessorLineFactory.parse_line'
LOAD = 'bespokeasm.assembler.assembly_file.AssemblyFile.load_line_objects'

EXPLANATION = (
    'Static rules over the preprocessor condition stack, condition classes, directive factory and file loader. Decided: '
    'C08.1 the activity reported for a line is the conjunction over all enclosing chains (per-entry flag computed at push '
    'time as enclosing flag AND own value, popped together with the entry); C08.2 no call path from the per-line activity '
    'query to the symbol table (conditions are latched when their directive is reached); C08.3-5 every directive side '
    'effect (#define, #create_memzone, #require, #include, mute changes, compilable flag) is dominated by an activity '
    'test; C08.6 chain semantics as boolean functions (#elif = not lineage(parent) and cond, #else = not lineage(parent), '
    'lineage = lineage(parent) or own latched value), dependent directives replace the stack top, #endif pops, an empty '
    'stack pop becomes an exit; C08.7 comparison operator table, bare expression means != 0, integer comparison iff no '
    'labels, #ifdef/#ifndef read only definedness. Not decided: values of the condition expressions themselves (C07/C09).'
)
ASSUMPTIONS = [
    'boolean functions of the small evaluate()/is_lineage_true() methods are compared as truth tables over named atoms',
    'an uncaught ValueError (e.g. #elif after #else) ends the run with a traceback = rejection',
]


def c08_1(ctx):
    ctx.rule('C08.1', 'activity is the conjunction over every enclosing chain', 4)
    ca = ctx.repo.func(CS + '.currently_active')
    rets = returns(ca)
    iter_all = any(isinstance(n, ast.Call) and unparse(n.func) == 'all' for n in ast.walk(ca.node)) or \
        any(isinstance(n, ast.For) and '_stack' in unparse(n.iter) for n in ast.walk(ca.node))
    if iter_all:
        ctx.ok('active:depends-on-all-entries', ca.site(), 'currently_active consults every stack entry', 'iterates the stack')
        ctx.ok('active:flag-stack', ca.site(), 'n/a for iterating form', '')
        ctx.ok('active:push-conjunction', ca.site(), 'n/a for iterating form', '')
        ctx.ok('active:pop-parallel', ca.site(), 'n/a for iterating form', '')
        return
    # flag-stack idiom
    top = [r for r in rets if isinstance(r.value, ast.Subscript) and unparse(r.value.slice) == '-1']
    flags = unparse(top[0].value.value) if top else None
    empty_true = [r for r in rets if isinstance(r.value, ast.Constant) and r.value.value is True]
    res = resolver(ctx, ca, inline=False)
    ok = len(top) == 1 and len(empty_true) == 1 and len(rets) == 2
    if ok:
        cl = facts_at(ctx, ca, empty_true[0], res)
        ok = any(c == frozenset({lit_cmp(ctx, ca, f'len({flags}) == 0', res)}) for c in cl) or \
            any(len(c) == 1 and next(iter(c))[0] == 'truthy' and flags in next(iter(c))[1] and next(iter(c))[2] is False for c in cl)
    if top and 'evaluate' in unparse(top[0].value) or any('evaluate' in unparse(r.value) for r in rets):
        ctx.refute('active:depends-on-all-entries', ca.site(), 'currently_active depends on every enclosing chain, not only the innermost',
                   f'returns {[unparse(r.value) for r in rets]}: only the top of the stack is consulted and nothing is stored at push time '
                   '(`#if 1` nested inside `#if 0` is assembled)')
        return
    ctx.check(ok, 'active:flag-stack', ca.site(), 'currently_active is True for an empty stack, else the top per-entry flag',
              f'returns {[unparse(r.value) for r in rets]}')
    if not flags:
        return
    cls = ctx.repo.cls(CS)
    appends = []
    for m in cls.methods.values():
        for c in ast.walk(m.node):
            if isinstance(c, ast.Call) and isinstance(c.func, ast.Attribute) and c.func.attr == 'append' and unparse(c.func.value) == flags:
                appends.append((m, c))
    if not appends:
        ctx.refute('active:push-conjunction', ca.site(), 'a flag is stored for every pushed condition', f'no append to {flags}')
    for m, c in appends:
        v = c.args[0]
        ok = isinstance(v, ast.BoolOp) and isinstance(v.op, ast.And) and len(v.values) == 2
        detail = unparse(v)
        if ok:
            enc = deref(ctx, m, v.values[0], c)
            own = v.values[1]
            r2 = resolver(ctx, m, inline=False)
            from engine.lin import to_cnf
            want = to_cnf(ast.parse(f'len({flags}) == 0 or {flags}[-1]', mode='eval').body, True, r2)
            got = to_cnf(enc, True, r2)
            enc_ok = sorted(map(sorted, got)) == sorted(map(sorted, want))
            own_ok = isinstance(own, ast.Call) and isinstance(own.func, ast.Attribute) and own.func.attr in ('latch', 'evaluate') \
                and unparse(own.func.value) == 'condition'
            ok = enc_ok and own_ok
            detail = f'enclosing = {unparse(enc)}; own = {unparse(own)}'
        ctx.check(ok, 'active:push-conjunction', m.site(c),
                  'the stored flag is (stack empty or enclosing flag) AND the pushed condition\'s own value', detail)
    # parallel push/pop: in every block, _stack.pop() <-> flags.pop(), _stack.append <-> flags.append
    for m in cls.methods.values():
        for blk in ast.walk(m.node):
            for fld in ('body', 'orelse'):
                sts = getattr(blk, fld, None)
                if not isinstance(sts, list):
                    continue
                txt = [unparse(s) for s in sts if isinstance(s, (ast.Expr, ast.Assign))]
                for op in ('pop', 'append'):
                    ns = sum(1 for t in txt if f'self._stack.{op}(' in t)
                    nf = sum(1 for t in txt if f'{flags}.{op}(' in t)
                    if ns or nf:
                        ctx.check(ns == nf, f'active:pop-parallel:{m.name}:{op}', m.site(sts[0]),
                                  f'every {op} of the condition stack is paired with a {op} of the flag list',
                                  f'{ns} stack {op}(s) vs {nf} flag {op}(s) in the same block')


def c08_2(ctx):
    ctx.rule('C08.2', 'conditions are latched: the per-line activity query never reaches the symbol table', 2)
    ca = ctx.repo.func(CS + '.currently_active')
    targets = {PP + '.get_symbol', PP + '.resolve_symbols'}
    reach = ctx.cg.reachable([ca])
    bad = sorted(k for k in reach if k in targets)
    path = ctx.cg.path(ca, set(bad)) if bad else None
    detail = ' -> '.join([ctx.short(ca)] + [ctx.short(e.callee) for e in path]) if path else ''
    ctx.check(not bad, 'latched:no-symbol-read-per-line', ca.site(),
              'currently_active (asked for every later line) cannot reach Preprocessor.get_symbol / resolve_symbols',
              f'call path {detail}: the condition is re-evaluated after later #define lines (`#ifndef G / #define G` drops its own body)')
    # lineage uses the latched value
    lin = ctx.repo.func(COND + '.PreprocessorCondition.is_lineage_true')
    direct = [c for c in ast.walk(lin.node) if isinstance(c, ast.Call) and unparse(c.func) == 'self.evaluate']
    ctx.check(not direct, 'latched:lineage-uses-latched-value', lin.site(direct[0]) if direct else lin.site(),
              'the lineage of earlier branches is taken from the value latched when each directive was reached',
              'is_lineage_true calls self.evaluate() again (an earlier branch is re-evaluated when #elif/#else is reached)')
    latch = ctx.repo.cls(COND + '.PreprocessorCondition').methods.get('latch')
    cur = ctx.repo.cls(COND + '.PreprocessorCondition').methods.get('_current_value')
    if latch is not None and cur is not None:
        st = self_attr_stores(latch.node, '_latched_value')
        ok = len(st) == 1 and unparse(st[0][2]) == 'self.evaluate(preprocessor)'
        ctx.check(ok, 'latched:latch-stores-evaluate', latch.site(), 'latch() stores the value of evaluate() at that moment',
                  '; '.join(unparse(s[0]) for s in st))
        res = resolver(ctx, cur, inline=False)
        good = False
        for r in returns(cur):
            if unparse(r.value) == 'self._latched_value':
                cl = facts_at(ctx, cur, r, res)
                good = frozenset({('isnone', 'self._latched_value', False)}) in cl
        ctx.check(good, 'latched:current-value', cur.site(), 'a latched value, once present, is what the lineage sees',
                  '; '.join(unparse(r) for r in returns(cur)))


def _has_active_fact(cl, recv='condition_stack'):
    for c in cl:
        if len(c) == 1:
            l = next(iter(c))
            if l[0] == 'call' and 'currently_active' in l[1] and l[-1] is True:
                return True
            if l[0] == 'truthy' and l[-1] is True and ('active' in l[1] or 'compilable' in l[1]):
                return True
    return False


def _counter_updates(ctx):
    """Every statement of ConditionStack (helpers inlined by the normaliser) that changes the mute counter, except its initialisation."""
    cs = ctx.repo.cls(CS)
    out = []
    for name, m in cs.methods.items():
        if name in ('_increment_mute_counter', '_decrement_mute_counter'):
            continue      # read through: their bodies are judged where they are called (inlined)
        for n in ast.walk(m.node):
            if isinstance(n, ast.AugAssign) and unparse(n.target) == 'self._mute_counter':
                out.append((m, n))
            elif isinstance(n, ast.Assign) and any(unparse(t) == 'self._mute_counter' for t in n.targets) and name != '__init__':
                out.append((m, n))
    return out


def mute_guards(ctx):
    """#mute / #emit change the mute state only in selected branches (shared with C03)."""
    pc = ctx.repo.func(CS + '.process_condition')
    r3 = resolver(ctx, pc, inline=False)
    n = 0
    for m, c in _counter_updates(ctx):
        if m is not pc:
            ctx.refute(f'guard:counter-changed-in:{m.name}', m.site(c), 'the mute counter changes only where directives are processed', unparse(c))
            continue
        if not (isinstance(c, ast.AugAssign) and isinstance(c.op, (ast.Add, ast.Sub)) and unparse(c.value) == '1'):
            ctx.refute('guard:counter-step', pc.site(c), 'the mute counter moves by one', unparse(c))
            continue
        n += 1
        cl = facts_at(ctx, pc, c, r3)
        which = 'mute' if isinstance(c.op, ast.Add) else 'unmute'
        ctx.check(_has_active_fact(cl), f'guard:{which}', pc.site(c),
                  f'#{which if which == "mute" else "emit/#unmute"} changes the mute state only in a selected branch', describe_facts(cl))
        kind = 'MutePreprocessorCondition' if which == 'mute' else 'UnmutePreprocessorCondition'
        ok = any(('isinstance', 'condition', kind, True) in cc for cc in cl)
        ctx.check(ok, f'guard:{which}:dispatch', pc.site(c), f'the counter is {"raised" if which == "mute" else "lowered"} for a {kind}', describe_facts(cl))
    if n < 2:
        ctx.refute('guard:mute-dispatch', pc.site(), '#mute raises and #emit/#unmute lowers the mute counter', f'{n} counter updates in process_condition')


def c08_3(ctx):
    ctx.rule('C08.3', 'directive side effects happen only in selected branches', 8)
    fac = ctx.repo.func(FACT)
    res = resolver(ctx, fac, inline=True)
    for cname, what in (('DefineSymbolLine', '#define'), ('CreateMemzoneLine', '#create_memzone'), ('RequiredLanguageLine', '#require')):
        sites = [c for c in ast.walk(fac.node) if isinstance(c, ast.Call) and unparse(c.func) == cname]
        if not sites:
            raise AnalysisError(f'{cname} is no longer constructed by PreprocessorLineFactory.parse_line')
        for c in sites:
            cl = facts_at(ctx, fac, c, res)
            ctx.check(_has_active_fact(cl), f'guard:{what}', fac.site(c),
                      f'{what} takes effect only when the condition stack is currently active',
                      f'{cname}(...) reached under: {describe_facts(cl)} - the directive acts inside an unselected branch')
    # the side effecting constructors are built nowhere else
    for cname in ('DefineSymbolLine', 'CreateMemzoneLine'):
        c = ctx.repo.find_class(cname)
        init = c.lookup('__init__')
        for e in ctx.cg.callers(init):
            ctx.check(CallGraph.key(e.caller) == FACT or e.how == 'super', f'who:{cname}', e.caller.site(e.node),
                      f'{cname} is constructed only by the guarded directive factory', f'constructed in {ctx.short(e.caller)}')
    cs = ctx.repo.func(PP + '.create_symbol')
    allowed = {PP + '.__init__', PP + '.add_cli_symbols', 'bespokeasm.assembler.line_object.preprocessor_line.define_symbol.DefineSymbolLine.__init__'}
    for e in ctx.cg.callers(cs):
        ctx.check(CallGraph.key(e.caller) in allowed, f'who:create_symbol:{ctx.short(e.caller)}', e.caller.site(e.node),
                  'symbols are created only by the configuration, the command line and the guarded #define line',
                  f'{ctx.short(e.caller)} creates symbols')
    # include
    load = ctx.repo.func(LOAD)
    inc = calls_to(ctx, load, {'bespokeasm.assembler.assembly_file.AssemblyFile._handle_include_file'})
    if not inc:
        raise AnalysisError('load_line_objects no longer calls _handle_include_file')
    r2 = resolver(ctx, load, inline=True)
    for node, _ in inc:
        cl = facts_at(ctx, load, node, r2)
        ctx.check(_has_active_fact(cl), 'guard:#include', load.site(node), '#include is followed only when the condition stack is currently active',
                  f'include handled under: {describe_facts(cl)}')
    mute_guards(ctx)
    # compilable flag of every non-condition line object = current activity
    sts = [n for n in walk_no_nested(load.node) if isinstance(n, ast.Assign) and unparse(n.targets[0]) == 'lobj.compilable']
    ok = len(sts) == 1 and unparse(sts[0].value) == 'condition_stack.currently_active(preprocessor)'
    ctx.check(ok, 'guard:compilable=active', load.site(sts[0]) if sts else load.site(),
              'a parsed line is compilable iff the condition stack is active when it is reached', '; '.join(unparse(s) for s in sts))
    if sts:
        fcl = filter_facts_at(ctx, load, sts[0], resolver(ctx, load, inline=False))
        lits = [l for c in fcl for l in c if not (l[0] == 'call' and 'startswith' in l[1]) and l != ('truthy', 'line_str', True)]
        ok = lits == [('isinstance', 'lobj', 'ConditionLine', False)]
        ctx.check(ok, 'guard:compilable-every-line', load.site(sts[0]), 'the flag is set for every line object except condition lines',
                  describe_facts(fcl))
    # everything a parsed line contributes to the per-file state is under `lobj.compilable`
    rl = resolver(ctx, load, inline=False)
    loops = [l for l in walk_no_nested(load.node) if isinstance(l, ast.For)]
    for var, what in (('current_scope', 'label region'), ('current_memzone', 'memory zone'), ('lobj.label_scope', 'line scope')):
        for a in [n for n in walk_no_nested(load.node) if isinstance(n, ast.Assign) and unparse(n.targets[0]) == var
                  and any(any(x is n for x in ast.walk(l)) for l in loops)]:
            cl = facts_at(ctx, load, a, rl)
            ok = any(c == frozenset({('truthy', 'lobj.compilable', True)}) or c == frozenset({('truthy', 'lobj._compilable', True)}) for c in cl)
            ctx.check(ok, f'guard:{what}-change', load.site(a), f'a line changes the file\'s {what} only if it is in a selected branch',
                      f'{unparse(a)} under {describe_facts(cl)}')
    for c in [n for n, _ in calls_to(ctx, load, {'bespokeasm.assembler.label_scope.LabelScope.set_label_value'})]:
        cl = facts_at(ctx, load, c, rl)
        ok = any(cc == frozenset({('truthy', 'lobj.compilable', True)}) for cc in cl)
        ctx.check(ok, 'guard:constant-registration', load.site(c), 'a constant is registered only if its line is in a selected branch', describe_facts(cl))
    ms = [n for n in walk_no_nested(load.node) if isinstance(n, ast.Assign) and unparse(n.targets[0]) == 'lobj.is_muted']
    ctx.check(len(ms) == 1 and unparse(ms[0].value) == 'condition_stack.is_muted', 'guard:muted=stack', load.site(ms[0]) if ms else load.site(),
              'a parsed line is muted iff the condition stack is muted when it is reached', '; '.join(unparse(s) for s in ms))
    cl_ = ctx.repo.func('bespokeasm.assembler.line_object.preprocessor_line.condition_line.ConditionLine.compilable')
    rr = returns(cl_)
    ctx.check(len(rr) == 1 and unparse(rr[0].value) == 'True', 'guard:condition-lines-always-processed', cl_.site(),
              'condition lines themselves are always processed', '; '.join(unparse(r) for r in rr))


def c08_6(ctx):
    ctx.rule('C08.6', 'chain semantics: #elif, #else, lineage, stack discipline', 10)
    def rename(s):
        s = s.replace('self.parent.is_lineage_true(preprocessor)', 'L').replace('self._evaluate_condition(preprocessor)', 'C')
        s = s.replace('self.parent is None', 'NOPARENT').replace('self._current_value(preprocessor)', 'OWN')
        s = s.replace('self.evaluate(preprocessor)', 'OWN')
        return s
    el = ctx.repo.func(COND + '.ElifPreprocessorCondition.evaluate')
    ok, why = boolform.equals(el.node, lambda e: (not e['L']) and e['C'], ['NOPARENT', 'L', 'C'], rename, lambda e: not e['NOPARENT'])
    ctx.check(ok, 'chain:elif', el.site(), '#elif is selected iff no earlier branch of the chain was and its own condition holds', why)
    es = ctx.repo.func(COND + '.ElsePreprocessorCondition.evaluate')
    ok, why = boolform.equals(es.node, lambda e: not e['L'], ['NOPARENT', 'L'], rename, lambda e: not e['NOPARENT'])
    ctx.check(ok, 'chain:else', es.site(), '#else is selected iff no earlier branch of the chain was', why)
    li = ctx.repo.func(COND + '.PreprocessorCondition.is_lineage_true')
    ok, why = boolform.equals(li.node, lambda e: e['OWN'] if e['NOPARENT'] else (e['L'] or e['OWN']), ['NOPARENT', 'L', 'OWN'], rename)
    ctx.check(ok, 'chain:lineage', li.site(), 'lineage(c) = lineage(parent) or own value', why)
    iff = ctx.repo.func(COND + '.IfPreprocessorCondition.evaluate')
    rr = returns(iff)
    ctx.check(len(rr) == 1 and unparse(rr[0].value) == 'self._evaluate_condition(preprocessor)', 'chain:if', iff.site(),
              '#if is selected iff its own condition holds', '; '.join(unparse(r) for r in rr))
    # is_dependent table
    dep = {'PreprocessorCondition': False, 'ElifPreprocessorCondition': True, 'ElsePreprocessorCondition': True, 'EndifPreprocessorCondition': True}
    for cname, want in dep.items():
        f = ctx.repo.cls(f'{COND}.{cname}').lookup('is_dependent')   # (own definition, a mixin listed before the base, or inherited)
        rr = returns(f) if f else []
        ctx.check(f is not None and len(rr) == 1 and unparse(rr[0].value) == str(want), f'chain:is_dependent:{cname}', f.site() if f else '-',
                  f'{cname}.is_dependent is {want}', '; '.join(unparse(r) for r in rr))
    for cname in ('IfPreprocessorCondition', 'IfdefPreprocessorCondition', 'MutePreprocessorCondition', 'UnmutePreprocessorCondition'):
        c = ctx.repo.cls(f'{COND}.{cname}')
        own = [k for k in c.mro() if 'is_dependent' in k.methods][0]
        orr = returns(own.methods['is_dependent'])
        ctx.check(len(orr) == 1 and unparse(orr[0].value) == 'False', f'chain:is_dependent:{cname}', f'{c.module.relpath}:{c.node.lineno}',
                  f'{cname} opens a new chain (is_dependent False)', f'is_dependent defined by {own.name}: ' + '; '.join(unparse(r) for r in orr))
    # stack discipline in process_condition
    pc = ctx.repo.func(CS + '.process_condition')
    res = resolver(ctx, pc, inline=False)
    pops = [c for c in ast.walk(pc.node) if isinstance(c, ast.Call) and unparse(c.func) == 'self._stack.pop']
    endif_pop = dep_pop = False
    for c in pops:
        cl = facts_at(ctx, pc, c, res)
        lits = {l for cc in cl if len(cc) == 1 for l in cc}
        if ('isinstance', 'condition', 'EndifPreprocessorCondition', True) in lits:
            endif_pop = all(len(cc) == 1 for cc in cl) and lits == {('isinstance', 'condition', 'EndifPreprocessorCondition', True)}
        elif any(l[0] == 'truthy' and 'is_dependent' in l[1] and l[2] for l in lits):
            dep_pop = True
    ctx.check(endif_pop, 'stack:endif-pops', pc.site(), '#endif pops the current chain', 'no unconditional pop under isinstance(condition, Endif)')
    ctx.check(dep_pop, 'stack:dependent-replaces-top', pc.site(), '#elif/#else pop the previous branch before being pushed', 'no pop under condition.is_dependent')
    par = [n for n in ast.walk(pc.node) if isinstance(n, ast.Assign) and unparse(n.targets[0]) == 'condition.parent']
    ok = len(par) == 1
    if ok:
        v = deref(ctx, pc, par[0].value, par[0])
        ok = isinstance(v, ast.Call) and unparse(v.func) == 'self._stack.pop'
    ctx.check(ok, 'stack:parent=popped', pc.site(par[0]) if par else pc.site(), 'the popped branch becomes the parent of the new one',
              '; '.join(unparse(p) for p in par))
    # IndexError of an empty stack -> exit
    cl_init = ctx.repo.func('bespokeasm.assembler.line_object.preprocessor_line.condition_line.ConditionLine.__init__')
    sites = [c for c in ast.walk(cl_init.node) if isinstance(c, ast.Call) and unparse(c.func) == 'condition_stack.process_condition']
    ok = False
    for c in sites:
        for t in ast.walk(cl_init.node):
            if isinstance(t, ast.Try) and any(x is c for b in t.body for x in ast.walk(b)):
                for h in t.handlers:
                    if h.type is not None and 'IndexError' in unparse(h.type) and body_only_aborts(h.body):
                        ok = True
    ctx.check(ok, 'stack:unmatched-directive-rejected', cl_init.site(), '#else/#elif/#endif without an opener is rejected (IndexError -> exit)',
              'no aborting IndexError handler around process_condition')
    # directive -> condition class dispatch
    want = {"#if ": 'IfPreprocessorCondition', "#elif ": 'ElifPreprocessorCondition', "#else": 'ElsePreprocessorCondition',
            "#endif": 'EndifPreprocessorCondition', "#ifdef ": 'IfdefPreprocessorCondition', "#ifndef ": 'IfdefPreprocessorCondition',
            "#mute": 'MutePreprocessorCondition', "#unmute": 'UnmutePreprocessorCondition', "#emit": 'UnmutePreprocessorCondition'}
    got = {}
    for n in walk_no_nested(cl_init.node):
        if isinstance(n, ast.If):
            tests = n.test.values if isinstance(n.test, ast.BoolOp) else [n.test]
            cls_made = [unparse(c.func).split('.')[-1] for s in n.body for c in ast.walk(s) if isinstance(c, ast.Call) and 'PreprocessorCondition' in unparse(c.func)]
            # ... or the class is only chosen here and instantiated once after the chain: `k = condition.X` / `self._condition = k(instruction, line_id)`
            for s in n.body:
                if isinstance(s, ast.Assign) and isinstance(s.targets[0], ast.Name) and isinstance(s.value, (ast.Name, ast.Attribute)) \
                        and unparse(s.value).endswith('PreprocessorCondition'):
                    made = [a for a in ast.walk(cl_init.node) if isinstance(a, ast.Assign) and unparse(a.targets[0]) == 'self._condition'
                            and isinstance(a.value, ast.Call) and unparse(a.value.func) == s.targets[0].id
                            and [unparse(x) for x in a.value.args] == [cl_init.call_params[1].arg, cl_init.call_params[0].arg]]
                    if len(made) == 1:
                        cls_made.append(unparse(s.value).split('.')[-1])
            for t in tests:
                lit = None
                if isinstance(t, ast.Call) and isinstance(t.func, ast.Attribute) and t.func.attr == 'startswith' and isinstance(t.args[0], ast.Constant):
                    lit = t.args[0].value
                elif isinstance(t, ast.Compare) and isinstance(t.ops[0], ast.Eq) and isinstance(t.comparators[0], ast.Constant):
                    lit = t.comparators[0].value
                elif isinstance(t, ast.Compare) and isinstance(t.ops[0], ast.In) and isinstance(t.comparators[0], (ast.Tuple, ast.List, ast.Set)) and cls_made:
                    for e_ in t.comparators[0].elts:
                        if isinstance(e_, ast.Constant):
                            got[e_.value] = cls_made[0]
                if lit is not None and cls_made:
                    got[lit] = cls_made[0]
    ctx.check(got == want, 'chain:directive-dispatch', cl_init.site(), 'each conditional directive builds its own condition class',
              f'dispatch table: {got}')


_CMP = {'==': ast.Eq, '!=': ast.NotEq, '>': ast.Gt, '>=': ast.GtE, '<': ast.Lt, '<=': ast.LtE}


def c08_7(ctx):
    ctx.rule('C08.7', 'comparison operators, implied != 0, integer comparison iff no labels, #ifdef reads definedness only', 10)
    ev = ctx.repo.func(COND + '.IfPreprocessorCondition._evaluate_condition')
    got = {}
    for n in walk_no_nested(ev.node):
        if isinstance(n, ast.If) and isinstance(n.test, ast.Compare) and unparse(n.test.left) == 'self._operator' \
                and isinstance(n.test.comparators[0], ast.Constant):
            r = next((s for s in n.body if isinstance(s, ast.Return)), None)
            if r is not None and isinstance(r.value, ast.Compare) and len(r.value.ops) == 1:
                got[n.test.comparators[0].value] = (type(r.value.ops[0]), unparse(r.value.left), unparse(r.value.comparators[0]), n)
    # ... or a table of the operator module's functions indexed by the operator text and applied to (lhs, rhs)
    _OPF = {'operator.eq': ast.Eq, 'operator.ne': ast.NotEq, 'operator.gt': ast.Gt, 'operator.ge': ast.GtE, 'operator.lt': ast.Lt, 'operator.le': ast.LtE}
    if not got:
        for r in returns(ev):
            v = r.value
            if isinstance(v, ast.Call) and len(v.args) == 2 and not v.keywords:
                f_ = deref(ctx, ev, v.func, r)
                tbl = None
                if isinstance(f_, ast.Call) and isinstance(f_.func, ast.Attribute) and f_.func.attr == 'get' and f_.args and unparse(f_.args[0]) == 'self._operator':
                    tbl = f_.func.value
                elif isinstance(f_, ast.Subscript) and unparse(f_.slice) == 'self._operator':
                    tbl = f_.value
                if tbl is not None:
                    from engine.fold import Ref
                    try:
                        d_ = ctx.fold.try_fold(tbl, ev.module, ev.cls)
                    except Exception:
                        d_ = None
                    if isinstance(d_, dict):
                        for k_, fv in d_.items():
                            name = fv.dotted if isinstance(fv, Ref) else None
                            if name in _OPF:
                                got[k_] = (_OPF[name], unparse(v.args[0]), unparse(v.args[1]), r)
    for op, want in _CMP.items():
        g = got.get(op)
        ctx.check(g is not None and g[0] is want and g[1] == 'lhs_value' and g[2] == 'rhs_value', f'op:{op}', ev.site(g[3]) if g else ev.site(),
                  f"operator '{op}' compares lhs {op} rhs", f'{g[1]} {g[0].__name__} {g[2]}' if g else 'no branch')
    # numeric iff no labels
    res = resolver(ctx, ev, inline=False)
    num = [n for n in walk_no_nested(ev.node) if isinstance(n, ast.Assign) and unparse(n.targets[0]) in ('lhs_value', 'rhs_value')]
    kinds = {}
    for n in num:
        cl = facts_at(ctx, ev, n, res)
        under_labels = None
        for c in cl:
            s = describe_facts([c])
            if 'contained_labels' in s:
                # T branch: some side contains labels (clause is a disjunction); F branch: neither (two unit clauses)
                under_labels = len(c) > 1
                if under_labels and not all('contained_labels' in describe_facts([frozenset([l_])]) for l_ in c):
                    under_labels = 'labels or something else: ' + s      # text comparison is for sides with labels only
        kinds[(unparse(n.targets[0]), under_labels)] = unparse(n.value)
    ok = kinds.get(('lhs_value', True)) == 'lhs_resolved' and kinds.get(('rhs_value', True)) == 'rhs_resolved' and \
        'get_value' in kinds.get(('lhs_value', False), '') and 'get_value' in kinds.get(('rhs_value', False), '')
    ctx.check(ok, 'compare:integers-iff-numeric', ev.site(), 'both sides are compared as integers iff neither contains a label, else as text',
              f'{kinds}')
    hm = ctx.repo.func(COND + '.IfPreprocessorCondition._handle_matching')
    st_op = [(s, v) for s, t, v in self_attr_stores(hm.node, '_operator')]
    st_rhs = [(s, v) for s, t, v in self_attr_stores(hm.node, '_rhs_expression')]
    implied = any(isinstance(v, ast.Constant) and v.value == '!=' for s, v in st_op) and any(isinstance(v, ast.Constant) and v.value == '0' for s, v in st_rhs)
    ctx.check(implied, 'compare:bare-means-not-zero', hm.site(), "a bare expression means `!= 0`", f'{[unparse(v) for s, v in st_op]} / {[unparse(v) for s, v in st_rhs]}')
    # the bare form is taken only if the bare pattern accounts for the whole directive: `#if X==1` is not the bare expression X
    r_hm = resolver(ctx, hm, inline=False)
    bare_st = [s_ for s_, v in st_op if isinstance(v, ast.Constant) and v.value == '!=']
    ok = bool(bare_st)
    why = 'no bare-form branch'
    for s_ in bare_st:
        cl = facts_at(ctx, hm, s_, r_hm)
        good = any(len(c) == 1 and next(iter(c))[0] == 'eq' and '.end()' in str(next(iter(c))[1]) and 'len(' in str(next(iter(c))[1]) for c in cl)
        ok = ok and good
        if not good:
            why = describe_facts(cl)
    ctx.check(ok, 'compare:bare-form-whole-directive', hm.site(bare_st[0]) if bare_st else hm.site(),
              'the bare form `#if <expr>` is used only when the bare pattern\'s match ends where the directive ends',
              f'bare form taken under {why}: a comparison written without blanks (`#if X==1`) is read as the bare `#if X`')
    grp = [(s_, v) for s_, v in st_op if not isinstance(v, ast.Constant)]
    cmp_param = hm.param_names[3] if len(hm.param_names) > 3 else 'compare_pattern'
    ok = len(grp) == 1
    if ok:
        s_, v = grp[0]
        ok = isinstance(v, ast.Call) and isinstance(v.func, ast.Attribute) and v.func.attr == 'group' and len(v.args) == 1 \
            and isinstance(v.args[0], ast.Constant) and v.args[0].value == 2
        if ok:
            d = deref(ctx, hm, v.func.value, s_)
            ok = isinstance(d, ast.Call) and isinstance(d.func, ast.Attribute) and d.func.attr in ('match', 'fullmatch') and unparse(d.func.value) == cmp_param
    ctx.check(ok, 'compare:operator-from-pattern', hm.site(), 'the operator is group 2 of the comparison pattern\'s match', str([unparse(v) for _, v in grp]))
    # each directive is parsed with its own pair of patterns (comparison form first, bare form second)
    for cname, pair in (('IfPreprocessorCondition', ('PREPROCESSOR_CONDITION_IF_PATTERN', 'PREPROCESSOR_CONDITION_IMPLIED_IF_PATTERN')),
                        ('ElifPreprocessorCondition', ('PREPROCESSOR_CONDITION_ELIF_PATTERN', 'PREPROCESSOR_CONDITION_IMPLIED_ELIF_PATTERN'))):
        ini = ctx.repo.func(f'{COND}.{cname}.__init__')
        cs = [c for c in ast.walk(ini.node) if isinstance(c, ast.Call) and unparse(c.func) == 'self._handle_matching']
        ok = len(cs) == 1
        if ok:
            b = bind_args(cs[0], hm)
            ok = (unparse(b.get(hm.param_names[3])), unparse(b.get(hm.param_names[4]))) == pair and unparse(b.get(hm.param_names[1])) == ini.param_names[1]
        ctx.check(ok, f'compare:patterns:{cname}', ini.site(cs[0]) if cs else ini.site(), f'{cname} parses its own line text with {pair[0]} then {pair[1]}', '; '.join(unparse(c)[:120] for c in cs))
    for name in ('PREPROCESSOR_CONDITION_IF_PATTERN', 'PREPROCESSOR_CONDITION_ELIF_PATTERN'):
        pat = ctx.fold.module_const(COND, name).pattern
        ctx.check('(==|!=|>|>=|<|<=)' in pat or all(o in pat for o in ('==', '!=', '>=', '<=')), f'compare:pattern-ops:{name}',
                  f'{ctx.repo.module(COND).relpath}:13', 'the pattern recognises the six comparison operators', pat[:80])
    # ifdef
    idf = ctx.repo.func(COND + '.IfdefPreprocessorCondition.evaluate')
    def ren(s):
        return s.replace('symbol is None', 'UNDEF').replace('self._is_ifndef', 'NDEF')
    ok, why = boolform.equals(idf.node, lambda e: e['NDEF'] == e['UNDEF'], ['UNDEF', 'NDEF'], ren)
    ctx.check(ok, 'ifdef:definedness-only', idf.site(), '#ifdef holds iff the symbol is defined, #ifndef iff it is not', why)
    sym = [n for n in ast.walk(idf.node) if isinstance(n, ast.Assign) and unparse(n.targets[0]) == 'symbol']
    ctx.check(len(sym) == 1 and unparse(sym[0].value) == 'preprocessor.get_symbol(self._symbol)', 'ifdef:lookup', idf.site(),
              'definedness is looked up by the directive\'s symbol name', '; '.join(unparse(s) for s in sym))
    init = ctx.repo.func(COND + '.IfdefPreprocessorCondition.__init__')
    st = self_attr_stores(init.node, '_is_ifndef')
    ctx.check(len(st) == 1 and unparse(st[0][2]) == "match.group(1) == '#ifndef'", 'ifdef:polarity', init.site(),
              "the polarity flag is set exactly for '#ifndef'", '; '.join(unparse(s[0]) for s in st))


def mute_state(ctx):
    ctx.rule('C08.M', 'mute state: saturating counter, muted iff counter > 0', 3)
    cs = ctx.repo.cls(CS)
    im = cs.methods['is_muted']
    rr = returns(im)
    r0 = resolver(ctx, im, inline=False)
    from engine.lin import to_cnf
    ok = len(rr) == 1 and to_cnf(rr[0].value, True, r0) == [frozenset({lit_cmp(ctx, im, 'self._mute_counter > 0', r0)})]
    ctx.check(ok, 'mute:muted-iff-positive', im.site(), 'lines are muted iff the mute counter is positive', '; '.join(unparse(r) for r in rr))
    pc = ctx.repo.func(CS + '.process_condition')
    ups = [c for m, c in _counter_updates(ctx) if m is pc and isinstance(c, ast.AugAssign)]
    ai = [c for c in ups if isinstance(c.op, ast.Add)]
    ctx.check(len(ai) == 1 and unparse(ai[0].value) == '1', 'mute:increment', pc.site(ai[0]) if ai else pc.site(), '#mute raises the counter by one', '; '.join(unparse(a) for a in ai))
    ad = [c for c in ups if isinstance(c.op, ast.Sub)]
    ok = len(ad) == 1 and unparse(ad[0].value) == '1'
    if ok:
        rd = resolver(ctx, pc, inline=False)
        cl = facts_at(ctx, pc, ad[0], rd)
        ok = clause_implies_(cl, lit_cmp(ctx, pc, 'self._mute_counter > 0', rd))
    ctx.check(ok, 'mute:decrement-saturates', pc.site(ad[0]) if ad else pc.site(), '#emit/#unmute lowers the counter only while it is positive (a surplus #emit is a no-op)',
              '; '.join(unparse(a) for a in ad) + ' without a dominating `counter > 0` test: a surplus #emit makes the counter negative and the next '
              '#mute no longer mutes')
    init = cs.methods['__init__']
    st = self_attr_stores(init.node, '_mute_counter')
    ctx.check(len(st) == 1 and unparse(st[0][2]) == '0', 'mute:starts-unmuted', init.site(), 'a file starts unmuted', '; '.join(unparse(x[0]) for x in st))


def clause_implies_(cl, lit):
    from engine.lin import clause_implies
    return clause_implies(cl, lit)


def c08_state(ctx):
    """Per-statement / per-lookup properties presuppose that nothing is remembered between statements beyond the reviewed state."""
    from rules.shared import state_discipline
    state_discipline(ctx, ('bespokeasm.assembler.preprocessor', 'bespokeasm.assembler.line_object.preprocessor_line', 'bespokeasm.assembler.assembly_file', 'bespokeasm.assembler.line_object.factory'))


def c08_openers(ctx):
    ctx.rule('C08.9', 'every opener (#if, #ifdef, #ifndef) and every #elif may be continued by #elif / #else', 2)
    want = {'ElifPreprocessorCondition': ({'IfPreprocessorCondition', 'ElifPreprocessorCondition', 'IfdefPreprocessorCondition'}, True)}
    for cname, (need, positive) in want.items():
        f = ctx.repo.func(f'{COND}.{cname}._check_and_set_parent')
        st = [s_ for s_, t, v in self_attr_stores(f.node, '_parent')]
        ok = len(st) == 1
        got = set()
        if ok:
            r_ = resolver(ctx, f, inline=False)
            cl = facts_at(ctx, f, st[0], r_)
            # the parent is stored under a disjunction of isinstance tests: the accepted kinds
            for c in cl:
                if all(l[0] == 'isinstance' and l[-1] is True for l in c):
                    got |= {l[2] for l in c}
            ok = got == need
        ctx.check(ok, f'chain:{cname}:accepted-parents', f.site(), f'{cname[:-21] or cname} continues a chain opened by #if, #ifdef or #ifndef (or another #elif)',
                  f'accepted parent kinds: {sorted(got)}')
    f = ctx.repo.func(f'{COND}.ElsePreprocessorCondition._check_and_set_parent')
    r_ = resolver(ctx, f, inline=False)
    st = [s_ for s_, t, v in self_attr_stores(f.node, '_parent')]
    ok = len(st) == 1
    rej = set()
    if ok:
        for c in facts_at(ctx, f, st[0], r_):
            for l in c:
                if l[0] == 'isinstance' and l[-1] is False:
                    rej.add(l[2])
        ok = rej == {'ElsePreprocessorCondition', 'EndifPreprocessorCondition'}
    ctx.check(ok, 'chain:else:accepted-parents', f.site(), '#else continues any chain that has no #else yet', f'rejected parent kinds: {sorted(rej)}')


def c08_latch(ctx):
    ctx.rule('C08.8', 'a branch decision is taken once, when its directive is reached: no condition class opts out of the latch', 3)
    base = ctx.repo.cls(COND + '.PreprocessorCondition')
    for name in ('latch', '_current_value', 'is_lineage_true'):
        impls = [f for f in base.implementations(name)]
        extra = [f for f in impls if f.cls is not base]
        ctx.check(name in base.methods and not extra, f'latch:{name}:single-implementation', (extra[0].site() if extra else base.methods[name].site()) if name in base.methods else '-',
                  f'{name} is implemented by PreprocessorCondition only (every directive kind remembers the value it had when it was reached)',
                  '; '.join(ctx.short(f) for f in extra) + ' overrides it')
    lt = base.methods.get('latch')
    if lt is not None:
        st = self_attr_stores(lt.node, '_latched_value')
        rr = returns(lt)
        ok = len(st) == 1 and unparse(st[0][2]) == f'self.evaluate({lt.call_params[0].arg})' and len(rr) == 1 and unparse(rr[0].value) == 'self._latched_value'
        ctx.check(ok, 'latch:stores-evaluation', lt.site(), 'latch evaluates the condition once, stores the result and returns the stored result', '; '.join(unparse(s_[0]) for s_ in st))
    lin_ = base.methods.get('is_lineage_true')
    if lin_ is not None:
        # whatever its control flow (recursion up the parents, or a loop), the lineage test reads remembered values only
        ev = [c for c in ast.walk(lin_.node) if isinstance(c, ast.Call) and isinstance(c.func, ast.Attribute) and c.func.attr in ('evaluate', '_evaluate_condition')]
        ctx.check(not ev, 'latch:lineage-reads-latched-values', lin_.site(ev[0]) if ev else lin_.site(),
                  'whether an earlier branch of the chain was selected is read from the value latched when that branch was reached, never re-evaluated',
                  f'{unparse(ev[0]) if ev else ""}: a #define inside the selected branch changes what the opener evaluates to, and a later #else is selected too')
    cv = base.methods.get('_current_value')
    if cv is not None:
        r0 = resolver(ctx, cv, inline=False)
        rets = returns(cv)
        ok = any(unparse(r.value) == 'self._latched_value' and any(c == frozenset({('isnone', 'self._latched_value', False)}) for c in facts_at(ctx, cv, r, r0)) for r in rets)
        ctx.check(ok, 'latch:value-reused', cv.site(), 'once latched, the stored value is what later look-ups see', '; '.join(unparse(r) for r in rets))


def c08_numeric(ctx):
    """"Conditions compare integers when both sides are numeric": what is numeric is decided by the literal notations of C07.5."""
    from rules.c07 import c07_5
    c07_5(ctx)


def c08_per_file(ctx):
    """A conditional chain lives in one file: every file is read with a condition stack of its own (C17.5)."""
    from rules.c17 import c17_5
    c17_5(ctx)

def c08_keyword_spacing(ctx):
    """A conditional directive is recognised whatever blank follows its keyword (C18.2): an unrecognised `#elif<TAB>..` inside an
    unselected branch is swallowed silently and the chain selects the wrong branch."""
    from rules.c18 import c18_2
    c18_2(ctx)


def c08_dispatch(ctx):
    """A conditional directive acts on the chain whether or not the branch it stands in is selected (that is how the chain of an
    unselected branch is closed, and how a nested chain is kept apart from the enclosing one): the way from a `#` line to the
    ConditionLine construction does not ask about the current activity, and its only text tests are the directive prefixes."""
    ctx.rule('C08.10', 'conditional directives reach the condition stack whatever the current activity', 2)
    pl = ctx.repo.func('bespokeasm.assembler.line_object.factory.LineOjectFactory.parse_line')
    fac = ctx.repo.func(FACT)
    sites = [(pl, c) for c in walk_no_nested(pl.node) if isinstance(c, ast.Call) and unparse(c.func).split('.')[-2:] == ['PreprocessorLineFactory', 'parse_line']]
    sites += [(fac, c) for c in walk_no_nested(fac.node) if isinstance(c, ast.Call) and unparse(c.func) == 'ConditionLine']
    if len(sites) < 2:
        raise AnalysisError('the directive dispatch (LineOjectFactory.parse_line -> PreprocessorLineFactory.parse_line -> ConditionLine) is not found')
    for fn, c in sites:
        res = resolver(ctx, fn, inline=False)
        cl = facts_at(ctx, fn, c, res)
        s = describe_facts(cl)
        bad = [w for w in ('currently_active', 'is_muted', 'condition_stack', '_stack') if w in s]
        ctx.check(not bad, f'dispatch:{unparse(c.func).split(".")[-1] if unparse(c.func) != "ConditionLine" else "ConditionLine"}', fn.site(c),
                  'a conditional directive is handed to the condition stack under tests of its text only, never of the current activity',
                  f'reached under: {s[:300]} - inside an unselected branch some spellings of #if/#elif/#else/#endif no longer act on the chain')


RULES = [c08_dispatch, c08_1, c08_2, c08_3, c08_6, c08_7, mute_state, c08_state, c08_latch, c08_openers, c08_numeric, c08_per_file, c08_keyword_spacing]

_CSF = 'assembler/preprocessor/condition_stack.py'
_CF = 'assembler/preprocessor/condition.py'
_PF = 'assembler/line_object/preprocessor_line/factory.py'
_AF = 'assembler/assembly_file.py'
MUTANTS = [
    V('c08-bare-form-prefix-match', 'assembler/preprocessor/condition.py', "            if match2 is None or match2.end() != len(line_str.strip()):", "            if match2 is None:", 'C08.7'),
    V('c08-elif-not-after-ifdef', 'assembler/preprocessor/condition.py', " \\\n                or isinstance(parent, IfdefPreprocessorCondition):", ":", 'C08.9'),
    V('c08-ifdef-not-latched', 'assembler/preprocessor/condition.py', "class IfdefPreprocessorCondition(PreprocessorCondition):\n", "class IfdefPreprocessorCondition(PreprocessorCondition):\n    def latch(self, preprocessor):\n        return self.evaluate(preprocessor)\n\n", 'C08.8'),
    V('c08-elif-bare-uses-if-pattern', 'assembler/preprocessor/condition.py', "            PREPROCESSOR_CONDITION_ELIF_PATTERN,\n            PREPROCESSOR_CONDITION_IMPLIED_ELIF_PATTERN,", "            PREPROCESSOR_CONDITION_ELIF_PATTERN,\n            PREPROCESSOR_CONDITION_IMPLIED_IF_PATTERN,", 'C08.7'),
    V('c08-top-only', _CSF, '        self._active.append(enclosing_active and condition.latch(preprocessor))', '        self._active.append(condition.latch(preprocessor))', 'C08.1'),
    V('c08-enclosing-or', _CSF, '        self._active.append(enclosing_active and condition.latch(preprocessor))', '        self._active.append(enclosing_active or condition.latch(preprocessor))', 'C08.1'),
    V('c08-evaluate-in-active', _CSF, '        return self._active[-1]\n', '        return self._active[-1] and self._stack[-1].evaluate(preprocessor)\n', 'C08.2'),
    V('c08-flag-not-popped', _CSF, '            self._stack.pop()\n            self._active.pop()\n', '            self._stack.pop()\n', 'C08.1'),
    V('c08-lineage-reevaluates', _CF, '        return self.parent.is_lineage_true(preprocessor) or self._current_value(preprocessor)', '        return self.parent.is_lineage_true(preprocessor) or self.evaluate(preprocessor)', 'C08.2'),
    V('c08-define-unguarded', _PF, '''        if not condition_stack.currently_active(preprocessor):
            # no other directive has any effect inside a branch that is not selected
            return [PreprocessorLine(line_id, instruction, comment, current_memzone)]

        if instruction.startswith('#require '):''', '''        if instruction.startswith('#require '):''', 'C08.3'),
    V('c08-include-unguarded', _AF, '''                            if not condition_stack.currently_active(preprocessor):
                                # an include inside a branch that is not selected has no effect
                                continue
''', '', 'C08.3'),
    V('c08-else-ignores-lineage', _CF, '        return not self.parent.is_lineage_true(preprocessor)', '        return not self.parent._current_value(preprocessor)', 'C08.6'),
    V('c08-elif-ignores-lineage', _CF, '''        if self.parent.is_lineage_true(preprocessor):
            return False
        return self._evaluate_condition(preprocessor)''', '''        if self.parent._current_value(preprocessor):
            return False
        return self._evaluate_condition(preprocessor)''', 'C08.6'),
    V('c08-ge-is-gt', _CF, "        elif self._operator == '>=':\n            return lhs_value >= rhs_value", "        elif self._operator == '>=':\n            return lhs_value > rhs_value", 'C08.7'),
    V('c08-mute-unguarded', _CSF, '''        elif isinstance(condition, MutePreprocessorCondition):
            if self.currently_active(preprocessor):
                self._increment_mute_counter()''', '''        elif isinstance(condition, MutePreprocessorCondition):
            self._increment_mute_counter()''', 'C08.3'),
    V('c08-ifndef-flag', _CF, "self._is_ifndef = match.group(1) == '#ifndef'", "self._is_ifndef = match.group(1) != '#ifdef '", 'C08.7'),
    V('c08-implied-eq', _CF, "            self._operator = '!='\n", "            self._operator = '=='\n", 'C08.7'),
    V('c08-endif-no-pop', _CSF, '''        if isinstance(condition, EndifPreprocessorCondition):
            self._stack.pop()
            self._active.pop()''', '''        if isinstance(condition, EndifPreprocessorCondition) and len(self._stack) > 1:
            self._stack.pop()
            self._active.pop()''', 'C08.6'),
    V('c08-compilable-true', _AF, 'lobj.compilable = condition_stack.currently_active(preprocessor)', 'lobj.compilable = True', 'C08.3'),
    V('c08-indexerror-swallowed', 'assembler/line_object/preprocessor_line/condition_line.py', '''        except IndexError:
            sys.exit(
                f'ERROR - {line_id}: Preprocessor condition has no matching counterpart'
            )''', '''        except IndexError:
            pass''', 'C08.6'),
    V('c08-numeric-always-string', _CF, '''            lhs_value = lhs_expression.get_value(None, self._line)
            rhs_value = rhs_expression.get_value(None, self._line)''', '''            lhs_value = lhs_resolved
            rhs_value = rhs_resolved''', 'C08.7'),
    V('c08-ifdef-value', _CF, '''        if symbol is None:
            return self._is_ifndef
        else:
            return not self._is_ifndef''', '''        if symbol is None or symbol.value == '0':
            return self._is_ifndef
        else:
            return not self._is_ifndef''', 'C08.7'),
    V('c08-latch-lazy', _CF, '        self._latched_value = self.evaluate(preprocessor)\n        return self._latched_value', '        return self.evaluate(preprocessor)', 'C08.2'),
]
MUTANTS += [
    V('c08-mute-counter-negative', _CSF, '''        if self._mute_counter > 0:
            self._mute_counter -= 1''', '''        self._mute_counter -= 1''', 'C08.M'),
    V('c08-scope-open-unselected', _AF, '''                            if lobj.compilable:
                                if isinstance(lobj, LabelLine):
                                    if not lobj.is_constant \\
                                            and LabelScopeType.get_label_scope(lobj.get_label()) != LabelScopeType.LOCAL:
                                        current_scope = LabelScope(LabelScopeType.LOCAL, self.label_scope, lobj.get_label())
''', '''                            if isinstance(lobj, LabelLine):
                                if not lobj.is_constant \\
                                        and LabelScopeType.get_label_scope(lobj.get_label()) != LabelScopeType.LOCAL:
                                    current_scope = LabelScope(LabelScopeType.LOCAL, self.label_scope, lobj.get_label())
                            if lobj.compilable:
                                if isinstance(lobj, LabelLine):
                                    pass
''', 'C08.3'),
]
TWINS = [
    V('c08-t-if-not-form', _CF, '''        if self.parent.is_lineage_true(preprocessor):
            return False
        return self._evaluate_condition(preprocessor)''', '''        return not self.parent.is_lineage_true(preprocessor) and self._evaluate_condition(preprocessor)'''),
    V('c08-t-active-var', _PF, '''        if not condition_stack.currently_active(preprocessor):
            # no other''', '''        is_active = condition_stack.currently_active(preprocessor)
        if not is_active:
            # no other'''),
    V('c08-t-ifdef-expr', _CF, '''        if symbol is None:
            return self._is_ifndef
        else:
            return not self._is_ifndef''', '''        return self._is_ifndef if symbol is None else not self._is_ifndef'''),
]
