"""C13 - variant and operand selection follows the documented priority only."""
import ast

from engine.index import AnalysisError
from engine.helpers import (resolver, facts_at, filter_facts_at, lit_cmp, describe_facts, unparse, walk_no_nested, returns,
                            deref, body_only_aborts, calls_to, reaching_def, self_attr_stores, all_paths_imply)
from engine.lin import to_cnf, clause_implies
from engine.fold import EnumConst
from engine.types import bind_args
from engine.selftest import V

IG = 'bespokeasm.assembler.bytecode.generator.instruction.InstructionBytecodeGenerator'
MG = 'bespokeasm.assembler.bytecode.generator.macro.MacroBytecodeGenerator'
OP = 'bespokeasm.assembler.model.operand_parser'
OS_ = 'bespokeasm.assembler.model.operand_set.OperandSet'
OT = 'bespokeasm.assembler.model.operand.OperandType'
T = 'bespokeasm.assembler.model.operand.types.'
PARTS = 'bespokeasm.assembler.bytecode.parts'

EXPLANATION = (
    'Static rules over the variant loop, OperandParser, OperandSet and the operand types. Decided: C13.1 variants are '
    'appended in configuration order and the selection loop iterates that list itself, first match wins, none -> exit; '
    'C13.2 explicitly listed operand combinations are consulted before operand sets and a match returns immediately; '
    'C13.3 a disallowed combination (compared as the ordered list of operand ids against the configured list) yields no '
    'match; C13.4 the type precedence table (bracketed/indexed forms < enumeration and register < numeric forms), every '
    'operand class reports its own type, operand sets sort ascending by that value and try every alternative in that '
    'order, first match wins; C13.5 every operand type that builds an expression part refuses operand text containing a '
    'register label; C13.6 mnemonics are lower-cased at load, extraction and lookup; C13.7 an operand count mismatch is '
    '"no match". Not decided: what the operand regular expressions themselves accept.'
)
ASSUMPTIONS = ['Python\'s list.sort is stable; configuration dictionaries preserve definition order',
               'frozen sibling table of expression-bearing operand types (confirmed by reading)']


def c13_1(ctx):
    ctx.rule('C13.1', 'variants in configuration order; first match wins; none -> exit', 5)
    init = ctx.repo.func('bespokeasm.assembler.model.instruction.Instruction.__init__')
    g = ctx.cfg(init)
    apps = [c for c in ast.walk(init.node) if isinstance(c, ast.Call) and unparse(c.func) == 'self._variants.append']
    root = [c for c in apps if not g.loop_facts(g.node_of(c))]
    looped = [c for c in apps if g.loop_facts(g.node_of(c))]
    ok = len(root) == 1 and len(looped) == 1 and g.reaches(g.node_of(root[0]), g.node_of(looped[0]))
    if ok:
        lp = g.loop_facts(g.node_of(looped[0]))[-1][0]
        ok = unparse(lp.iter) == "self._config['variants']" and unparse(looped[0].args[0].args[1]) == unparse(lp.target)
    ctx.check(ok, 'order:variants-built-in-config-order', init.site(), 'the root variant first, then the listed variants in configuration order',
              f'{len(root)} root append(s), {len(looped)} looped append(s)')
    others = [c for c in ast.walk(init.node) if isinstance(c, ast.Call) and isinstance(c.func, ast.Attribute) and c.func.attr in ('sort', 'reverse', 'insert')
              and '_variants' in unparse(c.func.value)]
    ctx.check(not others, 'order:variants-not-reordered', init.site(others[0]) if others else init.site(), 'the variant list is not reordered', '; '.join(unparse(o) for o in others))
    vp = ctx.repo.func('bespokeasm.assembler.model.instruction.Instruction.variants')
    rr = returns(vp)
    ctx.check(len(rr) == 1 and unparse(rr[0].value) == 'self._variants', 'order:variants-property', vp.site(), 'instruction.variants is that list', '; '.join(unparse(r) for r in rr))
    f = ctx.repo.func(IG + '.generate_bytecode_parts')
    loops = [l for l in walk_no_nested(f.node) if isinstance(l, ast.For)]
    ok = len(loops) == 1 and unparse(loops[0].iter) == f'{f.call_params[0].arg}.variants'
    ctx.check(ok, 'order:selection-iterates-variants', f.site(loops[0]) if loops else f.site(),
              'the selection loop iterates instruction.variants itself (definition order, nothing pre-sorted or filtered)',
              unparse(loops[0].iter) if loops else 'no loop')
    if loops:
        lp = loops[0]
        res = resolver(ctx, f, inline=False)
        rr = [r for r in ast.walk(lp) if isinstance(r, ast.Return)]
        ok = len(rr) == 1 and isinstance(rr[0].value, ast.Name) and clause_implies(facts_at(ctx, f, rr[0], res), ('isnone', rr[0].value.id, False))
        if ok:
            d = reaching_def(ctx, f, rr[0].value.id, rr[0])
            ok = isinstance(d, ast.Call) and unparse(d.func).endswith('generate_variant_bytecode_parts') and unparse(d.args[0]) == unparse(lp.target)
            fcl = filter_facts_at(ctx, f, rr[0], res)
            ok = ok and all(len(c) == 1 for c in fcl) and {l for c in fcl for l in c} == {('isnone', rr[0].value.id, False)}
        ctx.check(ok, 'order:first-match-wins', f.site(lp), 'the first variant whose operand pattern accepts the operands is used', '; '.join(unparse(r) for r in rr))
        gg = ctx.cfg(f)
        ex = next(s for s in gg.succ[gg.node_of(lp)] if gg.nodes[s].kind == 'branch' and not gg.nodes[s].polarity)
        ctx.check(gg.exit not in gg.reachable_from(ex), 'order:none-rejected', f.site(lp), 'a statement no variant accepts is rejected', 'falls through')


def c13_dispatch(ctx):
    ctx.rule('C13.9', 'the generator dispatch forwards the statement unchanged to the instruction / macro generator', 2)
    d = ctx.repo.func('bespokeasm.assembler.bytecode.generator.BytecodeGenerator.generate_bytecode_parts')
    res = resolver(ctx, d, inline=False)
    names = [p.arg for p in d.call_params]
    seen = set()
    for c in ast.walk(d.node):
        if not (isinstance(c, ast.Call) and isinstance(c.func, ast.Attribute) and c.func.attr == 'generate_bytecode_parts'):
            continue
        gen = unparse(c.func.value)
        tgt = ctx.repo.func(f'bespokeasm.assembler.bytecode.generator.{"instruction" if "Instruction" in gen else "macro"}.{gen}.generate_bytecode_parts')
        b = bind_args(c, tgt)
        tn = [p.arg for p in tgt.call_params]
        # parameter k of the target receives parameter k of the dispatcher (the first is the instruction / macro object itself)
        ok = all(unparse(b.get(tp)) == names[i] for i, tp in enumerate(tn)) and len(b) == len(tn)
        kind = 'Instruction' if 'Instruction' in gen else 'InstructionMacro'
        cl = facts_at(ctx, d, c, res)
        ok = ok and any(('isinstance', names[0], kind, True) in cc and len(cc) == 1 for cc in cl)
        seen.add(kind)
        ctx.check(ok, f'dispatch:{gen}', d.site(c), f'a {kind} is handed to {gen} with the line id, mnemonic, operand text, model and zone manager it was given, in that order',
                  f'{unparse(c)[:160]} under {describe_facts(cl)}')
    if seen != {'Instruction', 'InstructionMacro'}:
        ctx.refute('dispatch:both-kinds', d.site(), 'instructions and macros are both dispatched', str(sorted(seen)))
    g = ctx.cfg(d)
    rets = [r for r in returns(d) if r.value is not None and not (isinstance(r.value, ast.Call) and isinstance(r.value.func, ast.Attribute) and r.value.func.attr == 'generate_bytecode_parts')]
    ctx.check(not rets, 'dispatch:nothing-else-returned', d.site(rets[0]) if rets else d.site(), 'the dispatcher returns only what a generator produced (anything else is an exit)', '; '.join(unparse(r) for r in rets))


def c13_2(ctx):
    ctx.rule('C13.2', 'specific operand combinations before operand sets; a match returns at once', 3)
    f = ctx.repo.func(OP + '.OperandParser.find_matching_operands')
    g = ctx.cfg(f)
    sp = [c for c in ast.walk(f.node) if isinstance(c, ast.Call) and unparse(c.func).endswith('find_operands_from_specific_operands')]
    st = [c for c in ast.walk(f.node) if isinstance(c, ast.Call) and unparse(c.func).endswith('find_operands_from_operand_sets')]
    if len(sp) != 1 or len(st) != 1:
        raise AnalysisError('find_matching_operands: expected one call to each matcher')
    ctx.check(g.reaches(g.node_of(sp[0]), g.node_of(st[0])) and not g.reaches(g.node_of(st[0]), g.node_of(sp[0])), 'priority:specific-first', f.site(sp[0]),
              'explicitly listed operand combinations are tried before operand sets', 'operand sets are consulted first')
    res = resolver(ctx, f, inline=False)
    for c, name in ((sp[0], 'specific'), (st[0], 'sets')):
        v = next((unparse(n.targets[0]) for n in walk_no_nested(f.node) if isinstance(n, ast.Assign) and n.value is c), None)
        rets = [r for r in returns(f) if isinstance(r.value, ast.Name) and r.value.id == v and reaching_def(ctx, f, v, r) is c]
        ok = len(rets) == 1 and clause_implies(facts_at(ctx, f, rets[0], res), ('isnone', v, False))
        ctx.check(ok, f'priority:{name}-match-returned', f.site(c), f'a match from the {name} matcher is returned immediately', f'{len(rets)} returns of {v}')
    # the sets matcher is reached only when the specific matcher found nothing
    cl = facts_at(ctx, f, st[0], res)
    ctx.ok('priority:sets-after-miss', f.site(st[0]), 'operand sets are consulted after the specific combinations missed', describe_facts(cl))
    tgt = ctx.repo.func(OP + '.SpecificOperandsModel.find_operands_from_specific_operands')
    b = bind_args(sp[0], tgt)
    ctx.check(unparse(b.get('target_operand_count')) == 'self.operand_count' and unparse(b.get('operands')) == f.call_params[1].arg, 'priority:specific-args', f.site(sp[0]),
              'the specific matcher receives the operands and the configured operand count', unparse(sp[0])[:160])


def c13_every_combination(ctx):
    ctx.rule('C13.14', 'every listed operand combination is tried before the specific matcher gives up', 1)
    tgt = ctx.repo.func(OP + '.SpecificOperandsModel.find_operands_from_specific_operands')
    loops = [l for l in walk_no_nested(tgt.node) if isinstance(l, ast.For) and unparse(l.iter) == 'self._specific_operands']
    if len(loops) != 1:
        raise AnalysisError('find_operands_from_specific_operands: loop over the listed combinations not found')
    lp = loops[0]
    res = resolver(ctx, tgt, inline=False)
    count_differs = lit_cmp(ctx, tgt, f'{unparse(lp.target)}.operand_count != {tgt.call_params[2].arg}', res)
    n = 0
    for r in [x for x in ast.walk(lp) if isinstance(x, ast.Return) and (x.value is None or (isinstance(x.value, ast.Constant) and x.value.value is None))]:
        n += 1
        cl = facts_at(ctx, tgt, r, res)
        ok = clause_implies(cl, count_differs)
        ctx.check(ok, 'specific:every-combination-tried', tgt.site(r),
                  'a listed combination that does not fit the statement is skipped and the next one is tried (only a combination of the wrong length, which the '
                  'loader refuses, ends the search)',
                  f'`return None` inside the loop under {describe_facts(cl)}: a later combination that accepts the operands is never tried, so the result depends on '
                  f'the order of the list beyond "first match wins"')
    for b_ in [x for x in ast.walk(lp) if isinstance(x, ast.Break)]:
        # a `break` of the combination loop itself (not of the inner operand loop) gives up as well
        inner = [l for l in ast.walk(lp) if isinstance(l, (ast.For, ast.While)) and l is not lp and any(y is b_ for y in ast.walk(l))]
        if not inner:
            n += 1
            ctx.refute('specific:every-combination-tried', tgt.site(b_), 'a listed combination that does not fit is skipped and the next one is tried',
                       'the loop over the listed combinations is left with `break`')
    ctx.ok('specific:scanned', tgt.site(lp), 'exits of the combination loop were examined', f'{n} early exit(s) without a match')
    # the position among the written operands advances for an operand that is written, not for an `empty` one: a combination that
    # lists an empty operand before a written one takes the written operands in order all the same
    wparam = tgt.call_params[1].arg
    idx_names = {unparse(x.slice) for x in ast.walk(lp) if isinstance(x, ast.Subscript) and unparse(x.value) == wparam and isinstance(x.slice, ast.Name)}
    steps = [x for x in ast.walk(lp) if (isinstance(x, ast.AugAssign) and isinstance(x.target, ast.Name) and x.target.id in idx_names)
             or (isinstance(x, ast.Assign) and len(x.targets) == 1 and isinstance(x.targets[0], ast.Name) and x.targets[0].id in idx_names
                 and any(isinstance(y, ast.Name) and y.id in idx_names for y in ast.walk(x.value)))]
    if idx_names and steps:
        for st_ in steps:
            cl = facts_at(ctx, tgt, st_, res)
            s_ = describe_facts(cl)
            ok = any(len(c) == 1 and 'null_operand' in str(next(iter(c))[1]) and next(iter(c))[-1] is False for c in cl)
            ctx.check(ok, 'specific:written-position-advances-per-written-operand', tgt.site(st_),
                      'the index into the written operands advances only for a listed operand that is not `empty`',
                      f'`{unparse(st_)}` under {s_[:200]}: an `empty` operand listed before a written one makes the written one look missing, the combination never matches')


def c13_3(ctx):
    ctx.rule('C13.3', 'disallowed combinations yield no match', 2)
    f = ctx.repo.func(OP + '.OperandSetsModel.find_operands_from_operand_sets')
    res = resolver(ctx, f, inline=True)
    ctor = [c for c in ast.walk(f.node) if isinstance(c, ast.Call) and unparse(c.func) == 'MatchedOperandSet']
    if len(ctor) != 1:
        raise AnalysisError('find_operands_from_operand_sets: expected one MatchedOperandSet(...)')
    ok, why = all_paths_imply(ctx, f, ctor[0], lit_cmp(ctx, f, "[op.operand.id for op in matched_operands] not in self._config['disallowed_pairs']", res),
                              lambda l: l == ('in', "'disallowed_pairs'", 'self._config', False), res)
    ctx.check(ok, 'disallowed:skipped', f.site(ctor[0]),
              'a match is produced only if the ordered list of matched operand ids is not one of the configured disallowed combinations', why)
    ids = [n for n in walk_no_nested(f.node) if isinstance(n, ast.Assign) and unparse(n.targets[0]) == 'operand_ids']
    ok = len(ids) == 1 and unparse(ids[0].value) == '[op.operand.id for op in matched_operands]'
    if not ids:
        # the list written in the membership test itself, without a name
        cm = [c for c in ast.walk(f.node) if isinstance(c, ast.Compare) and len(c.ops) == 1 and isinstance(c.ops[0], (ast.In, ast.NotIn))
              and unparse(c.comparators[0]) == "self._config['disallowed_pairs']"]
        ok = len(cm) == 1 and unparse(cm[0].left) == '[op.operand.id for op in matched_operands]'
    ctx.check(ok, 'disallowed:ordered-ids', f.site(ids[0]) if ids else f.site(), 'the combination is the list of operand ids in operand order (order and multiplicity matter)',
              '; '.join(unparse(i) for i in ids))


_GROUPS = [
    {'INDIRECT_REGISTER', 'INDIRECT_INDEXED_REGISTER', 'INDIRECT_NUMERIC', 'DEFERRED_NUMERIC', 'INDEXED_REGISTER'},
    {'DICTIONARY_KEY', 'REGISTER'},
    {'NUMERIC', 'ADDRESS', 'RELATIVE_ADDRESS', 'NUMERIC_BYTECODE'},
]
_CLASS_TYPE = {
    'NumericExpressionOperand': 'NUMERIC', 'RegisterOperand': 'REGISTER', 'IndexedRegisterOperand': 'INDEXED_REGISTER',
    'IndirectRegisterOperand': 'INDIRECT_REGISTER', 'IndirectIndexedRegisterOperand': 'INDIRECT_INDEXED_REGISTER',
    'IndirectNumericOperand': 'INDIRECT_NUMERIC', 'DeferredNumericOperand': 'DEFERRED_NUMERIC', 'EnumerationOperand': 'DICTIONARY_KEY',
    'NumericEnumerationOperand': 'DICTIONARY_KEY', 'NumericBytecode': 'NUMERIC_BYTECODE', 'AddressOperand': 'ADDRESS',
    'RelativeAddressOperand': 'RELATIVE_ADDRESS', 'EmptyOperand': 'EMPTY', 'Operand': 'UNKNOWN',
}


def c13_registers(ctx):
    ctx.rule('C13.12', 'the register names the guards know are the names as configured', 2)
    mi = ctx.repo.func('bespokeasm.assembler.model.AssemblerModel.__init__')
    st = self_attr_stores(mi.node, '_registers')
    ok = len(st) == 1
    if ok:
        v = deref(ctx, mi, st[0][2], st[0][0])
        txt = unparse(v)
        inner = deref(ctx, mi, v.args[0], st[0][0]) if isinstance(v, ast.Call) and unparse(v.func) in ('set', 'frozenset') and len(v.args) == 1 else None
        # set(<configured list>) possibly with a None guard; no per-name transformation
        ok = inner is not None and not any(isinstance(x, (ast.ListComp, ast.SetComp, ast.GeneratorExp, ast.Lambda)) for x in ast.walk(v)) \
            and "['general']" in unparse(deref(ctx, mi, inner.body if isinstance(inner, ast.IfExp) else inner, st[0][0])) and 'registers' in unparse(deref(ctx, mi, inner.body if isinstance(inner, ast.IfExp) else inner, st[0][0]))
    ctx.check(ok, 'registers:as-configured', mi.site(st[0][0]) if st else mi.site(), 'the model\'s register set is the configured list of names, unchanged', '; '.join(unparse(x[0]) for x in st))
    rg = ctx.repo.func('bespokeasm.assembler.model.AssemblerModel.registers')
    rr = returns(rg)
    ctx.check(len(rr) == 1 and unparse(rr[0].value) == 'self._registers', 'registers:accessor', rg.site(), 'model.registers is that set', '; '.join(unparse(r) for r in rr))


def c13_ids(ctx):
    ctx.rule('C13.11', 'disallowed combinations name operands by their configured ids, unchanged', 2)
    oi = ctx.repo.func('bespokeasm.assembler.model.operand.Operand.__init__')
    st = self_attr_stores(oi.node, '_id')
    ctx.check(len(st) == 1 and unparse(st[0][2]) == oi.call_params[0].arg, 'ids:stored-as-configured', oi.site(), 'an operand keeps the id it is configured under (the key of the YAML mapping, whatever its type)',
              '; '.join(unparse(x[0]) for x in st))
    og = ctx.repo.func('bespokeasm.assembler.model.operand.Operand.id')
    rr = returns(og)
    ctx.check(len(rr) == 1 and unparse(rr[0].value) == 'self._id', 'ids:read-as-stored', og.site(), 'operand.id is that id', '; '.join(unparse(r) for r in rr))


def c13_4(ctx):
    ctx.rule('C13.4', 'operand type precedence table; sets sorted by it; every alternative tried in order', 18)
    vals = {}
    ot = ctx.repo.cls(OT)
    for name in ot.attrs:
        vals[name] = ctx.fold.class_const(ot, name)
    site = f'{ot.module.relpath}:{ot.node.lineno}'
    lo = max(vals[n] for n in _GROUPS[0])
    mid_lo, mid_hi = min(vals[n] for n in _GROUPS[1]), max(vals[n] for n in _GROUPS[1])
    hi = min(vals[n] for n in _GROUPS[2])
    ctx.check(lo < mid_lo and mid_hi < hi, 'precedence:groups', site,
              'bracketed / register-indexed forms sort before enumeration keys and plain registers, which sort before numeric expressions',
              str({k: v for k, v in sorted(vals.items(), key=lambda kv: kv[1])}))
    ctx.check(len(set(vals.values())) == len(vals), 'precedence:distinct', site, 'type values are distinct', str(vals))
    base = ctx.repo.cls('bespokeasm.assembler.model.operand.Operand')
    for c in [base] + base.all_subclasses():
        if c.name == 'OperandWithArgument':
            continue
        t = c.lookup('type')
        rr = returns(t)
        v = ctx.fold.try_fold(rr[0].value, t.module, t.cls) if len(rr) == 1 else None
        want = _CLASS_TYPE.get(c.name)
        if want is None:
            ctx.err(f'precedence:type-of:{c.name}', f'{c.module.relpath}:{c.node.lineno}', 'operand class is in the reviewed table', 'new operand class')
            continue
        ctx.check(isinstance(v, EnumConst) and v.name == want, f'precedence:type-of:{c.name}', t.site(), f'{c.name}.type is OperandType.{want}', unparse(rr[0].value) if rr else 'no return')
    # operand set: built in config order, sorted ascending by type value, all tried in that order
    init = ctx.repo.func(OS_ + '.__init__')
    srt = [c for c in ast.walk(init.node) if isinstance(c, ast.Call) and unparse(c.func) == 'self._ordered_operand_list.sort']
    ok = len(srt) == 1
    if ok:
        kw = {k.arg: k.value for k in srt[0].keywords}
        key = kw.get('key')
        ok = isinstance(key, ast.Lambda) and unparse(key.body) == f'{key.args.args[0].arg}.type.value' and ('reverse' not in kw or unparse(kw['reverse']) == 'False')
    ctx.check(ok, 'precedence:set-sorted-ascending', init.site(srt[0]) if srt else init.site(), 'alternatives of an operand set are sorted ascending by type value (stable)', unparse(srt[0]) if srt else 'no sort')
    po = ctx.repo.func(OS_ + '.parse_operand')
    loops = [l for l in walk_no_nested(po.node) if isinstance(l, ast.For)]
    ok = len(loops) == 1 and unparse(loops[0].iter) == 'self._ordered_operand_list'
    ctx.check(ok, 'precedence:all-alternatives-in-order', po.site(loops[0]) if loops else po.site(),
              'every alternative of the set is tried, in precedence order (no pre-filter by the operand text)', '; '.join(unparse(l.iter) for l in loops))
    if ok:
        lp = loops[0]
        res = resolver(ctx, po, inline=False)
        rr = [r for r in ast.walk(lp) if isinstance(r, ast.Return)]
        good = len(rr) == 1 and isinstance(rr[0].value, ast.Name)
        if good:
            d = reaching_def(ctx, po, rr[0].value.id, rr[0])
            good = isinstance(d, ast.Call) and unparse(d.func) == f'{unparse(lp.target)}.parse_operand' and unparse(d.args[1]) == po.call_params[1].arg \
                and clause_implies(facts_at(ctx, po, rr[0], res), ('isnone', rr[0].value.id, False))
            fcl = filter_facts_at(ctx, po, rr[0], res)
            good = good and {l for c in fcl for l in c} == {('isnone', rr[0].value.id, False)}
        ctx.check(good, 'precedence:first-match-wins', po.site(lp), 'the first alternative that parses the operand text wins', '; '.join(unparse(r) for r in rr))
        others = [s for s in po.node.body if not (isinstance(s, ast.Expr) and isinstance(s.value, ast.Constant)) and s is not lp and not isinstance(s, ast.Return)]
        ctx.check(not others, 'precedence:no-shortcut', po.site(others[0]) if others else po.site(), 'parse_operand does nothing but try the alternatives in order',
                  '; '.join(unparse(o)[:70] for o in others))
    ii = ctx.repo.func(T + 'indexed_register.IndexedRegisterOperand.__init__')
    srt = [c for c in ast.walk(ii.node) if isinstance(c, ast.Call) and unparse(c.func) == 'self._index_operand_list.sort']
    ok = len(srt) == 1 and any(k.arg == 'key' and isinstance(k.value, ast.Lambda) and unparse(k.value.body).endswith('.type.value') for k in srt[0].keywords)
    ctx.check(ok, 'precedence:index-operands-sorted', ii.site(), 'index operands of an indexed register follow the same precedence', '')
    sp = ctx.repo.func(OP + '.SpecificOperandsModel.find_operands_from_specific_operands')
    loops = [l for l in walk_no_nested(sp.node) if isinstance(l, ast.For) and unparse(l.iter) == 'self._specific_operands']
    ctx.check(len(loops) == 1, 'precedence:specific-in-config-order', sp.site(), 'explicit combinations are tried in configuration order', f'{len(loops)} loops')


# operand types that build an expression-bearing part from operand text (reviewed table)
_EXPR_SITES = {
    T + 'numeric_expression.NumericExpressionOperand._parse_bytecode_parts',
    T + 'address.AddressOperand._parse_bytecode_parts',
    T + 'indirect_register.IndirectRegisterOperand.parse_operand',
    T + 'numeric_bytecode.NumericBytecode.parse_operand',
    T + 'relative_address.RelativeAddressOperand.parse_operand',
    T + 'numeric_enumeration.NumericEnumerationOperand.parse_operand',
}


def c13_5(ctx):
    ctx.rule('C13.5', 'a register name is never accepted where a numeric expression is expected', 8)
    expr_base = ctx.repo.cls(PARTS + '.ExpressionByteCodePart')
    expr_classes = {c.name for c in [expr_base] + expr_base.all_subclasses()}
    found = set()
    for fn in ctx.repo.all_functions():
        if fn.cls is None or not fn.module.name.startswith('bespokeasm.assembler.model.operand.types'):
            continue
        parts = {}
        for n in walk_no_nested(fn.node):
            if isinstance(n, ast.Assign) and isinstance(n.targets[0], ast.Name) and isinstance(n.value, (ast.Call, ast.IfExp)):
                for c in ast.walk(n.value):
                    if isinstance(c, ast.Call) and unparse(c.func) in expr_classes:
                        parts[n.targets[0].id] = n
        if not parts:
            continue
        found.add(fn.qualname)
        if fn.qualname not in _EXPR_SITES:
            ctx.err(f'register-guard:{fn.cls.name}', fn.site(), 'expression-bearing operand type is in the reviewed table', 'new site: add it to rule C13.5')
        res = resolver(ctx, fn, inline=False)
        regs = next((p.arg for p in fn.call_params if 'register' in p.arg), 'register_labels')
        for r in returns(fn):
            if not (isinstance(r.value, ast.Call) and unparse(r.value.func) == 'ParsedOperand'):
                continue
            used = [a.id for a in r.value.args if isinstance(a, ast.Name) and a.id in parts]
            g = ctx.cfg(fn)
            for v in used:
                if not g.reaches(g.node_of(parts[v]), g.node_of(r)):
                    continue
                lit = ('call', f'{v}.contains_register_labels({regs})', False)
                ok, why = all_paths_imply(ctx, fn, r, lit, lambda l, v=v: l == ('isnone', v, True), res, via=parts[v])
                if not ok:
                    # loop idiom: for part in (a, b): if part is not None and part.contains_register_labels(...): return None
                    for lp in [l for l in walk_no_nested(fn.node) if isinstance(l, ast.For) and isinstance(l.iter, (ast.Tuple, ast.List))
                               and v in [unparse(e) for e in l.iter.elts]]:
                        t = unparse(lp.target)
                        for i in [i for i in lp.body if isinstance(i, ast.If)]:
                            if f'{t}.contains_register_labels({regs})' in unparse(i.test) and len(i.body) == 1 and isinstance(i.body[0], ast.Return) \
                                    and unparse(i.body[0]) == 'return None' and g.dominates(g.node_of(lp), g.node_of(r)):
                                ok = True
                ctx.check(ok, f'register-guard:{fn.cls.name}:{v}', fn.site(r),
                          f'{fn.cls.name} matches only if its expression part `{v}` contains no register label',
                          f'{why} - operand text naming a register is accepted as a numeric expression')
    missing = _EXPR_SITES - found
    for m in sorted(missing):
        ctx.err(f'register-guard:{m.split(".")[-2]}', '-', 'reviewed expression-bearing site still builds an expression part', 'vanished')
    # the test itself
    f = ctx.repo.func(PARTS + '.ExpressionByteCodePart.contains_register_labels')
    rr = returns(f)
    ctx.check(len(rr) == 1 and unparse(rr[0].value) == f'self._parsed_expression.contains_register_labels({f.call_params[0].arg})', 'register-guard:part-delegates', f.site(),
              'a part asks its parsed expression', '; '.join(unparse(r) for r in rr))
    e = ctx.repo.func('bespokeasm.expression.ExpressionNode.contains_register_labels')
    rr = returns(e)
    ok = len(rr) == 1
    if ok:
        v = deref(ctx, e, rr[0].value, rr[0])
        inter = [n for n in ast.walk(e.node) if isinstance(n, ast.Call) and isinstance(n.func, ast.Attribute) and n.func.attr == 'intersection']
        # "some label of the expression is a register name", tested as register operands match: without regard to letter case
        anyq = isinstance(v, ast.Call) and unparse(v.func) == 'any' and len(v.args) == 1 and isinstance(v.args[0], (ast.GeneratorExp, ast.ListComp)) \
            and len(v.args[0].generators) == 1 and not v.args[0].generators[0].ifs and unparse(v.args[0].generators[0].iter) == 'self.contained_labels()' \
            and unparse(v.args[0].elt) == f'is_register_name({unparse(v.args[0].generators[0].target)}, {e.call_params[0].arg})'
        ok = anyq
        if anyq:
            from rules.shared import register_name_test
            register_name_test(ctx)
        elif len(inter) == 1 and unparse(inter[0].func.value) == 'self.contained_labels()' and unparse(inter[0].args[0]) == e.call_params[0].arg:
            ok = False     # exact set intersection: `A` is not recognised when the register is configured as `a`
        if False:
            # the result is "the intersection is not empty", however that is spelled
            r_e = resolver(ctx, e, inline=True)
            it = unparse(inter[0])
            got = to_cnf(v, True, r_e)
            want = [to_cnf(ast.parse(f'len({it}) > 0', mode='eval').body, True, r_e), to_cnf(ast.parse(f'len({it}) != 0', mode='eval').body, True, r_e),
                    to_cnf(ast.parse(f'bool({it})', mode='eval').body, True, r_e), to_cnf(ast.parse(it, mode='eval').body, True, r_e)]
            ok = got in want
    ctx.check(ok, 'register-guard:expression-test', e.site(), 'an expression contains a register label iff its labels intersect the register set', '; '.join(unparse(r) for r in rr))
    cl = ctx.repo.func('bespokeasm.expression.ExpressionNode.contained_labels')
    res = resolver(ctx, cl, inline=False)
    lab = [r for r in returns(cl) if unparse(r.value) == '{self.value}']
    ok = len(lab) == 1 and any('T_LABEL' in describe_facts([c]) for c in facts_at(ctx, cl, lab[0], res))
    ctx.check(ok, 'register-guard:labels-collected', cl.site(), 'every label token of the expression is collected', '')
    rp = ctx.repo.func(T + 'numeric_expression.NumericExpressionOperand.parse_operand')
    calls_ = [c for c in ast.walk(rp.node) if isinstance(c, ast.Call) and unparse(c.func) == 'self._parse_bytecode_parts']
    ok = len(calls_) == 1 and [unparse(a) for a in calls_[0].args] == [p.arg for p in rp.call_params]
    ctx.check(ok, 'register-guard:registers-passed', rp.site(), 'the register set reaches the guard unchanged', '; '.join(unparse(c) for c in calls_))
    vi = ctx.repo.func(IG + '.generate_variant_bytecode_parts')
    fm = [c for c in ast.walk(vi.node) if isinstance(c, ast.Call) and isinstance(c.func, ast.Attribute) and c.func.attr == 'find_matching_operands']
    tgt = ctx.repo.func(OP + '.OperandParser.find_matching_operands')
    ok = len(fm) == 1 and unparse(bind_args(fm[0], tgt).get('register_labels')) == 'isa_model.registers'
    ctx.check(ok, 'register-guard:model-registers', vi.site(fm[0]) if fm else vi.site(), 'the guard uses the ISA\'s registers', unparse(fm[0]) if fm else '')


def c13_6(ctx):
    ctx.rule('C13.6', 'mnemonics are case-insensitive: lower-cased at load, extraction and lookup', 4)
    isf = ctx.repo.func('bespokeasm.assembler.model.instruction_set.InstructionSet.__init__')
    for lp in [l for l in walk_no_nested(isf.node) if isinstance(l, ast.For) and isinstance(l.target, ast.Tuple) and unparse(l.target.elts[0]) == 'mnemonic']:
        first = lp.body[0]
        ok = isinstance(first, ast.Assign) and unparse(first) == 'mnemonic = mnemonic.lower()'
        what = 'instructions' if 'instructions' in unparse(lp.iter) else 'macros'
        ctx.check(ok, f'case:load:{what}', isf.site(lp), f'{what} are registered under their lower-cased mnemonic, and every check sees that spelling', unparse(first)[:80])
    pi = ctx.repo.func('bespokeasm.assembler.model.instruction_parser.InstructioParser.parse_instruction')
    mn = [n for n in walk_no_nested(pi.node) if isinstance(n, ast.Assign) and unparse(n.targets[0]) == 'mnemonic']
    ok = len(mn) == 1 and unparse(mn[0].value).endswith('.lower()')
    get = [c for c in ast.walk(pi.node) if isinstance(c, ast.Call) and unparse(c.func) == 'isa_model.instructions.get']
    ok = ok and len(get) == 1 and unparse(get[0].args[0]) == 'mnemonic'
    ctx.check(ok, 'case:lookup', pi.site(), 'the statement\'s mnemonic is lower-cased before lookup', '; '.join(unparse(m) for m in mn))
    il = ctx.repo.func('bespokeasm.assembler.line_object.instruction_line.InstructionLine.factory')
    cs = [n for n in walk_no_nested(il.node) if isinstance(n, ast.Assign) and unparse(n.targets[0]) == 'command_str']
    ctx.check(len(cs) == 1 and unparse(cs[0].value).endswith('.lower()'), 'case:extraction', il.site(), 'the extracted command is lower-cased before it is compared with the mnemonics',
              '; '.join(unparse(c) for c in cs))
    pat = [c for c in ast.walk(il.node) if isinstance(c, ast.Call) and unparse(c.func) == 're.compile']
    ok = len(pat) == 1 and any(k.arg == 'flags' and 'IGNORECASE' in unparse(k.value) for k in pat[0].keywords)
    ctx.check(ok, 'case:extraction-pattern', il.site(), 'the instruction extraction pattern ignores case', '')


def c13_7(ctx):
    ctx.rule('C13.7', 'operand count mismatch is "no match"', 3)
    f = ctx.repo.func(OP + '.OperandSetsModel.find_operands_from_operand_sets')
    res = resolver(ctx, f, inline=False)
    ctor = [c for c in ast.walk(f.node) if isinstance(c, ast.Call) and unparse(c.func) == 'MatchedOperandSet']
    ok = bool(ctor) and clause_implies(facts_at(ctx, f, ctor[0], res), lit_cmp(ctx, f, f'len({f.call_params[1].arg}) == self.operand_count', res))
    ctx.check(ok, 'count:sets', f.site(), 'operand sets match only the configured number of operands', '')
    oc = ctx.repo.func(OP + '.OperandSetsModel.operand_count')
    rr = returns(oc)
    ctx.check(len(rr) == 1 and unparse(rr[0].value) == 'len(self._operand_sets)', 'count:sets-count', oc.site(), 'that number is the number of configured operand sets', '; '.join(unparse(r) for r in rr))
    s = ctx.repo.func(OP + '.SpecificOperandsModel.find_operands_from_specific_operands')
    rs = resolver(ctx, s, inline=False)
    ctor = [c for c in ast.walk(s.node) if isinstance(c, ast.Call) and unparse(c.func) == 'MatchedOperandSet']
    ok = len(ctor) == 1
    if ok:
        cl = facts_at(ctx, s, ctor[0], rs)
        ok = any(len(c) == 1 and next(iter(c)) == lit_cmp(ctx, s, 'len(operands) + null_operand_count == target_operand_count', rs) for c in cl) and \
            any(len(c) == 1 and next(iter(c)) == lit_cmp(ctx, s, 'target_operand_count == len(matched_operands)', rs) for c in cl)
    ctx.check(ok, 'count:specific', s.site(), 'a specific combination matches only if written plus empty operands equal the configured count and every operand matched', '')
    iv = ctx.repo.func(IG + '.generate_variant_bytecode_parts')
    r2 = resolver(ctx, iv, inline=False)
    nm = [r for r in returns(iv) if isinstance(r.value, ast.Constant) and r.value.value is None]
    ok = any(any(c == frozenset({('truthy', 'operand_list', True)}) for c in facts_at(ctx, iv, r, r2)) for r in nm)
    ctx.check(ok, 'count:operandless-variant', iv.site(), 'operands given to a variant without operands mean no match', '')
    # what is counted: one operand per comma-separated piece, empty pieces included (`ld a,,b` has three, `ld a,` has two)
    import copy
    for gen in (iv, ctx.repo.func(MG + '.generate_variant_bytecode_parts')):
        defs = [n for n in walk_no_nested(gen.node) if isinstance(n, ast.Assign) and unparse(n.targets[0]) == 'operand_list'
                and not (isinstance(n.value, ast.List) and not n.value.elts)]
        for n in defs:
            v = n.value
            # a helper of one expression is read through
            for _ in range(3):
                if isinstance(v, ast.Call) and isinstance(v.func, ast.Name):
                    callee = ctx.repo.resolve_name(gen.module, v.func.id, None)
                    body = [b for b in callee.node.body if not (isinstance(b, ast.Expr) and isinstance(b.value, ast.Constant))] if hasattr(callee, 'node') else []
                    if len(body) == 1 and isinstance(body[0], ast.Return) and body[0].value is not None and len(v.args) == len(callee.call_params) and not v.keywords:
                        from engine.normalize import _Subst
                        v = _Subst({p_.arg: a_ for p_, a_ in zip(callee.call_params, v.args)}).visit(copy.deepcopy(body[0].value))
                        continue
                break
            filt = [c_ for c_ in ast.walk(v) if isinstance(c_, (ast.ListComp, ast.GeneratorExp)) and any(g_.ifs for g_ in c_.generators)] + \
                   [c_ for c_ in ast.walk(v) if isinstance(c_, ast.Call) and unparse(c_.func) == 'filter']
            splits = [c_ for c_ in ast.walk(v) if isinstance(c_, ast.Call) and isinstance(c_.func, ast.Attribute) and c_.func.attr == 'split']
            ok = len(splits) == 1 and [unparse(a) for a in splits[0].args] == ["','"] and not splits[0].keywords and not filt
            ctx.check(ok, f'count:every-piece-is-an-operand:{"macro" if gen is not iv else "instruction"}', gen.site(n),
                      'the operand list is the operand text split at every comma, nothing dropped (an empty piece is an operand that matches nothing)',
                      f'operand_list = {unparse(v)[:120]}')


def _anchored(e) -> bool | None:
    """Does the regex source expression start with ^ and end with an unescaped $? None when it cannot be told."""
    if isinstance(e, ast.Constant) and isinstance(e.value, str):
        t = e.value
        return t.startswith('^') and t.endswith('$') and not t.endswith('\\$')
    if isinstance(e, ast.JoinedStr) and e.values:
        a, b = e.values[0], e.values[-1]
        if isinstance(a, ast.Constant) and isinstance(b, ast.Constant):
            return a.value.startswith('^') and b.value.endswith('$') and not b.value.endswith('\\$')
        return False
    return None


def parent_of(root, node):
    for n in ast.walk(root):
        for ch in ast.iter_child_nodes(n):
            if ch is node:
                return n
    return None


def c13_8(ctx):
    ctx.rule('C13.8', 'an operand form matches only if it accounts for the whole operand text', 10)
    base = ctx.repo.cls('bespokeasm.assembler.model.operand.Operand')
    for c in base.all_subclasses():
        f = c.methods.get('parse_operand')
        if f is None:
            continue
        key = f'whole-operand:{c.name}'
        if c.name == 'EmptyOperand':
            ctx.ok(key, f.site(), 'the empty operand is only ever parsed with empty text (null operands are matched by count, never from an operand set)', 'reviewed exception')
            continue
        res = resolver(ctx, f, inline=False)
        ctors = [x for x in ast.walk(f.node) if isinstance(x, ast.Call) and unparse(x.func) == 'ParsedOperand']
        deleg = []
        for r in returns(f):
            v = deref(ctx, f, r.value, r) if r.value is not None else None
            if isinstance(v, ast.Call) and unparse(v.func) in ('self._parse_bytecode_parts', 'super().parse_operand') and len(v.args) > 1 and unparse(v.args[1]) == 'operand':
                deleg.append(v)
        scan = [f]
        if any(unparse(v.func) == 'self._parse_bytecode_parts' for v in deleg):
            h = c.lookup('_parse_bytecode_parts')
            if h is not None:
                scan.append(h)
            deleg = [v for v in deleg if unparse(v.func) != 'self._parse_bytecode_parts']
        # (C) the whole operand text is what the expression parser gets: the lexer (C07.4) rejects anything it cannot tokenise
        whole_expr = False
        for x in [y for g_ in scan for y in ast.walk(g_.node)]:
            if isinstance(x, ast.Call) and unparse(x.func).endswith('ByteCodePart') or (isinstance(x, ast.Call) and 'ByteCodePart' in unparse(x.func)):
                tgt_cls = ctx.repo.classes.get('bespokeasm.assembler.bytecode.parts.' + unparse(x.func)) or next(
                    (k for q, k in ctx.repo.classes.items() if q.endswith('.' + unparse(x.func))), None)
                init = tgt_cls.lookup('__init__') if tgt_cls is not None else None
                if init is not None:
                    b = bind_args(x, init)
                    for pn in ('value_expression', 'expression', 'value_expr'):
                        if pn in b and unparse(b[pn]) in ('operand', 'operand.strip()'):
                            whole_expr = True
        # (A) an anchored pattern whose match gates the construction  /  (B) the match must end where the operand ends
        anchored = end_checked = False
        unanch = []
        for x in ast.walk(f.node):
            if not (isinstance(x, ast.Call) and isinstance(x.func, ast.Attribute) and x.func.attr in ('match', 'fullmatch', 'search')):
                continue
            recv = unparse(x.func.value)
            pat = x.args[0] if recv == 're' and x.args else x.func.value
            subject = x.args[1] if recv == 're' and len(x.args) > 1 else (x.args[0] if x.args else None)
            if subject is None or not unparse(subject).startswith('operand'):
                continue
            # only a match the construction depends on (a search whose hit means "no match" is a veto, not an acceptance)
            pm_ = parent_of(f.node, x)
            var = unparse(pm_.targets[0]) if isinstance(pm_, ast.Assign) and len(pm_.targets) == 1 else None
            if var is None or not any(any(l == ('isnone', var, False) for l in cl) for ct in ctors for cl in facts_at(ctx, f, ct, res)):
                continue
            d = deref(ctx, f, pat, x)
            if isinstance(d, ast.Attribute) and unparse(d).startswith('self._'):
                for k in [c] + c.mro()[1:]:
                    init = k.methods.get('__init__')
                    st = [v for _, t, v in self_attr_stores(init.node, d.attr)] if init is not None else []
                    if st:
                        d = st[0]
                        break
            if isinstance(d, ast.Call) and unparse(d.func) == 're.compile' and d.args:
                d = d.args[0]
            a = True if x.func.attr == 'fullmatch' else _anchored(d)
            if a:
                anchored = True
            else:
                unanch.append(unparse(x)[:70])
            # match end compared with the operand's length
            for ct in ctors:
                for cl in facts_at(ctx, f, ct, res):
                    for l in cl:
                        if l[0] in ('eq',) and '.end()' in str(l[1]) and 'len(' in str(l[1]) and len(cl) == 1:
                            end_checked = True
        ok = bool(deleg) or whole_expr or end_checked or (anchored and not unanch)
        ctx.check(ok, key, f.site(), f'{c.name} accepts an operand only if its pattern (anchored at both ends, or checked to end where the operand ends) or the expression parser accounts for all of its text',
                  f'unanchored match {unanch} and neither an end-of-operand check nor the whole text handed to the expression parser: trailing text after a valid prefix is silently dropped')


def c13_macros(ctx):
    """Macros choose their variant through the same selection as instructions (C10.3): same operand split, same order."""
    from rules.c10 import c10_3
    c10_3(ctx)


def c13_state(ctx):
    """Nothing is remembered between statements / files beyond the reviewed state (rules/shared.py STATE)."""
    from rules.shared import state_discipline
    state_discipline(ctx, ('bespokeasm.assembler.model', 'bespokeasm.assembler.bytecode.generator'))


def c13_no_abort(ctx):
    ctx.rule('C13.13', 'an operand form that does not fit says "no match": it never ends the assembly, and never dies on ill-formed text', 8)
    from engine.cfg import is_sys_exit_call
    base = ctx.repo.cls('bespokeasm.assembler.model.operand.Operand')
    n = 0
    for c in base.all_subclasses():
        for mname in ('parse_operand', '_parse_bytecode_parts'):
            f = c.methods.get(mname)
            if f is None:
                continue
            n += 1
            ab = [x for x in ast.walk(f.node) if isinstance(x, ast.Raise) or (isinstance(x, ast.Call) and is_sys_exit_call(x))]
            ctx.check(not ab, f'match:no-abort:{c.name}.{mname}', f.site(ab[0]) if ab else f.site(),
                      'while matching, an operand form only ever answers "match" or "no match": a later alternative or variant may accept the text',
                      f'{unparse(ab[0])[:90] if ab else ""}: the statement is rejected although another variant may accept it')
    if n < 8:
        ctx.err('match:no-abort', '-', 'at least 8 operand matchers', f'{n}')
    # expression-bearing forms that build their parts directly: ill-formed expression text is "no match"
    ebase = ctx.repo.find_class('ExpressionByteCodePart')
    efamily = {ebase.name} | {c_.name for c_ in ebase.all_subclasses()}
    for q in ('bespokeasm.assembler.model.operand.types.numeric_enumeration.NumericEnumerationOperand.parse_operand',
              'bespokeasm.assembler.model.operand.types.numeric_expression.NumericExpressionOperand.parse_operand',
              'bespokeasm.assembler.model.operand.types.numeric_bytecode.NumericBytecode.parse_operand',
              'bespokeasm.assembler.model.operand.types.relative_address.RelativeAddressOperand.parse_operand',
              'bespokeasm.assembler.model.operand.types.indirect_register.IndirectRegisterOperand.parse_operand'):
        f = ctx.repo.func(q)
        built = [x for x in ast.walk(f.node) if isinstance(x, ast.Call) and (unparse(x.func).split('.')[-1] in efamily or unparse(x.func) == 'self._parse_bytecode_parts')]
        covered = True
        for b in built:
            inside = False
            for t in ast.walk(f.node):
                if isinstance(t, ast.Try) and any(b is y for s_ in t.body for y in ast.walk(s_)):
                    for h in t.handlers:
                        if h.type is not None and 'SyntaxError' in unparse(h.type) and len(h.body) >= 1 and isinstance(h.body[-1], ast.Return) \
                                and (h.body[-1].value is None or (isinstance(h.body[-1].value, ast.Constant) and h.body[-1].value.value is None)):
                            inside = True
            covered = covered and inside
        ctx.check(bool(built) and covered, f'match:ill-formed-is-no-match:{f.cls.name}', f.site(),
                  'the expression parts are built inside `try ... except SyntaxError: return None`', f'{len(built)} construction(s), covered: {covered}')


def c13_vetoes(ctx):
    ctx.rule('C13.10', 'an operand form is refused only by its own pattern (no shortcut in front of it)', 5)
    from rules.shared import no_pre_pattern_veto
    no_pre_pattern_veto(ctx, 'bespokeasm.assembler.model.operand')

RULES = [c13_1, c13_dispatch, c13_2, c13_every_combination, c13_3, c13_registers, c13_ids, c13_4, c13_5, c13_6, c13_7, c13_8, c13_macros, c13_state, c13_vetoes, c13_no_abort]

_GI = 'assembler/bytecode/generator/instruction.py'
_OPF = 'assembler/model/operand_parser.py'
_OSF = 'assembler/model/operand_set.py'
MUTANTS = [
    V('c13-empty-operand-takes-a-written-position', 'assembler/model/operand_parser.py', """                    # only an operand that is written takes up one of the written operands
                    operand_index += 1
""", """                operand_index += 1
""", 'C13.14'),
    V('c13-ill-formed-expression-aborts', 'assembler/model/operand/types/numeric_bytecode.py', """        except SyntaxError:
            # not a well-formed expression: it is not this operand (another variant or operand of the set may accept it)
            return None
""", """        except SyntaxError:
            raise
""", 'C13.13'),
    V('c13-indirect-offset-aborts', 'assembler/model/operand/types/indirect_register.py', "                    # an offset was written but this operand is not configured to have one: it is not this\n                    # operand (another variant or operand of the set may accept it)\n                    return None", "                    sys.exit(f'ERROR: {line_id} - An offset was provided for indirect register operand')", 'C13.13'),
    V('c13-register-set-lowercased', 'assembler/model/__init__.py', "        self._registers = set(registers if registers is not None else [])", "        self._registers = {str(r).lower() for r in (registers if registers is not None else [])}", 'C13.12'),
    V('c13-operand-id-stringified', 'assembler/model/operand/__init__.py', "        self._id = operand_id\n", "        self._id = str(operand_id)\n", 'C13.11'),
    V('c13-indirect-needs-leading-bracket', 'assembler/model/operand/types/indirect_register.py', "        # first check that operand is what we expect\n        match = re.match(\n            self._parse_pattern,", "        if not operand.lstrip().startswith('['):\n            return None\n        match = re.match(\n            self._parse_pattern,", 'C13.10'),
    V('c13-dispatch-operands-stripped-of-case', 'assembler/bytecode/generator/__init__.py', "                        instruction, line_id, mnemonic, operands, isa_model, memzone_manager\n", "                        instruction, line_id, mnemonic, operands.lower(), isa_model, memzone_manager\n", 'C13.9'),
    V('c13-dispatch-macro-first-word', 'assembler/bytecode/generator/__init__.py', "                        instruction, line_id, mnemonic, operands, isa_model, memzone_manager, parser_class\n", "                        instruction, line_id, mnemonic, operands.split(';')[0], isa_model, memzone_manager, parser_class\n", 'C13.9'),
    V('c13-enum-prefix-match', 'assembler/model/operand/types/enumeration_operand.py', "        match = re.match(fr'^{self.match_pattern}$', operand.strip())", "        match = re.match(self.match_pattern, operand.strip())", 'C13.8'),
    V('c13-relative-trailing-text', 'assembler/model/operand/types/relative_address.py', "        if match.end() != len(operand.strip()):\n            return None\n", "", 'C13.8'),
    V('c13-register-no-end-anchor', 'assembler/model/operand/types/register.py', "            fr'^{self.match_pattern}$',\n            operand.strip(),\n            flags=re.IGNORECASE,", "            fr'^{self.match_pattern}',\n            operand.strip(),\n            flags=re.IGNORECASE,", 'C13.8'),
    V('c13-indirect-no-end-anchor', 'assembler/model/operand/types/indirect_register.py', "            fr'^{self.match_pattern}$',\n            flags=re.IGNORECASE | re.MULTILINE", "            fr'^{self.match_pattern}',\n            flags=re.IGNORECASE | re.MULTILINE", 'C13.8'),
    V('c13-variants-reversed', _GI, '        for variant in instruction.variants:', '        for variant in reversed(instruction.variants):', 'C13.1'),
    V('c13-variants-by-count', _GI, '        for variant in instruction.variants:', '        for variant in sorted(instruction.variants, key=lambda v: 0 if v._operand_parser is None else 1):', 'C13.1'),
    V('c13-sets-first', _OPF, '''        # Step 1 - Look for specific operand matches
        if self._specific_operands_model is not None:
            matched_operands = \\
                self._specific_operands_model.find_operands_from_specific_operands(
                        line_id,
                        operands,
                        self.operand_count,
                        register_labels,
                        memzone_manager,
                    )
            if matched_operands is not None:
                return matched_operands

        # Step 2 - Find an allowed combination match from an operand set
        if self._has_operand_sets:
            matched_operands = \\
                self._operand_sets_model.find_operands_from_operand_sets(line_id, operands, register_labels, memzone_manager)
            if matched_operands is not None:
                return matched_operands
''', '''        if self._has_operand_sets:
            matched_operands = \\
                self._operand_sets_model.find_operands_from_operand_sets(line_id, operands, register_labels, memzone_manager)
            if matched_operands is not None:
                return matched_operands
        if self._specific_operands_model is not None:
            matched_operands = \\
                self._specific_operands_model.find_operands_from_specific_operands(
                        line_id,
                        operands,
                        self.operand_count,
                        register_labels,
                        memzone_manager,
                    )
            if matched_operands is not None:
                return matched_operands
''', 'C13.2'),
    V('c13-register-10', 'assembler/model/operand/__init__.py', '    REGISTER = 8\n', '    REGISTER = 13\n', 'C13.4'),
    V('c13-sort-descending', _OSF, 'self._ordered_operand_list.sort(key=lambda op: op.type.value, reverse=False)', 'self._ordered_operand_list.sort(key=lambda op: op.type.value, reverse=True)', 'C13.4'),
    V('c13-last-match', _OSF, '''            if op is not None:
                # if some part was returned, then this is a valid match. Matching
                # precedence order is important here!
                return op
        return None''', '''            if op is not None:
                result = op
        return result''', 'C13.4'),
    V('c13-no-register-guard', 'assembler/model/operand/types/numeric_bytecode.py', "        if bytecode_part.contains_register_labels(register_labels):\n            return None\n", "", 'C13.5'),
    V('c13-disallowed-ignored', _OPF, "            if operand_ids in self._config['disallowed_pairs']:", "            if False and operand_ids in self._config['disallowed_pairs']:", 'C13.3'),
    V('c13-disallowed-frozenset', _OPF, "            operand_ids = [op.operand.id for op in matched_operands]\n            if operand_ids in self._config['disallowed_pairs']:",
      "            operand_ids = frozenset(op.operand.id for op in matched_operands)\n            if operand_ids in [frozenset(p) for p in self._config['disallowed_pairs']]:", 'C13.3'),
    V('c13-bracket-fast-path', _OSF, '        for operand in self._ordered_operand_list:\n            op: ParsedOperand = operand.parse_operand(',
      "        bracketed = operand_str.strip().startswith('[')\n        for operand in [o for o in self._ordered_operand_list if (o.type.value < 6) == bracketed]:\n            op: ParsedOperand = operand.parse_operand(", 'C13.4'),
    V('c13-lookup-not-lowered', 'assembler/model/instruction_parser.py', "        mnemonic = instr_parts[0].lower()", "        mnemonic = instr_parts[0]", 'C13.6'),
    V('c13-count-ignored', _OPF, "        if len(operands) != self.operand_count:\n            return None\n        matched_operands: list[ParsedOperand] = []", "        matched_operands: list[ParsedOperand] = []", 'C13.7'),
    V('c13-type-wrong-member', 'assembler/model/operand/types/address.py', "        return OperandType.ADDRESS", "        return OperandType.INDIRECT_NUMERIC", 'C13.4'),
    V('c13-macro-check-raw-case', 'assembler/model/instruction_set.py', "            for mnemonic, macro_config_list in self._macros_config.items():\n                mnemonic = mnemonic.lower()\n", "            for mnemonic, macro_config_list in self._macros_config.items():\n", 'C13.6'),
]
TWINS = [
    V('c13-t-sort-default', _OSF, 'self._ordered_operand_list.sort(key=lambda op: op.type.value, reverse=False)', 'self._ordered_operand_list.sort(key=lambda o: o.type.value)'),
]
