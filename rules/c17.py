"""C17 - including a file is equivalent to assembling its text in place."""
import ast

from engine.index import AnalysisError
from engine.helpers import (resolver, facts_at, filter_facts_at, lit_cmp, describe_facts, unparse, walk_no_nested, returns,
                            deref, body_only_aborts, calls_to, reaching_def, is_abort_stmt, self_attr_stores)
from engine.lin import clause_implies
from engine.types import bind_args
from engine.selftest import V

AF = 'bespokeasm.assembler.assembly_file.AssemblyFile'
LOAD = AF + '.load_line_objects'
ENGINE = 'bespokeasm.assembler.engine.Assembler.assemble_bytecode'

EXPLANATION = (
    'Static rules over AssemblyFile and the engine\'s include directory handling. Decided: C17.1 a file included more than '
    'once is an exit that dominates the recursive load, every loaded file is recorded in the one set that is handed down '
    'unchanged, a missing or ambiguous file is an exit; C17.2 (= C06.2) the included file gets a fresh FILE scope whose '
    'parent is the GLOBAL scope; C17.3 the returned lines are spliced at the include point and nothing else happens for '
    'that line; C17.4 the include branch assigns neither the includer\'s label region nor its memory zone; C17.5 (= C05.5) '
    'every file starts in GLOBAL with its own condition stack; C17.6 include directories: the source file\'s directory '
    'first, de-duplicated by exact real path, searched order-free. Not decided: byte equality of split and unsplit programs.'
)
ASSUMPTIONS = ['os.path.realpath identifies directories; two paths are the same directory iff their real paths are equal strings']


def c17_1(ctx):
    ctx.rule('C17.1', 'included twice / missing / ambiguous file -> exit; every loaded file recorded in the shared set', 6)
    hi = ctx.repo.func(AF + '._handle_include_file')
    res = resolver(ctx, hi, inline=False)
    # the parameter holding the set of files loaded so far: the one the located path is tested against
    used = None
    for c_ in ast.walk(hi.node):
        if isinstance(c_, ast.Compare) and len(c_.ops) == 1 and isinstance(c_.ops[0], (ast.In, ast.NotIn)) and isinstance(c_.comparators[0], ast.Name) \
                and c_.comparators[0].id in hi.param_names:
            used = c_.comparators[0].id
    if used is None:
        used = next((p_ for p_ in hi.param_names if 'files_used' in p_), hi.call_params[-1].arg)
    rec = [c for c in ast.walk(hi.node) if isinstance(c, ast.Call) and isinstance(c.func, ast.Attribute) and c.func.attr == 'load_line_objects']
    if len(rec) != 1:
        raise AnalysisError('_handle_include_file: expected one recursive load_line_objects call')
    load = ctx.repo.func(LOAD)
    b = bind_args(rec[0], load)
    cl = facts_at(ctx, hi, rec[0], res)
    ok = clause_implies(cl, lit_cmp(ctx, hi, f'new_filepath not in {used}', res))
    ctx.check(ok, 'include:twice-rejected', hi.site(rec[0]), 'a file already loaded is rejected before it is loaded again', describe_facts(cl))
    lu = next((p_ for p_ in load.param_names if p_ == used), None) or next((p_ for p_ in load.param_names if 'files_used' in p_), load.call_params[-1].arg)
    ctx.check(unparse(b.get(lu)) == used, 'include:same-set-handed-down', hi.site(rec[0]),
              'the set of loaded files handed to the nested load is the very set this load uses (siblings see each other\'s files)',
              f'{lu}={unparse(b.get(lu)) if b.get(lu) is not None else "<default>"}')
    for name in ('isa_model', 'include_paths', 'memzone_manager', 'preprocessor'):
        ctx.check(unparse(b.get(name)) == name, f'include:passes:{name}', hi.site(rec[0]), f'the nested load shares the same {name}', unparse(b.get(name)))
    fo = deref(ctx, hi, rec[0].func.value, rec[0])
    ok = isinstance(fo, ast.Call) and unparse(fo.func) == 'AssemblyFile' and unparse(fo.args[0]) == 'new_filepath'
    ctx.check(ok, 'include:loads-located-file', hi.site(rec[0]), 'the file loaded is the one located', unparse(fo))
    nf = reaching_def(ctx, hi, 'new_filepath', rec[0])
    ok = isinstance(nf, ast.Call) and unparse(nf.func) == 'self._locate_filename' and 'group(1)' in unparse(nf.args[0])
    ctx.check(ok, 'include:located-by-name', hi.site(), 'the file is located by the quoted name (pattern group 1) in the include directories', unparse(nf) if nf is not None else 'None')
    # "already loaded" is decided by comparing path strings: each file must have exactly one spelling per search directory,
    # so a name cannot contain a path separator unless the located path is canonicalised before it is compared and recorded
    import re._parser as _P
    from engine.rx import set_chars
    rx_ = ctx.fold.class_const(AF, 'PATTERN_INCLUDE_FILE')
    g1 = next((av for op, av in _P.parse(rx_.pattern, rx_.flags) if str(op) == 'SUBPATTERN' and av[0] == 1), None)
    ok = False
    cs = set()
    if g1 is not None and len(g1[3]) == 1 and str(g1[3][0][0]) == 'MAX_REPEAT' and len(g1[3][0][1][2]) == 1 and str(g1[3][0][1][2][0][0]) == 'IN':
        cs = set(set_chars(g1[3][0][1][2][0][1], False))
        canon = isinstance(nf, ast.Call) and unparse(nf.func) in ('os.path.realpath', 'os.path.normpath', 'os.path.abspath')
        ok = canon or not (cs & set('/\\'))
        ok = ok and set('abcXYZ019_-.') <= cs
    ctx.check(ok, 'include:one-spelling-per-file', 'src/bespokeasm/assembler/assembly_file.py:' + str(ctx.repo.cls(AF).node.lineno),
              'an include name is a plain file name (letters, digits, "_", "-", "."): no separator, so one file cannot be named in two ways and escape the included-twice check',
              f'name characters include {sorted(cs & set("/" + chr(92)))} and the located path is compared as spelled')
    # malformed include -> exit
    rr = [r for r in returns(hi)]
    g = ctx.cfg(hi)
    ctx.check(all(r.value is rec[0] for r in rr) and len(rr) == 1, 'include:malformed-rejected', hi.site(), 'an include directive that does not parse is rejected; otherwise the nested lines are returned',
              '; '.join(unparse(r) for r in rr))
    # registration
    adds = [c for c in ast.walk(load.node) if isinstance(c, ast.Call) and isinstance(c.func, ast.Attribute) and c.func.attr == 'add' and unparse(c.func.value) == lu]
    ok = len(adds) == 1 and unparse(adds[0].args[0]) == 'self.filename'
    rebinding = [n for n in walk_no_nested(load.node) if isinstance(n, (ast.Assign, ast.AugAssign)) and any(unparse(t) == lu for t in (n.targets if isinstance(n, ast.Assign) else [n.target]))]
    ctx.check(ok and not rebinding, 'include:loaded-file-recorded', load.site(adds[0]) if adds else load.site(),
              'every loaded file is added to the shared set in place (no private copy)',
              f'{[unparse(a) for a in adds]}; rebinding: {[unparse(r) for r in rebinding]}')
    # recorded and tested under the same spelling: the path an AssemblyFile records is the path it was created with
    afi = ctx.repo.func(AF + '.__init__')
    stf = self_attr_stores(afi.node, '_filename')
    ctx.check(len(stf) == 1 and unparse(stf[0][2]) == afi.call_params[0].arg, 'include:path-recorded-as-located', afi.site(),
              'a file records the path it was located under, unchanged (the included-twice test compares that spelling with the spelling of the next located path)',
              '; '.join(unparse(x[0]) for x in stf))
    afg = ctx.repo.func(AF + '.filename')
    rr_ = returns(afg)
    ctx.check(len(rr_) == 1 and unparse(rr_[0].value) == 'self._filename', 'include:path-read-as-recorded', afg.site(), 'file.filename is that path', '; '.join(unparse(r) for r in rr_))
    # missing / ambiguous
    lf = ctx.repo.func(AF + '._locate_filename')
    r2 = resolver(ctx, lf, inline=False)
    rets = [r for r in returns(lf) if r.value is not None]
    ok = len(rets) == 1 and isinstance(rets[0].value, ast.Name) and clause_implies(facts_at(ctx, lf, rets[0], r2), ('isnone', rets[0].value.id, False))
    ctx.check(ok, 'include:missing-rejected', lf.site(), 'a name found in no search directory is rejected', '; '.join(unparse(r) for r in rets))
    from rules.c15 import _body_order_insensitive
    loops = [l for l in walk_no_nested(lf.node) if isinstance(l, ast.For)]
    why = _body_order_insensitive(ctx, lf, loops[0]) if len(loops) == 1 else None
    ctx.check(why is not None, 'include:ambiguous-rejected', lf.site(loops[0]) if loops else lf.site(), 'a name found in more than one search directory is rejected', why or 'a second hit does not always abort')
    if loops:
        lp = loops[0]
        j = [c for c in ast.walk(lp) if isinstance(c, ast.Call) and unparse(c.func) == 'os.path.join']
        ok = len(j) >= 1 and all([unparse(a) for a in jj.args] == [unparse(lp.target), lf.call_params[0].arg] for jj in j) and unparse(lp.iter) == lf.call_params[1].arg
        ctx.check(ok, 'include:searched-in-each-dir', lf.site(lp), 'each search directory is probed for the name', '; '.join(unparse(x) for x in j))
    e = [n for n in ast.walk(load.node) if isinstance(n, ast.ExceptHandler) and n.type is not None and 'FileNotFoundError' in unparse(n.type)]
    ctx.check(len(e) == 1 and body_only_aborts(e[0].body), 'include:unreadable-rejected', load.site(e[0]) if e else load.site(), 'a file that cannot be opened is rejected', '')


def c17_3(ctx):
    ctx.rule('C17.3', 'included lines are spliced in place; the includer\'s region and zone continue', 4)
    load = ctx.repo.func(LOAD)
    inc = calls_to(ctx, load, {AF + '._handle_include_file'})
    if len(inc) != 1:
        raise AnalysisError('load_line_objects: expected one _handle_include_file call')
    node = inc[0][0]
    from rules.shared import IncludeRegion
    reg = IncludeRegion(ctx, load, node)
    g = ctx.cfg(load)
    res = resolver(ctx, load, inline=False)
    st = next((n for n in reg.stmts if isinstance(n, ast.Assign) and n.value is node), None)
    v = unparse(st.targets[0]) if st is not None else None
    ext = reg.calls(lambda c: isinstance(c.func, ast.Attribute) and c.func.attr == 'extend' and c.args
                    and (c.args[0] is node or (v is not None and unparse(c.args[0]) == v)))
    out = next((unparse(r.value) for r in returns(load) if r.value is not None), None)
    # every way from the include call back to the loop header passes the one splice, and nothing leaves the loop from there
    through = len(ext) == 1 and g.all_paths_through(g.node_of(node), reg.header, {g.node_of(ext[0])}) and not reg.leaves_loop
    ok = len(ext) == 1 and unparse(ext[0].func.value) == out and through
    ctx.check(ok, 'splice:in-place', load.site(node), 'the included file\'s lines are appended at the point of inclusion, then the next line is read', f'{[unparse(x) for x in ext]} -> {out}')
    other = [s_ for s_ in reg.stmts if s_ is not st and not (isinstance(s_, ast.Expr) and s_.value in ext) and not isinstance(s_, (ast.Continue, ast.Pass))]
    other_t = [t_ for t_ in reg.tests if 'currently_active' not in unparse(t_)]
    ctx.check(not other and not other_t, 'splice:nothing-else', load.site(other[0]) if other else load.site(node),
              'the include branch does nothing else (it neither scans the included lines nor touches the includer\'s state)',
              '; '.join(unparse(o)[:90] for o in other + other_t))
    assigns = reg.assigned()
    for var, what in (('current_scope', 'local-label region'), ('current_memzone', 'selected memory zone')):
        ctx.check(var not in assigns, f'continues:{var}', load.site(node), f'the includer\'s {what} continues unchanged after the include', f'assigned in the include branch: {assigns}')
    # "as if pasted in place": text pasted after a #mute is muted, and a #mute inside it stays in force after it
    passes_mute = any('mute' in unparse(a).lower() or unparse(a) == 'condition_stack' for a in list(node.args) + [k.value for k in node.keywords])
    cs_new = [c for c in ast.walk(load.node) if isinstance(c, ast.Call) and unparse(c.func) == 'ConditionStack']
    seeded_ = any(c.args or c.keywords for c in cs_new)
    ctx.check(passes_mute and seeded_, 'splice:mute-state-inherited', load.site(node),
              'an included file starts in the includer\'s mute state (and hands its final mute state back)',
              'every file starts unmuted with a counter of its own: bytes of a file included after #mute reach the image, and a #mute inside an included file ends with the file')
    b = bind_args(node, ctx.repo.func(AF + '._handle_include_file'))
    ok = all(unparse(b.get(n_)) == n_ for n_ in ('line_id', 'isa_model', 'memzone_manager', 'preprocessor', 'include_paths', 'assembly_files_used'))
    ctx.check(ok, 'splice:shared-context', load.site(node), 'the include is processed with the includer\'s model, zones, symbols, search path and loaded-file set', unparse(node)[:200])
    # recognition of the directive: the include call is reached exactly under the `#include` prefix test, and such a line never
    # reaches the statement parser
    t = reg.test
    ctx.check(t is not None and unparse(t) == "line_str.startswith('#include')", 'splice:directive-recognised', load.site(node),
              'lines starting with #include are handled here', unparse(t) if t is not None else 'no dominating test on the #include prefix')


def c17_5(ctx):
    ctx.rule('C17.5', 'every file starts with its own scope, zone and condition stack', 4)
    load = ctx.repo.func(LOAD)
    loops = [l for l in walk_no_nested(load.node) if isinstance(l, ast.For)]
    if not loops:
        raise AnalysisError('load_line_objects: line loop not found')
    lp = loops[0]
    for var, want, what in (('condition_stack', 'ConditionStack()', 'condition stack'), ('current_memzone', 'memzone_manager.global_zone', 'memory zone (GLOBAL)'),
                            ('current_scope', 'self.label_scope', 'label scope (its own file scope)'), ('line_num', '0', 'line counter')):
        a = [n for n in walk_no_nested(load.node) if isinstance(n, ast.Assign) and unparse(n.targets[0]) == var and not any(x is n for x in ast.walk(lp))]
        ok = len(a) == 1 and unparse(a[0].value) == want
        if ok:
            # fresh for every file: not handed in from outside, and not created conditionally
            fc = filter_facts_at(ctx, load, a[0], resolver(ctx, load, inline=False))
            ok = var not in load.param_names and fc == []
        if var == 'line_num' and not a:
            # the counter may also be the index of an enumeration of the file's lines starting at 1
            lid = [c for c in ast.walk(lp) if isinstance(c, ast.Call) and unparse(c.func) == 'LineIdentifier' and c.args]
            cnt = unparse(lid[0].args[0]) if lid else None
            ok = isinstance(lp.iter, ast.Call) and unparse(lp.iter.func) == 'enumerate' and isinstance(lp.target, ast.Tuple) and unparse(lp.target.elts[0]) == cnt \
                and (unparse(lp.iter.args[1]) == '1' if len(lp.iter.args) > 1 else any(k.arg == 'start' and unparse(k.value) == '1' for k in lp.iter.keywords))
        ctx.check(ok, f'fresh:{var}', load.site(a[0]) if a else load.site(), f'each file starts with a fresh {what}', '; '.join(unparse(x) for x in a))
    from rules.c06 import c06_2
    c06_2(ctx)


def c17_6(ctx):
    ctx.rule('C17.6', 'include directories: source directory first, de-duplicated by exact real path', 3)
    eng = ctx.repo.func(ENGINE)
    d = [n for n in walk_no_nested(eng.node) if isinstance(n, ast.Assign) and unparse(n.targets[0]) == 'include_dirs']
    from engine.helpers import source_order
    so_ = source_order(eng.node)
    d.sort(key=lambda n: so_[id(n)])
    first = d[0] if d else None
    ok = first is not None and unparse(first.value) == '[os.path.dirname(self._source_file)] + list(self._include_paths)'
    ctx.check(ok, 'dirs:source-dir-and-options', eng.site(first) if first else eng.site(), 'the search directories are the source file\'s directory plus the -I directories',
              unparse(first.value) if first else 'none')
    # every comparison that involves a search directory's path compares two real paths for equality, nothing weaker
    import re as _re
    def _canon(t):
        # `[os.path.realpath(d) for d in include_dirs][i]` is `os.path.realpath(include_dirs[i])`
        return _re.sub(r'\[os\.path\.realpath\((\w+)\) for \1 in include_dirs\]\[(\w+)\]', r'os.path.realpath(include_dirs[\2])', t)
    defs = {unparse(n.targets[0]): _canon(unparse(n.value)) for n in walk_no_nested(eng.node) if isinstance(n, ast.Assign) and isinstance(n.targets[0], ast.Name)
            and _canon(unparse(n.value)).startswith('os.path.realpath(')}

    # names bound to one element of the directory list (loop / comprehension variables over it, its slices or its enumeration)
    elems = set()
    for n in ast.walk(eng.node):
        it, tg = None, None
        if isinstance(n, ast.For):
            it, tg = n.iter, n.target
        elif isinstance(n, ast.comprehension):
            it, tg = n.iter, n.target
        if it is None:
            continue
        t_it = unparse(it)
        if _re.fullmatch(r'include_dirs(\[[^\]]*\])?', t_it) and isinstance(tg, ast.Name):
            elems.add(tg.id)
        elif _re.fullmatch(r'enumerate\(include_dirs(\[[^\]]*\])?\)', t_it) and isinstance(tg, ast.Tuple) and len(tg.elts) == 2 and isinstance(tg.elts[1], ast.Name):
            elems.add(tg.elts[1].id)

    # lists that hold the real path of every search directory, in order (`[os.path.realpath(d) for d in include_dirs]`), their
    # elements, and names bound to one of their elements
    real_lists = set()
    for n in walk_no_nested(eng.node):
        if isinstance(n, ast.Assign) and isinstance(n.targets[0], ast.Name) and isinstance(n.value, ast.ListComp) and len(n.value.generators) == 1 \
                and not n.value.generators[0].ifs and unparse(n.value.generators[0].iter) == 'include_dirs' and isinstance(n.value.generators[0].target, ast.Name) \
                and unparse(n.value.elt) == f'os.path.realpath({n.value.generators[0].target.id})':
            real_lists.add(n.targets[0].id)
    real_elems = set()
    for n in ast.walk(eng.node):
        if isinstance(n, (ast.For, ast.comprehension)) and isinstance(n.target, ast.Name) and _re.fullmatch(r'(\w+)(\[[^\]]*\])?', unparse(n.iter)) \
                and unparse(n.iter).split('[')[0] in real_lists:
            real_elems.add(n.target.id)
    for n in walk_no_nested(eng.node):
        if isinstance(n, ast.Assign) and isinstance(n.targets[0], ast.Name) and isinstance(n.value, ast.Subscript) and unparse(n.value.value) in real_lists \
                and not isinstance(n.value.slice, ast.Slice):
            defs[n.targets[0].id] = unparse(n.value)

    def _real(e):
        t = defs.get(unparse(e), unparse(e))
        m_ = _re.fullmatch(r'os\.path\.realpath\((.+)\)', t)
        if bool(m_) and (bool(_re.fullmatch(r'include_dirs\[\w+\]', m_.group(1))) or m_.group(1) in elems):
            return True
        m_ = _re.fullmatch(r'(\w+)\[\w+\]', t)
        return (bool(m_) and m_.group(1) in real_lists) or t in real_elems
    cmps = [c for c in ast.walk(eng.node) if isinstance(c, ast.Compare) and any(unparse(x) in defs or 'realpath' in unparse(x) or 'include_dirs[' in unparse(x)
                                                                                 or unparse(x) in real_elems or unparse(x).split('[')[0] in real_lists
                                                                                 for x in [c.left] + list(c.comparators))]
    ok = len(cmps) >= 1 and all(len(c.ops) == 1 and isinstance(c.ops[0], (ast.Eq, ast.NotEq)) and _real(c.left) and _real(c.comparators[0]) for c in cmps)
    ctx.check(ok, 'dirs:dedup-exact-realpath', eng.site(cmps[0]) if cmps else eng.site(),
              'two search directories are merged only when their real paths are identical',
              f'{[unparse(c) for c in cmps]} with {defs}')
    # what survives de-duplication is the canonical path, not one of the spellings given (which one would depend on -I order)
    fin = d[-1] if len(d) >= 2 else None
    kept = None
    if fin is not None and isinstance(fin.value, ast.Call) and unparse(fin.value.func) in ('set', 'list', 'frozenset', 'tuple') and len(fin.value.args) == 1:
        kept = unparse(fin.value.args[0])
    apps = [c for c in ast.walk(eng.node) if isinstance(c, ast.Call) and isinstance(c.func, ast.Attribute) and c.func.attr in ('append', 'add')
            and kept is not None and unparse(c.func.value) == kept]
    ok = bool(apps) and all(len(c.args) == 1 and _real(c.args[0]) for c in apps)
    ctx.check(ok, 'dirs:canonical-path-kept', eng.site(apps[0]) if apps else eng.site(),
              'the directory kept for a group of duplicates is the real path they share, so the paths shown in outputs do not depend on the order or spelling of -I options',
              '; '.join(unparse(c) for c in apps) or 'no recognised collection of kept directories')
    # the main file is known to the included-twice test under the spelling an #include of it would produce
    ld_ = [n for n, _ in calls_to(ctx, eng, {LOAD})]
    ok = len(ld_) == 1
    if ok:
        lo_ = ctx.repo.func(LOAD)
        up = next((p_ for p_ in lo_.param_names if 'files_used' in p_), None)
        a_ = bind_args(ld_[0], lo_).get(up)
        d_ = deref(ctx, eng, a_, ld_[0]) if a_ is not None else None
        ok = isinstance(d_, ast.Set) and len(d_.elts) == 1
        if ok:
            e_ = deref(ctx, eng, d_.elts[0], ld_[0])
            ok = unparse(e_) == 'os.path.join(os.path.realpath(os.path.dirname(self._source_file)), os.path.basename(self._source_file))'
    ctx.check(ok, 'include:main-file-known-as-included', eng.site(ld_[0]) if ld_ else eng.site(),
              'the main source is registered as <real path of its directory>/<its name>, the spelling under which an #include would locate it',
              'the set of loaded files starts without the main file in that spelling: a main file given by a relative path can include itself')
    asm = [c for c in ast.walk(eng.node) if isinstance(c, ast.Call) and unparse(c.func) == 'AssemblyFile']
    ok = len(asm) == 1 and unparse(asm[0].args[0]) == 'self._source_file'
    ld = [n for n, _ in calls_to(ctx, eng, {LOAD})]
    load = ctx.repo.func(LOAD)
    ok = ok and len(ld) == 1 and unparse(bind_args(ld[0], load).get('include_paths')) == 'include_dirs'
    ctx.check(ok, 'dirs:handed-to-loader', eng.site(ld[0]) if ld else eng.site(), 'the main source is loaded with those directories', '')
    ei = ctx.repo.func('bespokeasm.assembler.engine.Assembler.__init__')
    st = self_attr_stores(ei.node, '_include_paths')
    ctx.check(len(st) == 1 and unparse(st[0][2]) == 'include_paths', 'dirs:options-kept', ei.site(), '-I directories are kept as given', '; '.join(unparse(s[0]) for s in st))


def c17_state(ctx):
    """Nothing is remembered between statements / files beyond the reviewed state (rules/shared.py STATE)."""
    from rules.shared import state_discipline
    state_discipline(ctx, ('bespokeasm.assembler.assembly_file', 'bespokeasm.assembler.engine', 'bespokeasm.assembler.label_scope', 'bespokeasm.assembler.memory_zone'))


def c17_labels(ctx):
    """"Global labels are as if the text were pasted in place": a name defined in both files is a duplicate (C06.3)."""
    from rules.c06 import c06_3
    c06_3(ctx)

RULES = [c17_1, c17_3, c17_5, c17_6, c17_state, c17_labels]

_A = 'assembler/assembly_file.py'
MUTANTS = [
    V('c17-main-file-not-registered', 'assembler/engine.py', "            self._verbose,\n            assembly_files_used={main_file_as_included},\n", "            self._verbose,\n", 'C17.6'),
    V('c17-filename-canonicalised-on-one-side', 'assembler/assembly_file.py', "        self._filename = filename\n", "        self._filename = os.path.realpath(filename)\n", 'C17.1'),
    V('c17-condition-stack-handed-down', 'assembler/assembly_file.py', "                condition_stack = ConditionStack()\n", "                condition_stack = getattr(preprocessor, '_stack_of_includer', None) or ConditionStack()\n", 'C17.5'),
    V('c17-include-name-with-slash', 'assembler/assembly_file.py', "([\\w\\.\\-\\_]+)(?:\\'|\\\")',", "([\\w\\.\\-\\_/]+)(?:\\'|\\\")',", 'C17.1'),
    V('c17-twice-allowed', _A, "            if new_filepath in assembly_files_used:\n                sys.exit(f'ERROR: {line_id} - assembly file included multiple times')\n", "", 'C17.1'),
    V('c17-private-copy', _A, "                assembly_files_used=assembly_files_used\n            )", "                assembly_files_used=set(assembly_files_used)\n            )", 'C17.1'),
    V('c17-not-recorded', _A, "                assembly_files_used.add(self.filename)\n", "                assembly_files_used = assembly_files_used | {self.filename}\n", 'C17.1'),
    V('c17-spliced-at-end', _A, "                            line_objects.extend(additional_line_objects)\n                            continue", "                            deferred = additional_line_objects\n                            continue", 'C17.3'),
    V('c17-scope-reset-after-include', _A, "                            line_objects.extend(additional_line_objects)\n", "                            line_objects.extend(additional_line_objects)\n                            current_scope = self.label_scope\n", 'C17.3'),
    V('c17-zone-adopted', _A, "                            line_objects.extend(additional_line_objects)\n", "                            line_objects.extend(additional_line_objects)\n                            for lo in additional_line_objects:\n                                if isinstance(lo, SetMemoryZoneLine) and lo.compilable:\n                                    current_memzone = lo.memory_zone\n", 'C17.3'),
    V('c17-includer-scope-parent', _A, 'file_obj = AssemblyFile(new_filepath, self.label_scope.parent)', 'file_obj = AssemblyFile(new_filepath, self.label_scope)', 'C06.2'),
    V('c17-shared-condition-stack', _A, "                condition_stack = ConditionStack()\n", "                condition_stack = preprocessor.__dict__.setdefault('_cs', ConditionStack())\n", 'C17.5'),
    V('c17-dedup-keeps-spelling', 'assembler/engine.py', "                deduplicated_dirs.append(left_path)", "                deduplicated_dirs.append(include_dirs[i])", 'C17.6'),
    V('c17-dedup-lower', 'assembler/engine.py', "                if left_path == right_path:", "                if left_path.lower() == right_path.lower():", 'C17.6'),
    V('c17-no-source-dir', 'assembler/engine.py', "include_dirs = [os.path.dirname(self._source_file)]+list(self._include_paths)", "include_dirs = list(self._include_paths) or [os.path.dirname(self._source_file)]", 'C17.6'),
    V('c17-missing-file-none', _A, "        if filepath is None:\n            sys.exit(f'ERROR: {line_id} - could not find file \"{filename}\" to include')\n", "", 'C17.1'),
    V('c17-keeps-includer-zone', _A, "                current_memzone = memzone_manager.global_zone\n", "                current_memzone = getattr(memzone_manager, '_active', memzone_manager.global_zone)\n", 'C17.5'),
]
TWINS = [
    V('c17-t-kw-order', _A, "                log_verbosity,\n                assembly_files_used=assembly_files_used\n            )", "                log_verbosity,\n                assembly_files_used,\n            )"),
]
