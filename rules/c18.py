"""C18 - output is invariant under meaning-preserving changes of surface syntax."""
import ast
import re._constants as sre

from engine.index import AnalysisError
from engine.helpers import (resolver, facts_at, filter_facts_at, lit_cmp, describe_facts, unparse, walk_no_nested, returns,
                            deref, body_only_aborts, calls_to, reaching_def, is_abort_stmt, self_attr_stores)
from engine.fold import Regex, NotConst
from engine import rx
from engine.selftest import V

T = 'bespokeasm.assembler.model.operand.types.'
PL = 'bespokeasm.assembler.line_object.factory.LineOjectFactory.parse_line'
LOAD = 'bespokeasm.assembler.assembly_file.AssemblyFile.load_line_objects'

EXPLANATION = (
    'Static rules. Decided: C18.1 letter case: mnemonics are lower-cased at load, extraction and lookup (C13.6 re-evaluated); '
    'every regular-expression match of a register name ignores case and no later comparison with the configured register is '
    'case-sensitive; C18.2 kind of whitespace: source text is never split, partitioned or prefix-tested with a literal single '
    'space, and no parsing pattern contains a literal space outside a character class - refuted today for the preprocessor '
    'directive prefixes (known findings, one per site); C18.3 blank lines are skipped, the comment is removed before parsing, '
    'statements on one line are consumed in a loop, a label in front of a statement consumes only its `name:` text, and every '
    'line object of a line receives the scope current at that point (C06.4 re-evaluated). Not decided: behaviour of the regular '
    'expressions themselves under arbitrary rewrites.'
)
ASSUMPTIONS = ['labels, constants and symbol names are case-sensitive by design; the property speaks of mnemonics and register names only']

_PARSING_MODULES = ('bespokeasm.assembler.line_object', 'bespokeasm.assembler.model.instruction_parser', 'bespokeasm.assembler.preprocessor',
                    'bespokeasm.assembler.assembly_file', 'bespokeasm.assembler.bytecode.generator', 'bespokeasm.expression', 'bespokeasm.assembler.model.operand.types')


def c18_1(ctx):
    ctx.rule('C18.1', 'letter case of mnemonics and register names does not matter', 5)
    from rules.c13 import c13_6
    c13_6(ctx)
    ctx.rule('C18.1', 'letter case of mnemonics and register names does not matter', 5)
    reg = ctx.repo.cls(T + 'register.RegisterOperand')
    for c in [reg] + reg.all_subclasses():
        po = c.methods.get('parse_operand')
        if po is None:
            continue
        matches = [m for m in ast.walk(po.node) if isinstance(m, ast.Call) and unparse(m.func) in ('re.match', 're.search', 're.fullmatch')]
        for m in matches:
            flags = next((k.value for k in m.keywords if k.arg == 'flags'), m.args[2] if len(m.args) > 2 else None)
            ok = flags is not None and 'IGNORECASE' in unparse(flags)
            if not ok and unparse(m.args[0]).startswith('self._'):
                attr = unparse(m.args[0]).split('.', 1)[1]
                for k in c.mro():
                    i = k.methods.get('__init__')
                    if i is None:
                        continue
                    for s, t, v in self_attr_stores(i.node, attr):
                        if isinstance(v, ast.Call) and unparse(v.func) == 're.compile':
                            fl = next((kw.value for kw in v.keywords if kw.arg == 'flags'), None)
                            ok = fl is not None and 'IGNORECASE' in unparse(fl)
            ctx.check(ok, f'case:match:{c.name}', po.site(m), f'{c.name} matches its register pattern ignoring case', unparse(m)[:100])
        # comparisons of a matched group with the configured register must fold case on both sides
        for cmp_ in [n for n in ast.walk(po.node) if isinstance(n, ast.Compare) and len(n.ops) == 1 and isinstance(n.ops[0], (ast.Eq, ast.NotEq))]:
            l, r = cmp_.left, cmp_.comparators[0]
            sides = [unparse(deref(ctx, po, x, cmp_)) if isinstance(x, ast.Name) else unparse(x) for x in (l, r)]
            raw = [unparse(l), unparse(r)]
            if any('self.register' in s for s in raw + sides):
                folded = all(s.endswith(('.lower()', '.upper()', '.casefold()')) for s in raw) or all(s.endswith(('.lower()', '.upper()', '.casefold()')) for s in sides)
                ctx.check(folded, f'case:IndexedRegisterOperand.parse_operand' if c.name == 'IndexedRegisterOperand' else f'case:{c.name}.parse_operand', po.site(cmp_),
                          'a matched register name is compared with the configured register case-insensitively',
                          f'{unparse(cmp_)}: the pattern matched ignoring case, the comparison does not')
    # the register pattern itself is built from the configured register name
    mp = reg.methods['match_pattern']
    ok = all('{self.register}' in unparse(r.value) for r in returns(mp))
    ctx.check(ok, 'case:register-pattern', mp.site(), 'the register pattern is built from the configured register name', '')


def _string_space_sites(ctx):
    out = []
    for fn in ctx.repo.all_functions():
        if not fn.module.name.startswith(_PARSING_MODULES):
            continue
        for c in ast.walk(fn.node):
            if isinstance(c, ast.Call) and isinstance(c.func, ast.Attribute) and c.args and isinstance(c.args[0], ast.Constant) and isinstance(c.args[0].value, str):
                lit = c.args[0].value
                if c.func.attr in ('split', 'rsplit', 'partition', 'rpartition', 'find', 'index') and lit == ' ':
                    out.append((fn, c, lit, c.func.attr))
                elif c.func.attr == 'startswith' and lit.endswith(' ') and lit.strip():
                    out.append((fn, c, lit, 'startswith'))
            elif isinstance(c, ast.Call) and isinstance(c.func, ast.Attribute) and c.func.attr == 'startswith' and c.args and isinstance(c.args[0], ast.Tuple):
                for e in c.args[0].elts:
                    if isinstance(e, ast.Constant) and isinstance(e.value, str) and e.value.endswith(' ') and e.value.strip():
                        out.append((fn, c, e.value, 'startswith'))
    return out


def c18_2(ctx):
    ctx.rule('C18.2', 'spaces and tabs are interchangeable between tokens', 3)
    n = 0
    # the one sanctioned idiom: directive text is normalised ('#kw<whitespace>' -> '#kw ') before it is dispatched
    pl = ctx.repo.func(PL)
    g = ctx.cfg(pl)
    disp = [c for c in ast.walk(pl.node) if isinstance(c, ast.Call) and unparse(c.func).endswith('PreprocessorLineFactory.parse_line')]
    norm = []
    for a in [x for x in walk_no_nested(pl.node) if isinstance(x, ast.Assign) and isinstance(x.value, ast.Call) and unparse(x.value.func) == 're.sub']:
        pat = ctx.fold.try_fold(a.value.args[0], pl.module, pl.cls)
        rep = ctx.fold.try_fold(a.value.args[1], pl.module, pl.cls)
        subj = unparse(a.value.args[2]) if len(a.value.args) > 2 else None
        if isinstance(pat, str) and pat in ('^(#\\w+)\\s+', '^(\\#\\w+)\\s+') and rep == '\\1 ' and subj == unparse(a.targets[0]) \
                and disp and all(g.dominates(g.node_of(a), g.node_of(d)) and unparse(d.args[1]) == subj for d in disp):
            norm.append(a)
    normalised = bool(norm)
    ctx.check(normalised, 'space:directive-keyword-normalised', pl.site(norm[0]) if norm else pl.site(),
              'the whitespace after a preprocessor directive keyword is normalised to one space before the directive is dispatched',
              "no `re.sub(r'^(#\\w+)\\s+', r'\\1 ', text)` dominating the directive dispatch: `#if<TAB>1` is rejected")
    downstream = ('bespokeasm.assembler.line_object.preprocessor_line',)
    for fn, c, lit, how in _string_space_sites(ctx):
        n += 1
        if normalised and fn.module.name.startswith(downstream) and how == 'startswith' and lit.startswith('#'):
            ctx.ok(f'space:{ctx.short(fn).split(".")[-2]}.{fn.name}:{how}:{lit!r}', fn.site(c), 'prefix test on normalised directive text', 'downstream of the normalisation')
            continue
        ctx.refute(f'space:{ctx.short(fn).split(".")[-2]}.{fn.name}:{how}:{lit!r}', fn.site(c), 'source text is not split or prefix-tested with a literal single space',
                   f'{unparse(c)[:80]}: a TAB in place of the space is not accepted')
    # module/class constants holding literal-space prefixes used for dispatch
    for m in ctx.repo.modules.values():
        if not m.name.startswith(_PARSING_MODULES):
            continue
        for name in m.assigns:
            v = ctx.fold.try_fold(m.assigns[name][0], m) if len(m.assigns[name]) == 1 else None
            if isinstance(v, (list, tuple)) and all(isinstance(x, str) for x in v):
                for x in v:
                    if x.endswith(' ') and x.strip():
                        n += 1
                        if normalised and m.name.startswith(downstream) and x.startswith('#'):
                            continue
                        ctx.refute(f'space:{m.name.split(".")[-1]}.{name}:{x!r}', f'{m.relpath}:1', 'directive prefixes do not end in a literal single space',
                                   f'{name} contains {x!r}: a TAB after the keyword is not accepted')
    # regular expressions: a literal space outside a character class
    pats = {}
    for m in ctx.repo.modules.values():
        for name in m.assigns:
            try:
                v = ctx.fold.module_const(m.name, name)
            except NotConst:
                continue
            if isinstance(v, Regex) or (isinstance(v, str) and 'PATTERN' in name):
                pats[f'{m.name.split("bespokeasm.")[-1]}.{name}'] = (v.pattern if isinstance(v, Regex) else v, v.flags if isinstance(v, Regex) else 0, f'{m.relpath}:1')
    for c in ctx.repo.classes.values():
        for name in c.attrs:
            try:
                v = ctx.fold.class_const(c, name)
            except (NotConst, AnalysisError):
                continue
            if isinstance(v, Regex) or (isinstance(v, str) and 'PATTERN' in name.upper()):
                pats[f'{c.name}.{name}'] = (v.pattern if isinstance(v, Regex) else v, v.flags if isinstance(v, Regex) else 0, f'{c.module.relpath}:{c.node.lineno}')
    for fn in ctx.repo.all_functions():
        if not fn.module.name.startswith(_PARSING_MODULES):
            continue
        for node in walk_no_nested(fn.node):
            if isinstance(node, ast.JoinedStr):
                v = ctx.fold.try_fold(node, fn.module, fn.cls)
                if isinstance(v, str) and '\\' in v and len(v) > 6:
                    pats[f'{ctx.short(fn).split(".")[-2]}.{fn.name}@{node.lineno - fn.node.lineno}'] = (v, 0, fn.site(node))
            elif isinstance(node, ast.Constant) and isinstance(node.value, str) and '\\' in node.value and any(x in node.value for x in ('\\s', '\\w', '\\b', '(?')):
                pats[f'{ctx.short(fn).split(".")[-2]}.{fn.name}@{node.lineno - fn.node.lineno}c'] = (node.value, 0, fn.site(node))

    def has_literal_space(seq):
        for op, av in seq:
            if op == sre.LITERAL and av == 32:
                return True
            if op == sre.SUBPATTERN and has_literal_space(av[3]):
                return True
            if op == sre.BRANCH and any(has_literal_space(a) for a in av[1]):
                return True
            if op in (sre.MAX_REPEAT, sre.MIN_REPEAT) and has_literal_space(av[2]):
                return True
            if op in (sre.ASSERT, sre.ASSERT_NOT) and has_literal_space(av[1]):
                return True
        return False
    reported = set()
    nrx = 0
    for key, (pat, flags, site) in sorted(pats.items(), key=lambda kv: len(kv[1][0])):
        try:
            p = rx.parse(pat, flags)
        except Exception:
            continue
        nrx += 1
        if has_literal_space(p) and not (flags & 64):   # re.VERBOSE patterns use spaces as layout
            if any(r in pat for r in reported):
                continue
            reported.add(pat)
            ctx.refute(f'space:regex:{key}', site, 'parsing patterns use \\s / [ \\t] where whitespace is meant, never a literal space',
                       f'{key} contains a literal space: a TAB at that position ends the match')
    ctx.ok('space:scanned', '-', 'string operations and patterns of the parsing modules were scanned', f'{n} literal-space string sites, {nrx} patterns')
    # #if / #elif operands may be compared as text: a captured operand whose pattern can absorb blanks is trimmed before it is kept
    hm = ctx.repo.func('bespokeasm.assembler.preprocessor.condition.IfPreprocessorCondition._handle_matching')
    COND = 'bespokeasm.assembler.preprocessor.condition'
    by_param = {'compare_pattern': ('PREPROCESSOR_CONDITION_IF_PATTERN', 'PREPROCESSOR_CONDITION_ELIF_PATTERN'),
                'implied_pattern': ('PREPROCESSOR_CONDITION_IMPLIED_IF_PATTERN', 'PREPROCESSOR_CONDITION_IMPLIED_ELIF_PATTERN')}

    def _is_blank_class(op, av):
        if op == sre.LITERAL:
            return av in (32, 9)
        if op == sre.IN:
            return all(x == (sre.CATEGORY, sre.CATEGORY_SPACE) or (x[0] == sre.LITERAL and x[1] in (32, 9)) for x in av)
        return False

    def _blank_only(alt):
        # the alternative can match blanks and nothing else (zero-width assertions aside)
        seen = False
        for op, av in alt:
            if op in (sre.ASSERT, sre.ASSERT_NOT, sre.AT):
                continue
            if _is_blank_class(op, av):
                seen = True
            elif op in (sre.MAX_REPEAT, sre.MIN_REPEAT) and len(av[2]) == 1 and _is_blank_class(*av[2][0]):
                seen = True
            elif op == sre.SUBPATTERN and _blank_only(av[3]):
                seen = True
            else:
                return False
        return seen

    def _absorbs_blank(seq):
        # the (sub)pattern is a repetition one of whose alternatives is a lone blank / whitespace class
        for op, av in seq:
            if op in (sre.MAX_REPEAT, sre.MIN_REPEAT):
                body = av[2]
                alts = []
                for o2, a2 in body:
                    if o2 == sre.BRANCH:
                        alts += a2[1]
                    elif o2 == sre.SUBPATTERN:
                        for o3, a3 in a2[3]:
                            alts += a3[1] if o3 == sre.BRANCH else [[(o3, a3)]]
                    else:
                        alts.append([(o2, a2)])
                for alt in alts:
                    if _blank_only(alt):
                        return True
            if op == sre.SUBPATTERN and _absorbs_blank(av[3]):
                return True
        return False

    def _group(seq, k):
        for op, av in seq:
            if op == sre.SUBPATTERN:
                if av[0] == k:
                    return av[3]
                r = _group(av[3], k)
                if r is not None:
                    return r
            elif op == sre.BRANCH:
                for alt in av[1]:
                    r = _group(alt, k)
                    if r is not None:
                        return r
            elif op in (sre.MAX_REPEAT, sre.MIN_REPEAT):
                r = _group(av[2], k)
                if r is not None:
                    return r
        return None
    mvars = {}
    for a in walk_no_nested(hm.node):
        if isinstance(a, ast.Assign) and isinstance(a.value, ast.Call) and isinstance(a.value.func, ast.Attribute) and a.value.func.attr in ('match', 'search', 'fullmatch') \
                and unparse(a.value.func.value) in by_param:
            mvars[unparse(a.targets[0])] = unparse(a.value.func.value)
    n_ops = 0
    for st, tgt, val in self_attr_stores(hm.node):
        if tgt.attr not in ('_lhs_expression', '_rhs_expression') or val is None:
            continue
        leaves = val.values if isinstance(val, ast.BoolOp) else [val]
        for leaf in leaves:
            inner, stripped = leaf, False
            if isinstance(inner, ast.Call) and isinstance(inner.func, ast.Attribute) and inner.func.attr == 'strip' and not inner.args:
                inner, stripped = inner.func.value, True
            if not (isinstance(inner, ast.Call) and isinstance(inner.func, ast.Attribute) and inner.func.attr == 'group' and unparse(inner.func.value) in mvars
                    and len(inner.args) == 1 and isinstance(inner.args[0], ast.Constant)):
                continue
            k = inner.args[0].value
            absorbs = False
            for cname in by_param[mvars[unparse(inner.func.value)]]:
                v = ctx.fold.module_const(COND, cname)
                gseq = _group(rx.parse(v.pattern, v.flags), k)
                absorbs = absorbs or (gseq is not None and _absorbs_blank(gseq))
            n_ops += 1
            ctx.check(stripped or not absorbs, f'space:condition-operand:{tgt.attr}:group{k}', hm.site(st),
                      'an #if/#elif operand whose pattern can take in surrounding blanks is trimmed before it is kept (operands naming labels are compared as text)',
                      f'{unparse(leaf)} keeps the blanks the pattern absorbed: `#if MODE  == fast` (two blanks) differs from `#if MODE == fast`')
    if n_ops < 4:
        ctx.err('space:condition-operand', hm.site(), 'at least 4 captured condition operands', f'{n_ops}')
    # mnemonic / operand separation
    pi = ctx.repo.func('bespokeasm.assembler.model.instruction_parser.InstructioParser.parse_instruction')
    sp = [c for c in ast.walk(pi.node) if isinstance(c, ast.Call) and isinstance(c.func, ast.Attribute) and c.func.attr == 'split']
    ok = len(sp) == 1 and (not sp[0].args or unparse(sp[0].args[0]) == 'None') and 'strip()' in unparse(sp[0].func.value)
    ctx.check(ok, 'space:InstructioParser.parse_instruction', pi.site(sp[0]) if sp else pi.site(), 'mnemonic and operands are separated by any whitespace', '; '.join(unparse(s) for s in sp))


def _flatten(seq):
    for op, av in seq:
        yield op, av
        if isinstance(av, tuple):
            for x in av:
                if hasattr(x, '__iter__') and not isinstance(x, (str, bytes)):
                    try:
                        yield from _flatten([y for y in x if isinstance(y, tuple) and len(y) == 2])
                    except TypeError:
                        pass


def same_line_zone(ctx):
    pl = ctx.repo.func(PL)
    res = resolver(ctx, pl, inline=False)
    zp = next((p_.arg for p_ in pl.call_params if p_.arg in ('current_memzone', 'memzone')), None)
    wl = [w for w in walk_no_nested(pl.node) if isinstance(w, ast.While)]
    upd = [n for w in wl for n in ast.walk(w) if isinstance(n, ast.Assign) and unparse(n.targets[0]) == zp]
    ok = len(upd) == 1 and unparse(upd[0].value) == 'line_obj.memory_zone'
    why = '; '.join(unparse(u) for u in upd) or 'the zone parameter is never updated inside the statement loop'
    if ok:
        cl = facts_at(ctx, pl, upd[0], res)
        ok = any(c == frozenset({('isinstance', 'line_obj', 'SetMemoryZoneLine', True)}) for c in cl)
        why = describe_facts(cl)
    ctx.check(ok, 'surface:zone-directive-same-line', pl.site(upd[0]) if upd else pl.site(),
              'after a .memzone / .org statement the statements that follow on the same line are created in the zone it selects',
              f'{why}: `.memzone lo .byte 1` puts the byte in the previously selected zone, unlike the two-line spelling')


def c18_3(ctx):
    ctx.rule('C18.3', 'blank lines, comments, label placement and compound lines', 6)
    load = ctx.repo.func(LOAD)
    ls = [n for n in walk_no_nested(load.node) if isinstance(n, ast.Assign) and unparse(n.targets[0]) == 'line_str']
    ctx.check(len(ls) == 1 and unparse(ls[0].value) == 'line.strip()', 'surface:line-stripped', load.site(), 'leading/trailing whitespace of a line is dropped', '; '.join(unparse(x) for x in ls))
    pc = [c for c in ast.walk(load.node) if isinstance(c, ast.Call) and unparse(c.func).endswith('LineOjectFactory.parse_line')]
    res = resolver(ctx, load, inline=False)
    ok = len(pc) == 1 and any(c == frozenset({lit_cmp(ctx, load, 'len(line_str) > 0', res)}) for c in facts_at(ctx, load, pc[0], res))
    ctx.check(ok, 'surface:blank-lines-skipped', load.site(), 'blank lines are skipped', '')
    pl = ctx.repo.func(PL)
    ins = [n for n in walk_no_nested(pl.node) if isinstance(n, ast.Assign) and unparse(n.targets[0]) == 'instruction_str' and 'group(1)' in unparse(n.value)]
    ok = len(ins) == 1 and unparse(deref(ctx, pl, ins[0].value.func.value.func.value, ins[0]) if False else ins[0].value).startswith('instruction_match.group(1)')
    im = reaching_def(ctx, pl, 'instruction_match', ins[0]) if ins else None
    ok = ok and im is not None and 'PATTERN_INSTRUCTION_CONTENT' in unparse(im)
    pat = ctx.fold.class_const('bespokeasm.assembler.line_object.factory.LineOjectFactory', 'PATTERN_INSTRUCTION_CONTENT').pattern
    ok = ok and pat.startswith('^([^;') and '(?:;.*)?$' in pat
    ctx.check(ok, 'surface:comment-stripped', pl.site(), 'everything from the first `;` on is removed before the line is parsed', pat)
    # #include lines are dispatched before comments are stripped: their pattern must tolerate what follows the closing quote
    import re._parser as _P
    rx_ = ctx.fold.class_const('bespokeasm.assembler.assembly_file.AssemblyFile', 'PATTERN_INCLUDE_FILE')
    items = list(_P.parse(rx_.pattern, rx_.flags))
    gi = next((i for i, (op, av) in enumerate(items) if str(op) == 'SUBPATTERN' and av[0] == 1), None)
    tail = items[gi + 2:] if gi is not None else None
    ok = tail is not None and (not any(str(op) == 'AT' and 'END' in str(av) for op, av in tail) or any(str(op) == 'LITERAL' and av == ord(';') for op, av in _flatten(tail)))
    ctx.check(ok, 'surface:include-line-comment', 'src/bespokeasm/assembler/assembly_file.py:' + str(ctx.repo.cls('bespokeasm.assembler.assembly_file.AssemblyFile').node.lineno),
              'an #include line may carry a comment after the closing quote (the pattern is not anchored at the end of the line, or allows `;...`)',
              'the include pattern must match up to the end of the line: `#include "x.asm" ; note` is rejected')
    wl = [w for w in walk_no_nested(pl.node) if isinstance(w, ast.While)]
    from engine.lin import to_cnf as _to_cnf
    # (every spelling of "the remaining text is not empty" is the one literal truthy(instruction_str))
    ok = len(wl) == 1 and _to_cnf(wl[0].test, True, resolver(ctx, pl, inline=False)) == [frozenset({('truthy', 'instruction_str', True)})]
    ctx.check(ok, 'surface:compound-lines', pl.site(wl[0]) if wl else pl.site(), 'statements on one line are consumed one after another until the line is empty', '')
    lf = ctx.repo.func('bespokeasm.assembler.line_object.label_line.LabelLine.factory')
    init = ctx.repo.func('bespokeasm.assembler.line_object.label_line.LabelLine.__init__')
    from engine.types import bind_args
    lab = [c for c in ast.walk(lf.node) if isinstance(c, ast.Call) and unparse(c.func) == 'LabelLine' and isinstance(bind_args(c, init).get('value'), ast.Constant)]
    ok = len(lab) == 1 and unparse(bind_args(lab[0], init).get('instruction')).startswith('label_match.group(1)')
    lp = ctx.fold.class_const('bespokeasm.assembler.line_object.label_line.LabelLine', 'PATTERN_LABEL').pattern
    ok = ok and lp.startswith('^\\s*((\\.?\\w+):)')
    ctx.check(ok, 'surface:label-consumes-only-its-name', lf.site(), 'a label in front of a statement consumes only its `name:` text; the statement is parsed next', lp)
    from engine.helpers import source_order
    _so = source_order(wl[0]) if wl else {}
    order = [unparse(c.func) for c in sorted([c for c in ast.walk(wl[0]) if isinstance(c, ast.Call) and unparse(c.func).endswith('.factory')], key=lambda c: (c.lineno, _so[id(c)]))] if wl else []
    ctx.check(order[:1] == ['LabelLine.factory'], 'surface:label-tried-first', pl.site(), 'a label is looked for before any other statement kind', str(order))
    # a zone directive takes effect for the rest of its own line too (as it would on the following lines)
    same_line_zone(ctx)
    from rules.c06 import c06_4
    c06_4(ctx)


def c18_scopes(ctx):
    """`label: stmt` and `label:` / `stmt` on two lines resolve local labels alike only if every line object gets the scope
    current at its own position (C06.4, run in C18.3) through accessors that store exactly what they are given (C06.9)."""
    from rules.c06 import c06_9
    c06_9(ctx)


def c18_vetoes(ctx):
    ctx.rule('C18.4', 'a statement kind is refused only by its own pattern (which treats blanks and tabs alike)', 5)
    from rules.shared import no_pre_pattern_veto
    no_pre_pattern_veto(ctx, 'bespokeasm.assembler.line_object')

def c18_consume(ctx):
    """Statements written on one line are the statements written on separate lines only if each one removes exactly its own text (C14.4)."""
    from rules.c14 import c14_4
    c14_4(ctx)

def c18_operands(ctx):
    """Blanks around the commas of an operand list do not matter for macros either: both generators split and trim alike (C10.3)."""
    from rules.c10 import c10_3
    c10_3(ctx)


def c18_state(ctx):
    """A statement's meaning does not depend on whether the same spelling was seen before: nothing is remembered between statements (STATE)."""
    from rules.shared import state_discipline
    state_discipline(ctx, ('bespokeasm.assembler.preprocessor', 'bespokeasm.assembler.line_object', 'bespokeasm.assembler.model.instruction_parser',
                           'bespokeasm.assembler.bytecode.generator'))


def c18_registers_and_blanks(ctx):
    """The letter case of a register and the blanks around an operand do not change which operand type takes it: the register test of
    expressions (C13.5) and the texts tested before a pattern (C13.10); blanks inside an expression are any whitespace (C07.4)."""
    from rules.c13 import c13_5, c13_vetoes
    from rules.c07 import c07_4
    c13_5(ctx)
    c13_vetoes(ctx)
    c07_4(ctx)


RULES = [c18_1, c18_2, c18_3, c18_scopes, c18_vetoes, c18_consume, c18_operands, c18_state, c18_registers_and_blanks]

MUTANTS = [
    V('c18-zone-directive-not-same-line', 'assembler/line_object/factory.py', "                    if isinstance(line_obj, SetMemoryZoneLine):\n                        # statements that follow on the same line are assembled in the zone just selected\n                        current_memzone = line_obj.memory_zone\n", "", 'C18.3'),
    V('c18-if-lhs-untrimmed', 'assembler/preprocessor/condition.py', "            self._lhs_expression = match.group(1).strip()\n", "            self._lhs_expression = match.group(1)\n", 'C18.2'),
    V('c18-if-rhs-untrimmed', 'assembler/preprocessor/condition.py', "match.group(5).strip()", "match.group(5)", 'C18.2'),
    V('c18-include-anchored', 'assembler/assembly_file.py', "([\\w\\.\\-\\_]+)(?:\\'|\\\")',", "([\\w\\.\\-\\_]+)(?:\\'|\\\")\\s*$',", 'C18.3'),
    V('c18-lookup-no-lower', 'assembler/model/instruction_parser.py', "        mnemonic = instr_parts[0].lower()", "        mnemonic = instr_parts[0]", 'C13.6'),
    V('c18-register-case-sensitive', 'assembler/model/operand/types/register.py', "            operand.strip(),\n            flags=re.IGNORECASE,\n        )", "            operand.strip(),\n        )", 'C18.1'),
    V('c18-indexed-compare', 'assembler/model/operand/types/indexed_register.py', "            if matched_register.lower() != self.register.lower():", "            if matched_register != self.register:", 'C18.1'),
    V('c18-no-directive-normalisation', 'assembler/line_object/factory.py', "            instruction_str = re.sub(r'^(#\\w+)\\s+', r'\\1 ', instruction_str)\n", "", 'C18.2'),
    V('c18-split-space', 'assembler/model/instruction_parser.py', "        instr_parts = instruction.strip().split(None, 1)", "        instr_parts = instruction.strip().split(' ', 1)", 'C18.2'),
    V('c18-org-prefix', 'assembler/line_object/directive_line/factory.py', "        if not cleaned_line_str.startswith('.'):\n            return None", "        if not cleaned_line_str.startswith('.'):\n            return None\n        if cleaned_line_str.startswith('.org ') and False:\n            return None", 'C18.2'),
    V('c18-relative-literal-space', 'assembler/model/operand/types/relative_address.py', "base_match_str = fr'((?:{EXPRESSION_PARTS_PATTERN}|\\s)+)'", "base_match_str = fr'((?:{EXPRESSION_PARTS_PATTERN}| )+)'", 'C18.2'),
    V('c18-fill-literal-space', 'assembler/line_object/directive_line/factory.py', "r'^(?:\\.fill)\\s+({})\\s*\\,\\s*({})'.format(", "r'^(?:\\.fill) +({})\\s*\\,\\s*({})'.format(", 'C18.2'),
    V('c18-scope-per-line', 'assembler/assembly_file.py', "                                lobj.label_scope = current_scope\n", "                                if lobj is lobj_list[0]:\n                                    lobj.label_scope = current_scope\n                                else:\n                                    lobj.label_scope = lobj_list[0].label_scope\n", 'C06.4'),
    V('c18-blank-lines-kept', 'assembler/assembly_file.py', "                    if len(line_str) > 0:\n", "                    if True:\n", 'C18.3'),
    V('c18-label-consumes-line', 'assembler/line_object/label_line.py', "return LabelLine(line_id, label_val, None, label_match.group(1).strip(), comment, current_memzone)", "return LabelLine(line_id, label_val, None, label_match.group(0).strip(), comment, current_memzone)", 'C18.3'),
    V('c18-indirect-case', 'assembler/model/operand/types/indirect_register.py', "            fr'^{self.match_pattern}$',\n            flags=re.IGNORECASE | re.MULTILINE\n        )", "            fr'^{self.match_pattern}$',\n            flags=re.MULTILINE\n        )", 'C18.1'),
]
TWINS = []
