"""C20 - generated editor extensions are well-formed and mirror the ISA vocabulary."""
import ast
import json
import os
import re

from engine.index import AnalysisError
from engine.helpers import (resolver, facts_at, filter_facts_at, lit_cmp, describe_facts, unparse, walk_no_nested, returns,
                            deref, body_only_aborts, calls_to, reaching_def, is_abort_stmt, self_attr_stores, parent_map)
from engine.types import bind_args
from engine.selftest import V

CG = 'bespokeasm.configgen'
VS = CG + '.vscode.VSCodeConfigGenerator.generate'
SB = CG + '.sublime.SublimeConfigGenerator._generate_files_in_dir'
HELPER = CG + '.LanguageConfigGenerator._replace_token_with_regex_list'

EXPLANATION = (
    'Static rules over the two editor generators and their template resources (the resources are read as data). Decided: '
    'C20.1 placeholder agreement: for every template a generator reads, the set of ##TOKEN## placeholders found in the '
    'resource equals the set the code substitutes into what it writes (a replace whose result is kept, an assignment to the '
    'key holding the token, or deletion of that key), and resources copied verbatim contain no placeholder; C20.2 ISA '
    'vocabulary reaches regular-expression text only through re.escape, directive keywords get an escaped dot prefix; C20.3 '
    'both generators feed each placeholder from the same model source (instructions, macros, operations, registers, '
    'predefined names, the three directive keyword sets, expression functions) and drop the rule when the source is empty; the '
    'generators do not mutate the model\'s vocabulary sets; C20.4 JSON and YAML outputs are produced by json.dump / yaml.dump '
    'and the package by ZipFile, text-substituted XML receives only the language id, the YAML header is a constant. Not '
    'decided: what an editor\'s regular expression engine classifies.'
)
ASSUMPTIONS = ['template resources are parsed as text/JSON/YAML data only', 'json.dump / yaml.dump / ZipFile produce well-formed output by construction']

TOKEN = re.compile(r'##[A-Z_]+##')


def _resources(ctx, fn):
    """Resource names fn reads through pkg_resources.files(resources).joinpath('<name>') and how they are used."""
    out = {}
    for c in ast.walk(fn.node):
        if isinstance(c, ast.Call) and isinstance(c.func, ast.Attribute) and c.func.attr == 'joinpath' and c.args and isinstance(c.args[0], ast.Constant):
            out[c.args[0].value] = c
    return out


def _resource_dir(ctx, fn):
    return os.path.join(os.path.dirname(fn.module.path), 'resources')


def _handled_tokens(ctx, fn):
    """token -> list of (kind, node) for every substitution site in fn; kind in {'kept', 'discarded'}."""
    pm = parent_map(fn.node)
    out = {}
    for c in ast.walk(fn.node):
        if not isinstance(c, ast.Call):
            continue
        tok = None
        if isinstance(c.func, ast.Attribute) and c.func.attr == 'replace' and c.args and isinstance(c.args[0], ast.Constant) and isinstance(c.args[0].value, str) \
                and TOKEN.fullmatch(c.args[0].value):
            tok = c.args[0].value
        elif unparse(c.func) == 'self._replace_token_with_regex_list' and len(c.args) >= 2 and isinstance(c.args[1], ast.Constant):
            tok = c.args[1].value
        if tok is None:
            continue
        par = pm.get(id(c))
        while par is not None and not isinstance(par, ast.stmt):
            par = pm.get(id(par))
        kind = 'kept' if isinstance(par, (ast.Assign, ast.AnnAssign, ast.Return)) else 'discarded'
        out.setdefault(tok, []).append((kind, c))
    return out


def c20_1(ctx):
    ctx.rule('C20.1', 'template placeholders and substitutions agree', 20)
    for q in (VS, SB):
        fn = ctx.repo.func(q)
        rdir = _resource_dir(ctx, fn)
        handled = _handled_tokens(ctx, fn)
        res = _resources(ctx, fn)
        if not res:
            raise AnalysisError(f'{q}: no template resource read')
        gen = 'vscode' if 'vscode' in q else 'sublime'
        copied = set()
        for c in ast.walk(fn.node):
            if isinstance(c, ast.Call) and unparse(c.func) == 'shutil.copy':
                d = deref(ctx, fn, c.args[0].args[0] if isinstance(c.args[0], ast.Call) else c.args[0], c)
                for name, jc in res.items():
                    if d is jc or (isinstance(d, ast.Call) and any(x is jc for x in ast.walk(d))):
                        copied.add(name)
        in_templates = set()
        for name in sorted(res):
            path = os.path.join(rdir, name)
            if not os.path.exists(path):
                ctx.err(f'placeholder:{gen}:{name}', fn.site(res[name]), 'template resource exists', path)
                continue
            text = open(path, encoding='utf-8').read()
            toks = sorted(set(TOKEN.findall(text)))
            if name in copied:
                ctx.check(not toks, f'placeholder:{name}:copied-verbatim', fn.site(res[name]), 'a resource copied verbatim contains no placeholder', f'{toks}')
                continue
            data = None
            try:
                if name.endswith('.json'):
                    data = json.loads(text)
                elif name.endswith('.yaml'):
                    import yaml
                    data = yaml.safe_load(text)
            except Exception:
                data = None
            if data is not None:
                # a template that is parsed and re-serialised can only carry the placeholders that survive parsing
                toks = sorted(set(TOKEN.findall(json.dumps(data))))
            for t in toks:
                in_templates.add(t)
                sites = handled.get(t, [])
                kept = [s for s in sites if s[0] == 'kept']
                disc = [s for s in sites if s[0] == 'discarded']
                if kept:
                    ctx.ok(f'placeholder:{name}:{t}', fn.site(kept[0][1]), f'{t} of {name} is substituted into what is written', f'{len(kept)} substitution(s)')
                    continue
                if disc:
                    ctx.refute(f'placeholder:{name}:{t}', fn.site(disc[0][1]), f'{t} of {name} is substituted into what is written',
                               f'{unparse(disc[0][1])[:80]}: the result of replace() is discarded, the written file still contains {t}')
                    continue
                # overwritten key?
                top = None
                if isinstance(data, dict):
                    for k, v in data.items():
                        if t in json.dumps(v):
                            top = k
                assigned = top is not None and any(isinstance(n, ast.Assign) and isinstance(n.targets[0], ast.Subscript) and isinstance(n.targets[0].slice, ast.Constant)
                                                   and n.targets[0].slice.value == top and isinstance(n.targets[0].value, ast.Name) for n in ast.walk(fn.node))
                ctx.check(assigned, f'placeholder:{name}:{t}', fn.site(res[name]), f'{t} of {name} is substituted (or the key holding it is overwritten)',
                          f'no substitution of {t}; top-level key holding it: {top}')
        for t, sites in handled.items():
            for kind, node in sites:
                if kind == 'discarded':
                    ctx.refute(f'placeholder:{gen}:{t}:result-discarded', fn.site(node), 'the result of every placeholder substitution is kept',
                               f'{unparse(node)[:80]}: str.replace returns a new string; the written text still contains {t}')
            if t not in in_templates:
                ctx.refute(f'placeholder:{gen}:{t}:unknown', fn.site(sites[0][1]), 'every substituted placeholder exists in a template this generator reads',
                           f'{t} is substituted but occurs in none of {sorted(res)}')
    # tokens removed together with their rule when the vocabulary is empty
    for q, what in ((VS, ("grammar_json['repository']['macros']", "grammar_json['repository']['registers']", "grammar_json['repository']['compiler_labels']")),
                    (SB, ("syntax_dict['contexts']['registers']", "syntax_dict['contexts']['compiler_labels']"))):
        fn = ctx.repo.func(q)
        dels = [unparse(t) for n in ast.walk(fn.node) if isinstance(n, ast.Delete) for t in n.targets]
        for w in what:
            ctx.check(w in dels, f'placeholder:rule-removed-when-empty:{w}', fn.site(), f'{w} is removed when its vocabulary is empty (its placeholder would otherwise remain)', str(dels))


def c20_2(ctx):
    ctx.rule('C20.2', 'vocabulary reaches regex text only through re.escape', 4)
    h = ctx.repo.func(HELPER)
    lst = h.call_params[2].arg
    joins = [c for c in ast.walk(h.node) if isinstance(c, ast.Call) and isinstance(c.func, ast.Attribute) and c.func.attr == 'join']
    ok = len(joins) == 1
    detail = '; '.join(unparse(j) for j in joins)
    if ok:
        from engine.helpers import seq_view
        raw = joins[0].args[0]
        a = deref(ctx, h, raw, joins[0])
        elt = tgt = src = None
        conds = []
        if isinstance(a, (ast.ListComp, ast.GeneratorExp)) and len(a.generators) == 1:
            elt, tgt, src, conds = a.elt, a.generators[0].target, a.generators[0].iter, a.generators[0].ifs
        elif isinstance(a, ast.Call) and unparse(a.func) in ('map', 'list') and unparse(a.func) == 'map' and len(a.args) == 2 and unparse(a.args[0]) == 're.escape':
            x = ast.Name(id='x', ctx=ast.Load())
            elt, tgt, src = ast.Call(func=a.args[0], args=[x], keywords=[]), x, a.args[1]
        elif isinstance(raw, ast.Name):
            sv = seq_view(ctx, h, raw.id)
            if sv is not None:
                elt, tgt, src, conds = sv.elt, sv.target, sv.iter, sv.conds
        ok = elt is not None and isinstance(elt, ast.Call) and unparse(elt.func) == 're.escape' and len(elt.args) == 1 \
            and unparse(elt.args[0]) == unparse(tgt) and not conds
        sd = None
        if ok:
            sd = deref(ctx, h, src, joins[0])
            ok = unparse(sd) == lst or (isinstance(sd, ast.Call) and unparse(sd.func) == 'sorted' and unparse(sd.args[0]) == lst)
        detail = f'joined: {unparse(a)}'
        # the order of the alternatives: a name that continues another one after a word boundary (`ld.x` / `ld`) must come first
        longest = False
        if isinstance(sd, ast.Call) and unparse(sd.func) == 'sorted' and unparse(sd.args[0]) == lst:
            key = next((k.value for k in sd.keywords if k.arg == 'key'), None)
            rev = next((k.value for k in sd.keywords if k.arg == 'reverse'), None)
            if isinstance(key, ast.Lambda) and len(key.args.args) == 1:
                x = key.args.args[0].arg
                b = key.body
                first = b.elts[0] if isinstance(b, ast.Tuple) and b.elts else b
                longest = (unparse(first) == f'-len({x})' and rev is None) or \
                          (unparse(first) == f'len({x})' and isinstance(rev, ast.Constant) and rev.value is True and not isinstance(b, ast.Tuple))
            elif key is not None and unparse(key) == 'len' and isinstance(rev, ast.Constant) and rev.value is True:
                longest = True
        ctx.check(longest, 'escape:longer-names-first', h.site(joins[0]),
                  'the alternatives are ordered longest name first (an alternation takes the first alternative that matches, and `.` is a word boundary)',
                  f'order of the alternatives: {unparse(sd) if sd is not None else "?"} - with `ld` before `ld.x` only the `ld` of `ld.x` is classified, '
                  f'and for the sets of the model the order follows the hash seed')
    ctx.check(ok, 'escape:_replace_token_with_regex_list', h.site(joins[0]) if joins else h.site(),
              'every name of the list is passed through re.escape before it is joined into the pattern', detail + ' - a name such as ma.hl also classifies maxhl')
    rr = returns(h)
    ok = len(rr) == 1 and isinstance(rr[0].value, ast.Call) and unparse(rr[0].value.func) == f'{h.call_params[0].arg}.replace' and unparse(rr[0].value.args[0]) == h.call_params[1].arg
    ctx.check(ok, 'escape:helper-substitutes-token', h.site(), 'the helper replaces the given token in the given template text', '; '.join(unparse(r) for r in rr))
    from engine.helpers import fmt_view
    # the text that replaces the token: \b <the joined alternation> \b
    rs = []
    ok = len(rr) == 1 and isinstance(rr[0].value, ast.Call) and len(rr[0].value.args) == 2 and len(joins) == 1
    if ok:
        rep = deref(ctx, h, rr[0].value.args[1], rr[0])
        rs = [rep]
        fv = fmt_view(rep) or []
        ok = len(fv) == 3 and fv[0] == ('lit', '\\b') and fv[2] == ('lit', '\\b') and fv[1][0] == 'field' and fv[1][2] == ''
        if ok:
            mid = deref(ctx, h, fv[1][1], rr[0])
            ok = mid is joins[0] and unparse(mid.func) == "'\\\\b|\\\\b'.join"
    ctx.check(ok, 'escape:word-bounded-alternation', h.site(), 'the names become a \\b-bounded alternation (whole identifiers only)', '; '.join(unparse(r) for r in rs))
    for q in (VS, SB):
        fn = ctx.repo.func(q)
        for n in ast.walk(fn.node):
            if isinstance(n, ast.Assign) and isinstance(n.targets[0], ast.Name) and n.targets[0].id in ('directives_regex', 'datatypes_regex'):
                v = n.value
                ok = isinstance(v, ast.Call) and unparse(v.func) == "'|'.join" and isinstance(v.args[0], (ast.ListComp, ast.GeneratorExp))
                if ok:
                    fv = fmt_view(v.args[0].elt) or []
                    ok = len(fv) == 2 and fv[0] == ('lit', '\\.') and fv[1][0] == 'field' and fv[1][2] == '' and unparse(fv[1][1]) == unparse(v.args[0].generators[0].target)
                ctx.check(ok, f'escape:dot-prefix:{"vscode" if q == VS else "sublime"}:{n.targets[0].id}', fn.site(n), 'directive keywords are prefixed with an escaped dot', unparse(v))


_SOURCES = {
    '##MACROS##': 'self.model.macro_mnemonics', '##OPERATIONS##': 'self.model.operation_mnemonics', '##REGISTERS##': 'self.model.registers',
    '##COMPILERCONSTANTS##': 'self.model.predefined_labels',
}
_SET_SOURCES = {'##DIRECTIVES##': 'COMPILER_DIRECTIVES_SET', '##DATATYPES##': 'BYTECODE_DIRECTIVES_SET', '##PREPROCESSOR##': 'PREPROCESSOR_DIRECTIVES_SET',
                '##EXPRESSION_FUNCTIONS##': 'EXPRESSION_FUNCTIONS_SET'}


def c20_3(ctx):
    ctx.rule('C20.3', 'each placeholder is fed from its model source in both generators; the model is not mutated', 16)
    helper = ctx.repo.func(HELPER)
    for q in (VS, SB):
        fn = ctx.repo.func(q)
        gen = 'vscode' if q == VS else 'sublime'
        res = resolver(ctx, fn, inline=False)
        for c in [c for c in ast.walk(fn.node) if isinstance(c, ast.Call) and unparse(c.func) == 'self._replace_token_with_regex_list']:
            b = bind_args(c, helper)
            tok = b['token'].value if isinstance(b.get('token'), ast.Constant) else None
            src = deref(ctx, fn, b.get('regex_list'), c)
            s = unparse(src)
            if tok == '##INSTRUCTIONS##':
                # sublime uses the same token twice: the instruction rule (native mnemonics) and the end-of-instruction rule (all operations)
                tmpl = unparse(b.get('template_str'))
                want = 'self.model.operation_mnemonics' if 'pop_instruction_end' in tmpl else 'self.model.instruction_mnemonics'
            else:
                want = _SOURCES.get(tok)
            key = f'source:{gen}:{tok}:{c.lineno - fn.node.lineno}'
            if want is None:
                ctx.err(key, fn.site(c), 'token is in the reviewed table', f'{tok}')
                continue
            direct = unparse(b.get('regex_list')) == want or s == want
            ctx.check(direct, f'source:{gen}:{tok}:{want.split(".")[-1]}', fn.site(c), f'{tok} lists {want.split(".")[-1]}',
                      f'fed from {unparse(b.get("regex_list"))}' + (f' = {s}' if s != unparse(b.get('regex_list')) else ''))
            tt = b.get('template_str')
            stmt = next((n for n in walk_no_nested(fn.node) if isinstance(n, ast.Assign) and n.value is c), None)
            ok = stmt is not None and unparse(stmt.targets[0]) == unparse(tt)
            ctx.check(ok, f'source:{gen}:{tok}:written-back:{c.lineno - fn.node.lineno}', fn.site(c), 'the substituted text is written back where the template text was read', f'{unparse(stmt.targets[0]) if stmt else None} <- {unparse(tt)}')
        for tok, const in _SET_SOURCES.items():
            sites = [c for c in ast.walk(fn.node) if isinstance(c, ast.Call) and isinstance(c.func, ast.Attribute) and c.func.attr == 'replace' and c.args
                     and isinstance(c.args[0], ast.Constant) and c.args[0].value == tok]
            ok = len(sites) == 1
            detail = f'{len(sites)} sites'
            if ok:
                v = deref(ctx, fn, sites[0].args[1], sites[0])
                ok = isinstance(v, ast.Call) and unparse(v.func) == "'|'.join" and const in unparse(v.args[0])
                detail = unparse(v)
            ctx.check(ok, f'source:{gen}:{tok}', fn.site(sites[0]) if sites else fn.site(), f'{tok} lists {const}', detail)
        # no mutation of the model's sets / lists
        for n in ast.walk(fn.node):
            tgt = None
            if isinstance(n, ast.AugAssign) and isinstance(n.target, ast.Name):
                d = None
                for a in ast.walk(fn.node):
                    if isinstance(a, ast.Assign) and unparse(a.targets[0]) == n.target.id and 'self.model.' in unparse(a.value) and not isinstance(a.value, ast.Call):
                        d = a
                if d is not None:
                    tgt = f'{unparse(n)} (alias of {unparse(d.value)})'
            elif isinstance(n, ast.Call) and isinstance(n.func, ast.Attribute) and n.func.attr in ('add', 'update', 'append', 'extend', 'remove', 'discard', 'clear', 'sort') \
                    and 'self.model.' in unparse(n.func.value):
                tgt = unparse(n)
            if tgt:
                ctx.refute(f'source:{gen}:model-mutated', fn.site(n), 'a generator only reads the model\'s vocabulary', f'{tgt}: later placeholders see the changed set')
    m = 'bespokeasm.assembler.model.AssemblerModel.'
    for prop, want in (('instruction_mnemonics', 'self._instructions.instruction_mnemonics'), ('macro_mnemonics', 'self._instructions.macro_mnemonics'), ('registers', 'self._registers')):
        f = ctx.repo.func(m + prop)
        rr = returns(f)
        ctx.check(len(rr) == 1 and unparse(rr[0].value) == want, f'source:model:{prop}', f.site(), f'model.{prop} is {want}', '; '.join(unparse(r) for r in rr))
    iset = ctx.repo.func('bespokeasm.assembler.model.instruction_set.InstructionSet.__init__')
    adds = {unparse(c.func.value): unparse(c.args[0]) for c in ast.walk(iset.node) if isinstance(c, ast.Call) and isinstance(c.func, ast.Attribute) and c.func.attr == 'add'}
    ok = adds == {'self._instruction_mnemonics': 'mnemonic', 'self._macro_mnemonics': 'macro.mnemonic'}
    ctx.check(ok, 'source:model:sets-filled', iset.site(), 'instruction names go to the instruction set, macro names to the macro set', str(adds))
    pl = ctx.repo.func(m + 'predefined_labels')
    iters = [(l.target, l.iter) for l in walk_no_nested(pl.node) if isinstance(l, ast.For)] \
        + [(g_.target, g_.iter) for c_ in ast.walk(pl.node) if isinstance(c_, (ast.ListComp, ast.GeneratorExp)) for g_ in c_.generators]
    # `for source in (a, b, c): for item in source` reads a, b and c
    groups = {unparse(t): [unparse(e) for e in it.elts] for t, it in iters if isinstance(it, (ast.Tuple, ast.List)) and isinstance(t, ast.Name)}
    srcs = []
    for t, it in iters:
        if isinstance(it, (ast.Tuple, ast.List)) and isinstance(t, ast.Name) and any(unparse(i2) == t.id for _, i2 in iters):
            continue
        srcs.extend(groups.get(unparse(it), [unparse(it)]))
    srcs = sorted(srcs)
    ctx.check(srcs == ['self.predefined_constants', 'self.predefined_data_blocks', 'self.predefined_memory_zones'], 'source:model:predefined-labels', pl.site(),
              'predefined names are the predefined constants, data blocks and memory zones', str(srcs))


def c20_4(ctx):
    ctx.rule('C20.4', 'structured outputs are produced by their serialisers; textual outputs receive only reviewed text', 7)
    vs = ctx.repo.func(VS)
    dumps = [c for c in ast.walk(vs.node) if isinstance(c, ast.Call) and unparse(c.func) == 'json.dump']
    ctx.check(sorted(unparse(c.args[0]) for c in dumps) == ['grammar_json', 'package_json'], 'wellformed:vscode:json.dump', vs.site(), 'package.json and the grammar are written by json.dump',
              str([unparse(c.args[0]) for c in dumps]))
    writes = [c for c in ast.walk(vs.node) if isinstance(c, ast.Call) and isinstance(c.func, ast.Attribute) and c.func.attr == 'write']
    ok = len(writes) == 1
    if ok:
        d = deref(ctx, vs, writes[0].args[0], writes[0])
        ok = isinstance(d, ast.Call) and isinstance(d.func, ast.Attribute) and d.func.attr == 'replace' and unparse(d.args[0]) == "'##LANGUAGE_ID##'" \
            and unparse(d.args[1]) in ('xml_escape(self.language_id)', 'escape(self.language_id)', 'xml.sax.saxutils.escape(self.language_id)', 'saxutils.escape(self.language_id)')
        inner = deref(ctx, vs, d.func.value, d) if ok else None
        ok = ok and isinstance(inner, ast.Call) and unparse(inner.func).endswith('.read')
    ctx.check(ok, 'wellformed:vscode:theme-text', vs.site(writes[0]) if writes else vs.site(), 'the colour theme (an XML property list) is the template with only the XML-escaped language id substituted',
              '; '.join(unparse(w) for w in writes))
    sb = ctx.repo.func(SB)
    yd = [c for c in ast.walk(sb.node) if isinstance(c, ast.Call) and unparse(c.func) == 'yaml.dump']
    ctx.check(len(yd) == 1 and unparse(yd[0].args[0]) == 'syntax_dict', 'wellformed:sublime:yaml.dump', sb.site(), 'the syntax definition is written by yaml.dump', '; '.join(unparse(c) for c in yd))
    writes = [c for c in ast.walk(sb.node) if isinstance(c, ast.Call) and isinstance(c.func, ast.Attribute) and c.func.attr == 'write']
    ok = len(writes) == 1
    detail = '; '.join(unparse(w) for w in writes)
    if ok:
        from engine.helpers import fmt_view
        d = deref(ctx, sb, writes[0].args[0], writes[0])
        fv = fmt_view(d) or []
        ok = len(fv) == 2 and fv[0] == ('lit', '%YAML 1.2\n---\n') and fv[1][0] == 'field' and fv[1][2] == ''
        if ok:
            r = deref(ctx, sb, fv[1][1], writes[0])
            ok = isinstance(r, ast.Call) and unparse(r.func).endswith('.read')
        detail = unparse(d)
    ctx.check(ok, 'wellformed:sublime:yaml-header', sb.site(writes[0]) if writes else sb.site(),
              'the only text written by hand is the constant `%YAML 1.2` header in front of the dumped YAML', detail)
    gen = ctx.repo.func(CG + '.sublime.SublimeConfigGenerator.generate')
    z = [c for c in ast.walk(gen.node) if isinstance(c, ast.Call) and unparse(c.func) == 'ZipFile']
    ctx.check(len(z) == 1, 'wellformed:sublime:zip', gen.site(), 'the package is written by ZipFile', f'{len(z)}')
    # every output file is created afresh: a package regenerated after the ISA changed must not keep members of the old one
    n_open = 0
    for fn in ctx.repo.all_functions():
        if not fn.module.name.startswith('bespokeasm.configgen'):
            continue
        for c in ast.walk(fn.node):
            if not isinstance(c, ast.Call):
                continue
            t = unparse(c.func)
            if t in ('ZipFile', 'zipfile.ZipFile', 'open'):
                mode = c.args[1] if len(c.args) > 1 else next((k.value for k in c.keywords if k.arg == 'mode'), None)
                mv = mode.value if isinstance(mode, ast.Constant) else ('r' if mode is None else None)
                if mv is not None and 'r' in mv and '+' not in mv:
                    continue
                n_open += 1
                ctx.check(mv is not None and mv.rstrip('bt') in ('w', 'x'), f'wellformed:fresh-output:{ctx.short(fn)}:{t}', fn.site(c),
                          'an output file is opened truncating ("w"): nothing of an earlier generation survives in it',
                          f'opened with mode {unparse(mode) if mode is not None else None}')
    if n_open < 4:
        ctx.err('wellformed:fresh-output', '-', 'at least 4 output files opened by the generators', f'{n_open}')
    ext = [n for n in ast.walk(sb.node) if isinstance(n, ast.Assign) and unparse(n.targets[0]) == "syntax_dict['file_extensions']"]
    ctx.check(len(ext) == 1 and unparse(ext[0].value) == '[self.code_extension]', 'wellformed:sublime:file-extension', sb.site(), 'file_extensions is the configured extension', '; '.join(unparse(e) for e in ext))
    pj = {unparse(n.targets[0]): unparse(n.value) for n in ast.walk(vs.node) if isinstance(n, ast.Assign) and unparse(n.targets[0]).startswith('package_json[')}
    ok = pj.get("package_json['contributes']['languages'][0]['id']") == 'self.language_id' and pj.get("package_json['contributes']['grammars'][0]['language']") == 'self.language_id' \
        and pj.get("package_json['contributes']['grammars'][0]['scopeName']") == 'scope_name' and pj.get("package_json['contributes']['languages'][0]['extensions']") == "['.' + self.code_extension]"
    ctx.check(ok, 'wellformed:vscode:package-wiring', vs.site(), 'language id, scope name and file extension are wired consistently', '')
    gs = [n for n in ast.walk(vs.node) if isinstance(n, ast.Assign) and unparse(n.targets[0]) == "grammar_json['scopeName']"]
    ctx.check(len(gs) == 1 and unparse(gs[0].value) == 'scope_name', 'wellformed:vscode:scope', vs.site(), 'the grammar declares the same scope name as the package', '')


def c20_case(ctx):
    ctx.rule('C20.5', 'mnemonics, macro names and registers are matched without regard to letter case, as the assembler matches them', 6)
    import json
    import os
    base = os.path.join(ctx.repo.src, 'bespokeasm', 'configgen')
    tokens = ('##INSTRUCTIONS##', '##MACROS##', '##REGISTERS##', '##OPERATIONS##')
    n = 0

    def strings(x, path=''):
        if isinstance(x, dict):
            for k, v in x.items():
                yield from strings(v, f'{path}/{k}')
        elif isinstance(x, list):
            for i, v in enumerate(x):
                yield from strings(v, f'{path}[{i}]')
        elif isinstance(x, str):
            yield path, x
    for rel, loader in (('vscode/resources/tmGrammar.json', 'json'), ('sublime/resources/sublime-syntax.yaml', 'yaml')):
        pth = os.path.join(base, rel)
        if not os.path.exists(pth):
            ctx.err(f'case:{rel}', '-', 'template exists', pth)
            continue
        text = open(pth).read()
        if loader == 'json':
            data = json.loads(text)
        else:
            import yaml
            data = yaml.safe_load(text)
        for where, val in strings(data):
            hit = [t for t in tokens if t in val]
            if not hit:
                continue
            n += 1
            ctx.check(val.lstrip().startswith('(?i)'), f'case:{rel.split("/")[0]}:{where.split("/")[-2] if "/" in where else where}:{hit[0]}:{n}',
                      f'src/bespokeasm/configgen/{rel}:1', f'the pattern holding {", ".join(hit)} is case-insensitive (`(?i)`), like the assembler\'s own matching',
                      f'{val[:70]} is case-sensitive: `LDA` / `Push2` are not classified although they assemble')
    if n < 6:
        ctx.err('case:inventory', '-', 'at least 6 vocabulary patterns in the two templates', f'{n}')
    # keyword alternations built from sets (any order) must not let a keyword that is a prefix of another win: they end at a word boundary
    for rel, loader in (('vscode/resources/tmGrammar.json', 'json'), ('sublime/resources/sublime-syntax.yaml', 'yaml')):
        text = open(os.path.join(base, rel)).read()
        data = json.loads(text) if loader == 'json' else __import__('yaml').safe_load(text)
        for where, val in strings(data):
            for tok in ('##PREPROCESSOR##', '##DIRECTIVES##', '##DATATYPES##', '##EXPRESSION_FUNCTIONS##', '##COMPILERCONSTANTS##'):
                if tok in val:
                    after = val.split(tok, 1)[1]
                    ctx.check(after.startswith(')\\b'), f'boundary:{rel.split("/")[0]}:{tok}', f'src/bespokeasm/configgen/{rel}:1',
                              f'the alternation substituted for {tok} is followed by a word boundary (`ifdef` is not `if` + `def`, whatever the order of the alternatives)',
                              f'{val[:80]}')


def c20_state(ctx):
    """A generator computes each expansion from the model every time: nothing is cached between placeholders, nothing in the model is changed."""
    from rules.shared import state_discipline
    state_discipline(ctx, ('bespokeasm.configgen',))
    ctx.rule('C20.6', 'collections obtained from the model are never modified', 1)
    n = 0
    for q, f in sorted(ctx.repo.functions.items()):
        if not f.module.name.startswith('bespokeasm.configgen'):
            continue
        aliases = set()
        for a in ast.walk(f.node):
            if isinstance(a, ast.Assign) and len(a.targets) == 1 and isinstance(a.targets[0], ast.Name) and unparse(a.value).startswith(('self.model.', 'self._model.')) \
                    and not isinstance(a.value, ast.Call):
                aliases.add(a.targets[0].id)
        for c in ast.walk(f.node):
            tgt = None
            if isinstance(c, ast.Call) and isinstance(c.func, ast.Attribute) and c.func.attr in ('add', 'update', 'remove', 'discard', 'pop', 'clear', 'append', 'extend', 'sort', 'insert',
                                                                                                'difference_update', 'intersection_update', 'symmetric_difference_update'):
                tgt = c.func.value
            elif isinstance(c, ast.AugAssign):
                tgt = c.target
            if tgt is None:
                continue
            t = unparse(tgt)
            if t in aliases or t.startswith(('self.model.', 'self._model.')):
                n += 1
                ctx.refute(f'model:mutated:{ctx.short(f)}:{t}', f.site(c), 'sets and lists obtained from the model are read only',
                           f'{unparse(c)[:80]} changes {t}, which is the model\'s own collection: every later placeholder sees the changed vocabulary')
    ctx.ok('model:scanned', '-', 'generator functions were scanned for changes to model collections', f'{n} found')
    from rules.shared import no_getter_alias_mutation
    no_getter_alias_mutation(ctx, ('bespokeasm.configgen', 'bespokeasm.assembler.model'), 'model')


RULES = [c20_1, c20_2, c20_3, c20_4, c20_case, c20_state]

_C = 'configgen/__init__.py'
_V = 'configgen/vscode/__init__.py'
_S = 'configgen/sublime/__init__.py'
MUTANTS = [
    V('c20-preprocessor-no-boundary', 'configgen/sublime/resources/sublime-syntax.yaml', "        - match: (?<=\\#)(?:##PREPROCESSOR##)\\b", "        - match: (?<=\\#)(?:##PREPROCESSOR##)", 'C20.5'),
    V('c20-macros-case-sensitive', 'configgen/vscode/resources/tmGrammar.json', '"begin": "(?i)(##MACROS##)",', '"begin": "(##MACROS##)",', 'C20.5'),
    V('c20-model-set-updated-via-alias', 'configgen/vscode/__init__.py', "        grammar_json['scopeName'] = scope_name\n", "        grammar_json['scopeName'] = scope_name\n        every = self.model.instruction_mnemonics\n        every.update(self.model.macro_mnemonics)\n", 'C20.6'),
    V('c20-zip-append', _S, "        archive_file = ZipFile(archive_fp, 'w')", "        archive_file = ZipFile(archive_fp, 'a')", 'C20.4'),
    V('c20-discarded-replace', _V, "        color_theme_xml = color_theme_xml.replace('##LANGUAGE_ID##', xml_escape(self.language_id))", "        color_theme_xml.replace('##LANGUAGE_ID##', xml_escape(self.language_id))", 'C20.1'),
    V('c20-theme-unescaped', _V, "        color_theme_xml = color_theme_xml.replace('##LANGUAGE_ID##', xml_escape(self.language_id))", "        color_theme_xml = color_theme_xml.replace('##LANGUAGE_ID##', self.language_id)", 'C20.4'),
    V('c20-arrival-order', _C, "longest_first = sorted(regex_list, key=lambda name: (-len(name), name))", "longest_first = list(regex_list)", 'C20.2'),
    V('c20-no-escape', _C, "join([re.escape(r) for r in longest_first])", "join(longest_first)", 'C20.2'),
    V('c20-escape-wrong-var', _C, "        regex_str = '\\\\b' + '\\\\b|\\\\b'.join([re.escape(r) for r in longest_first]) + '\\\\b'", "        escaped = [re.escape(r) for r in longest_first]\n        ordered = sorted(regex_list, key=len, reverse=True)\n        regex_str = '\\\\b' + '\\\\b|\\\\b'.join(ordered if len(ordered) > 1 else escaped) + '\\\\b'", 'C20.2'),
    V('c20-macros-from-operations', _V, "                '##MACROS##',\n                self.model.macro_mnemonics", "                '##MACROS##',\n                self.model.operation_mnemonics", 'C20.3'),
    V('c20-forgot-registers-token', _S, '''            syntax_dict['contexts']['registers'][0]['match'] = self._replace_token_with_regex_list(
                syntax_dict['contexts']['registers'][0]['match'],
                '##REGISTERS##',
                self.model.registers
            )''', '''            pass''', 'C20.1'),
    V('c20-grammar-by-format', _V, "            json.dump(grammar_json, f, ensure_ascii=False, indent=4)", "            f.write(str(grammar_json).replace(\"'\", '\"'))", 'C20.4'),
    V('c20-model-set-mutated', _V, "        grammar_json['scopeName'] = scope_name\n", "        grammar_json['scopeName'] = scope_name\n        operation_mnemonics = self.model.instruction_mnemonics\n        operation_mnemonics |= self.model.macro_mnemonics\n", 'C20.3'),
    V('c20-yaml-header-name', _S, "        updated_file_txt = '%YAML 1.2\\n---\\n' + file_txt", "        updated_file_txt = f'%YAML 1.2\\n---\\nname: {self.model.description}\\n' + file_txt", 'C20.4'),
    V('c20-keep-empty-registers', _V, "            # remove the registers syntax\n            del grammar_json['repository']['registers']", "            # keep the registers syntax\n            pass", 'C20.1'),
    V('c20-directives-unescaped-dot', _S, "        directives_regex = '|'.join(['\\\\.'+d for d in COMPILER_DIRECTIVES_SET])", "        directives_regex = '|'.join(['.'+d for d in COMPILER_DIRECTIVES_SET])", 'C20.2'),
    V('c20-datatypes-from-compiler-set', _V, "datatypes_regex = '|'.join(['\\\\.'+d for d in BYTECODE_DIRECTIVES_SET])", "datatypes_regex = '|'.join(['\\\\.'+d for d in COMPILER_DIRECTIVES_SET])", 'C20.3'),
    V('c20-result-written-elsewhere', _V, "            grammar_json['repository']['registers']['match'] = self._replace_token_with_regex_list(\n                grammar_json['repository']['registers']['match'],", "            grammar_json['repository']['registers']['name'] = self._replace_token_with_regex_list(\n                grammar_json['repository']['registers']['match'],", 'C20.3'),
]
TWINS = [
    V('c20-t-genexp', _C, "join([re.escape(r) for r in longest_first])", "join(re.escape(name) for name in longest_first)"),
]
