"""C01 - instruction encoding is exactly the bit layout the ISA definition prescribes."""
import ast
import itertools

from engine.index import AnalysisError, ClassInfo
from engine.helpers import (resolver, facts_at, filter_facts_at, lit_cmp, describe_facts, unparse, walk_no_nested, returns,
                            deref, body_only_aborts, calls_to, reaching_def, self_attr_stores, is_abort_stmt)
from engine.lin import clause_implies, to_lin
from engine.fold import EnumConst
from engine.types import CallGraph, bind_args
from engine.seq import SeqInterp, SeqUnsupported, AbsOperand
from engine.selftest import V

MOS = 'bespokeasm.assembler.model.operand_parser.MatchedOperandSet'
IG = 'bespokeasm.assembler.bytecode.generator.instruction.InstructionBytecodeGenerator'
ASM = 'bespokeasm.assembler.bytecode.assembled.AssembledInstruction'
PARTS = 'bespokeasm.assembler.bytecode.parts'
PB = 'bespokeasm.assembler.bytecode.packed_bits.PackedBits'

EXPLANATION = (
    'Static rules over the byte code generator, operand types, parts and the packer. Decided: C01.1 the field order '
    'produced by MatchedOperandSet.generate_bytecode, computed by abstract interpretation over sequences of named '
    'segments for every flag/position combination of three abstract operands, equals prefix codes, opcode, suffix codes, '
    'opcode suffix, arguments, with the reverse options reversing exactly the group they name (flag provenance down to the '
    'configuration keys); C01.2 no configured field is dropped on any returning path of the variant generator; C01.3 every '
    'ByteCodePart construction site takes (size, alignment, byte order) from the matching accessor family and the accessors '
    'read the matching configuration keys; C01.4 get_bytes packs each part\'s own (value, size, alignment, byte order) in '
    'list order and has the size-consistency gate; the packer honours the alignment flag; C01.5 nothing reachable from '
    'statement assembly reads ambient input or mutates model state that later statements see; C01.6 the reserved size adds '
    'each part\'s size, pads byte-aligned parts to a byte boundary and rounds up to whole bytes; C01.7 composite operand '
    'codes are packed field by field; C01.9 the packer\'s cursor discipline by interval / typestate abstract interpretation of '
    'append_bits: every store ORs one 0/1 value at the cursor (in [0, 7]) into the last byte, no position skipped or written twice, '
    'no overwrite, a new zero byte exactly when the current one is full or the field is aligned, invariant restored on every exit. '
    'Not decided: which bits of the value go out in which order (bit_start, little-endian byte selection, to_bytes) - a mutant '
    'confined to that arithmetic is invisible here.'
)
ASSUMPTIONS = [
    'intra-group order of prefix codes (reverse operand order, because of insert(0)) has no offline documentation: today\'s tree is the reference',
    'abstract operands: three operands with code and argument in every prefix/suffix combination, plus operands lacking a code or an argument',
    'operand codes are packed big-endian, unaligned (sibling-unanimous today)',
]


# ------------------------------------------------------------------------------------------------- C01.1

def _spec(ops, rev_bc, rev_arg, has_suffix):
    pre = [('code', o.index) for o in ops if o.has_code and o.position == 'PREFIX']
    pre.reverse()
    # (a code part without a configured position - built by the operand from its parts - takes the default position, the suffix)
    suf = [('code', o.index) for o in ops if o.has_code and o.position != 'PREFIX']
    if rev_bc:
        pre.reverse()
        suf.reverse()
    args = [('arg', o.index) for o in ops if o.has_arg]
    if rev_arg:
        args.reverse()
    return pre + ['OPCODE'] + suf + (['SUFFIX'] if has_suffix else []) + args


def c01_1(ctx):
    ctx.rule('C01.1', 'field order: prefix codes, opcode, suffix codes, opcode suffix, arguments; reverse options', 6)
    fn = ctx.repo.func(MOS + '.generate_bytecode')

    def fold_enum(e):
        v = ctx.fold.try_fold(e, fn.module, fn.cls)
        return v.name if isinstance(v, EnumConst) else None
    p_base, p_suf = fn.call_params[0].arg, fn.call_params[1].arg
    configs = []
    for pos in itertools.product(['PREFIX', 'SUFFIX'], repeat=3):
        configs.append([AbsOperand(i, pos[i], True, True) for i in range(3)])
    configs.append([AbsOperand(0, 'SUFFIX', True, False), AbsOperand(1, None, False, True), AbsOperand(2, 'PREFIX', True, True), AbsOperand(3, 'SUFFIX', True, True)])
    configs.append([AbsOperand(0, 'PREFIX', True, True), AbsOperand(1, None, True, True), AbsOperand(2, 'SUFFIX', True, False)])
    configs.append([])
    n = 0
    failures = {}
    try:
        for ops in configs:
            for rev_bc, rev_arg, has_suf in itertools.product([False, True], repeat=3):
                interp = SeqInterp(fn.node, {'_operands': list(ops), '_reverse_arg_order': rev_arg, '_reverse_op_bytecode_order': rev_bc},
                                   {p_base: 'OPCODE', p_suf: 'SUFFIX' if has_suf else None}, fold_enum)
                got = interp.run()
                want = _spec(ops, rev_bc, rev_arg, has_suf)
                n += 1
                if got != want:
                    # attribute the failure to the clause it breaks
                    def grp(seq, kind):
                        return [x for x in seq if isinstance(x, tuple) and x[0] == kind]
                    key = 'order:groups'
                    if [x for x in got if not isinstance(x, tuple)] != [x for x in want if not isinstance(x, tuple)] or \
                            sorted(map(str, got)) != sorted(map(str, want)):
                        key = 'order:no-field-lost'
                    elif grp(got, 'arg') != grp(want, 'arg'):
                        key = 'order:reverse_argument_order'
                    elif grp(got, 'code') != grp(want, 'code') or got.index('OPCODE') != want.index('OPCODE'):
                        key = 'order:reverse_bytecode_order'
                    failures.setdefault(key, (ops, rev_bc, rev_arg, has_suf, got, want))
    except SeqUnsupported as e:
        ctx.err('order:abstract-interpretation', fn.site(), 'generate_bytecode is within the list-building subset', str(e))
        return
    desc = {
        'order:groups': 'the groups appear as prefix codes, opcode, suffix codes, opcode suffix, arguments',
        'order:no-field-lost': 'every operand code, the opcode, the opcode suffix and every argument appears exactly once',
        'order:reverse_bytecode_order': 'reverse_bytecode_order reverses exactly the operand-code groups (prefix and suffix), nothing else',
        'order:reverse_argument_order': 'reverse_argument_order reverses exactly the argument group',
    }
    for key, d in desc.items():
        if key in failures:
            ops, rb, ra, hs, got, want = failures[key]
            ctx.refute(key, fn.site(), d,
                       f'operand positions {[o.position for o in ops]}, reverse_bytecode_order={rb}, reverse_argument_order={ra}, '
                       f'opcode suffix={hs}: produces {got}, prescribed {want}',
                       witness={'positions': [o.position for o in ops], 'reverse_bytecode_order': rb, 'reverse_argument_order': ra})
        else:
            ctx.ok(key, fn.site(), d, f'{n} abstract configurations evaluated')
    # flag provenance
    init = ctx.repo.func(MOS + '.__init__')
    for attr, param in (('_operands', 'operands'), ('_reverse_arg_order', 'reverse_arg_order'), ('_reverse_op_bytecode_order', 'reverse_op_bytecode_order')):
        st = self_attr_stores(init.node, attr)
        ctx.check(len(st) == 1 and unparse(st[0][2]) in (param, f'list({param})', f'{param}[:]', f'{param}.copy()'), f'flags:ctor:{attr}', init.site(), f'self.{attr} <- {param}', '; '.join(unparse(s[0]) for s in st))
    n_sites = 0
    for e in ctx.cg.callers(init):
        b = bind_args(e.node, init)
        ra, rb = b.get('reverse_arg_order'), b.get('reverse_op_bytecode_order')
        n_sites += 1
        if isinstance(ra, ast.Constant) and isinstance(rb, ast.Constant):
            ok = ra.value is False and rb.value is False and unparse(b.get('operands')) == '[]'
            ctx.check(ok, f'flags:site:{ctx.short(e.caller)}:empty', e.caller.site(e.node), 'an operand-less match has nothing to reverse', unparse(e.node))
            continue
        ok = isinstance(ra, ast.Attribute) and ra.attr == 'reverse_argument_order' and isinstance(rb, ast.Attribute) and rb.attr == 'reverse_bytecode_order' \
            and unparse(ra.value) == unparse(rb.value)
        ctx.check(ok, f'flags:site:{ctx.short(e.caller)}', e.caller.site(e.node),
                  'the match receives reverse_argument_order / reverse_bytecode_order of the configuration it matched, in that order',
                  f'reverse_arg_order={unparse(ra)}, reverse_op_bytecode_order={unparse(rb)}')
    for cq in ('bespokeasm.assembler.model.operand_parser.OperandSetsModel', 'bespokeasm.assembler.model.operand_parser.SpecificOperandsModel.SpecificOperandConfig'):
        c = ctx.repo.cls(cq)
        for prop in ('reverse_argument_order', 'reverse_bytecode_order'):
            f = c.methods.get(prop)
            rr = returns(f) if f else []
            ok = len(rr) == 1 and unparse(rr[0].value) == f"self._config.get('{prop}', False)"
            ctx.check(ok, f'flags:key:{c.name}.{prop}', f.site() if f else '-', f'{prop} reads the configuration key of the same name (default off)',
                      '; '.join(unparse(r) for r in rr))
    pos = ctx.repo.func('bespokeasm.assembler.model.operand.Operand.bytecode_position')
    table = {}
    for n_ in walk_no_nested(pos.node):
        if isinstance(n_, ast.If) and isinstance(n_.test, ast.Compare) and isinstance(n_.test.comparators[0], ast.Constant):
            r = next((s for s in n_.body if isinstance(s, ast.Return)), None)
            if r is not None:
                table[n_.test.comparators[0].value] = unparse(r.value).split('.')[-1]
    dflt = [c for c in ast.walk(pos.node) if isinstance(c, ast.Call) and isinstance(c.func, ast.Attribute) and c.func.attr == 'get' and c.args and unparse(c.args[0]) == "'position'"]
    ok = table == {'suffix': 'SUFFIX', 'prefix': 'PREFIX'} and len(dflt) == 1 and unparse(dflt[0].args[1]) == "'suffix'"
    ctx.check(ok, 'flags:position-key', pos.site(), "position 'prefix'/'suffix' (default suffix) selects the group of an operand code", f'{table}')


# ------------------------------------------------------------------------------------------------- C01.2

def c01_2(ctx):
    ctx.rule('C01.2', 'no configured field is dropped by the variant generator', 3)
    fn = ctx.repo.func(IG + '.generate_variant_bytecode_parts')
    res = resolver(ctx, fn, inline=False)
    gen = [c for c in ast.walk(fn.node) if isinstance(c, ast.Call) and isinstance(c.func, ast.Attribute) and c.func.attr == 'generate_bytecode']
    tgt = ctx.repo.func(MOS + '.generate_bytecode')
    for c in gen:
        b = bind_args(c, tgt)
        ctx.check(unparse(b.get('base_bytecode')) == 'base_bytecode' and unparse(b.get('base_bytecode_suffix')) == 'base_bytecode_suffix',
                  'fields:operands-path', fn.site(c), 'opcode and opcode suffix are both handed to the field ordering, in that order', unparse(c))
    if not gen:
        ctx.refute('fields:operands-path', fn.site(), 'matched operands generate the field list', 'no generate_bytecode call')
    # definitions of the returned part list
    rets = [r for r in returns(fn) if isinstance(r.value, ast.Call) and unparse(r.value.func) == 'AssembledInstruction']
    if not rets:
        raise AnalysisError('generate_variant_bytecode_parts no longer returns AssembledInstruction(...)')
    mc = unparse(rets[0].value.args[1])
    lits = [n for n in walk_no_nested(fn.node) if isinstance(n, ast.Assign) and unparse(n.targets[0]) == mc and isinstance(n.value, ast.List)]
    for n in lits:
        has_base = 'base_bytecode' in [unparse(x) for x in n.value.elts]
        has_suffix_inline = 'base_bytecode_suffix' in [unparse(x) for x in n.value.elts]
        g = ctx.cfg(fn)
        app = [c for c in ast.walk(fn.node) if isinstance(c, ast.Call) and unparse(c.func) == f'{mc}.append' and unparse(c.args[0]) == 'base_bytecode_suffix']
        ok_suffix = has_suffix_inline
        for a in app:
            cl = facts_at(ctx, fn, a, res)
            fcl = filter_facts_at(ctx, fn, a, res)
            extra = [l for c_ in fcl for l in c_ if l != ('isnone', 'base_bytecode_suffix', False)]
            same_path = g.reaches(g.node_of(n), g.node_of(a))
            own = [l for c_ in facts_at(ctx, fn, n, res) for l in c_]
            extra = [l for l in extra if l not in own]
            if same_path and clause_implies(cl, ('isnone', 'base_bytecode_suffix', False)) and not extra:
                ok_suffix = True
        ctx.check(has_base, 'fields:operandless-path:opcode', fn.site(n), 'the operand-less path emits the opcode', unparse(n))
        ctx.check(ok_suffix, 'fields:operandless-path:opcode-suffix', fn.site(n),
                  'the operand-less path also emits a configured opcode suffix',
                  f'{unparse(n)} and no `{mc}.append(base_bytecode_suffix)` on that path: a variant without operands loses its bytecode suffix')
    # opcode / suffix parts are built from the variant's own values
    for var, val, size in (('base_bytecode', 'variant.base_bytecode_value', 'variant.base_bytecode_size'),
                           ('base_bytecode_suffix', 'variant.suffix_bytecode_value', 'variant.suffix_bytecode_size')):
        ds = [n for n in walk_no_nested(fn.node) if isinstance(n, ast.Assign) and unparse(n.targets[0]) == var and isinstance(n.value, ast.Call)]
        ok = len(ds) == 1 and [unparse(a) for a in ds[0].value.args[:2]] == [val, size]
        ctx.check(ok, f'fields:{var}:value', fn.site(ds[0]) if ds else fn.site(), f'{var} is built from {val} / {size}', '; '.join(unparse(d) for d in ds))
    sfx = [n for n in walk_no_nested(fn.node) if isinstance(n, ast.Assign) and unparse(n.targets[0]) == 'base_bytecode_suffix' and isinstance(n.value, ast.Call)]
    if sfx:
        cl = facts_at(ctx, fn, sfx[0], res)
        ok = any(len(c) == 1 and next(iter(c))[0] == 'truthy' and 'has_bytecode_suffix' in next(iter(c))[1] and next(iter(c))[-1] for c in cl)
        ctx.check(ok, 'fields:suffix-when-configured', fn.site(sfx[0]), 'an opcode suffix part exists iff the variant configures one', describe_facts(cl))


# ------------------------------------------------------------------------------------------------- C01.3

_FAMILY = {
    'argument': ('argument_size', 'argument_byte_align', 'argument_endian'),
    'offset': ('offset_size', 'offset_byte_align', 'offset_endian'),
}


def _part_classes(ctx):
    base = ctx.repo.cls(PARTS + '.ByteCodePart')
    return {c.qualname: c for c in [base] + base.all_subclasses()}


def c01_3(ctx):
    ctx.rule('C01.3', 'field geometry at every ByteCodePart construction site comes from the matching accessor family', 20)
    pcs = _part_classes(ctx)
    po_init = ctx.repo.func('bespokeasm.assembler.model.operand.ParsedOperand.__init__')
    n = 0
    for fn in ctx.repo.all_functions():
        if fn.cls is not None and fn.cls.qualname in pcs:
            continue   # super().__init__ chains inside the part classes
        env = ctx.types.env(fn)
        sites = []
        for c in ast.walk(fn.node):
            if isinstance(c, ast.Call):
                ts = ctx.types.type_of(c.func, env)
                cl = [t for t in ts if t[0] == 'cls' and t[1] in pcs]
                if cl:
                    sites.append((c, ctx.repo.classes[cl[0][1]]))
        if not sites:
            continue
        # roles through ParsedOperand(self, <code>, <arg>, text)
        role_of_name = {}
        for c in ast.walk(fn.node):
            if isinstance(c, ast.Call) and unparse(c.func) == 'ParsedOperand':
                b = bind_args(c, po_init)
                for role, key in (('code', 'bytecode'), ('arg', 'argument')):
                    a = b.get(key)
                    if isinstance(a, ast.Name):
                        role_of_name.setdefault(a.id, set()).add(role)
        pm = {}
        for node in ast.walk(fn.node):
            for ch in ast.iter_child_nodes(node):
                pm[id(ch)] = node
        for c, pcls in sites:
            init = pcls.lookup('__init__')
            b = bind_args(c, init)
            size, align, endian = b.get('value_size'), b.get('byte_align'), b.get('endian')
            # which local receives the part
            par = pm.get(id(c))
            while par is not None and not isinstance(par, (ast.Assign, ast.AnnAssign, ast.Return, ast.Call, ast.List)):
                par = pm.get(id(par))
            tname = None
            if isinstance(par, ast.Assign) and isinstance(par.targets[0], ast.Name):
                tname = par.targets[0].id
            roles = role_of_name.get(tname, set())
            key = f'{ctx.short(fn).split(".")[-2]}.{fn.name}:{pcls.name}:{tname}'
            n += 1
            # a field whose value is 0 is still a field: the part may be skipped only when the value is None
            vname = unparse(c.args[0]) if c.args else None
            if vname:
                rz = resolver(ctx, fn, inline=False)
                for cl_ in filter_facts_at(ctx, fn, c, rz):
                    for l in cl_:
                        if l[0] == 'truthy' and l[1] == vname and l[2] is True:
                            ctx.refute(f'geometry:{key}:zero-value-kept', fn.site(c), 'a configured value of 0 still produces its field (presence is tested with `is not None`)',
                                       f'the part is built only if `{vname}` is truthy: a value of 0 drops the field and shifts everything after it')
            if pcls.name == 'CompositeByteCodePart':
                lst = b.get('bytecode_parts')
                first = unparse(lst.elts[0]) if isinstance(lst, ast.List) and lst.elts else None
                ok = first is not None and unparse(align) == f'{first}.byte_align' and unparse(endian) == f'{first}.endian'
                ctx.check(ok, f'geometry:{key}', fn.site(c), 'a composite operand code keeps the alignment and byte order of its leading code', unparse(c))
                continue
            if fn.qualname == IG + '.generate_variant_bytecode_parts':
                want_size = {'base_bytecode': 'variant.base_bytecode_size', 'base_bytecode_suffix': 'variant.suffix_bytecode_size'}.get(tname)
                e_def = deref(ctx, fn, endian, c) if endian is not None else None
                ok = want_size is not None and unparse(size) == want_size and unparse(align) == 'False' \
                    and e_def is not None and unparse(e_def) == "variant._variant_config['bytecode'].get('endian', isa_model.endian)"
                ctx.check(ok, f'geometry:{key}', fn.site(c), f'{tname}: size {want_size}, unaligned, byte order = variant bytecode.endian or the ISA default',
                          f'size={unparse(size)} align={unparse(align)} endian={unparse(e_def) if e_def is not None else None}')
                continue
            if roles == {'code'}:
                ok = (unparse(size) == 'self.bytecode_size' or (unparse(size) == '0' and unparse(c.args[0]) == '0')) \
                    and unparse(align) == 'False' and unparse(endian) == "'big'"
                ctx.check(ok, f'geometry:{key}', fn.site(c), 'an operand code occupies bytecode_size bits, unaligned, big-endian',
                          f'size={unparse(size)} align={unparse(align)} endian={unparse(endian)}')
            elif roles == {'arg'}:
                fam = None
                for name, (s_, a_, e_) in _FAMILY.items():
                    if unparse(size) == f'self.{s_}':
                        fam = name
                ok = fam is not None and unparse(align) == f'self.{_FAMILY[fam][1]}' and unparse(endian) == f'self.{_FAMILY[fam][2]}'
                ctx.check(ok, f'geometry:{key}', fn.site(c),
                          'an argument occupies its configured size with its own configured alignment and byte order (one accessor family)',
                          f'size={unparse(size)} align={unparse(align)} endian={unparse(endian)}')
            else:
                ctx.err(f'geometry:{key}', fn.site(c), 'the constructed part flows to exactly one ParsedOperand role', f'roles {sorted(roles)}')
    if n < 20:
        ctx.err('geometry:sites', '-', 'at least 20 construction sites', f'found {n}')
    # accessor -> configuration key
    acc = {
        'bespokeasm.assembler.model.operand.Operand.bytecode_size': "self._config['bytecode']['size']",
        'bespokeasm.assembler.model.operand.Operand.bytecode_value': "self._config['bytecode']['value']",
        'bespokeasm.assembler.model.operand.OperandWithArgument.argument_size': "self._config['argument']['size']",
        'bespokeasm.assembler.model.operand.OperandWithArgument.argument_byte_align': "self._config['argument']['byte_align']",
        'bespokeasm.assembler.model.operand.OperandWithArgument.argument_endian': "self._config['argument'].get('endian', self._default_endian)",
        'bespokeasm.assembler.model.operand.types.indirect_register.IndirectRegisterOperand.offset_size': "self._config['offset']['size']",
        'bespokeasm.assembler.model.operand.types.indirect_register.IndirectRegisterOperand.offset_byte_align': "self._config['offset']['byte_align']",
        'bespokeasm.assembler.model.operand.types.indirect_register.IndirectRegisterOperand.offset_endian': "self._config['offset'].get('endian', self._default_endian)",
        'bespokeasm.assembler.model.instruction.InstructionVariant.base_bytecode_size': "self._variant_config['bytecode']['size']",
        'bespokeasm.assembler.model.instruction.InstructionVariant.base_bytecode_value': "self._variant_config['bytecode']['value']",
        'bespokeasm.assembler.model.instruction.InstructionVariant.suffix_bytecode_size': "self._variant_config['bytecode']['suffix']['size']",
        'bespokeasm.assembler.model.instruction.InstructionVariant.suffix_bytecode_value': "self._variant_config['bytecode']['suffix']['value']",
    }
    for q, want in acc.items():
        f = ctx.repo.func(q)
        vals = [unparse(r.value) for r in returns(f) if r.value is not None and unparse(r.value) not in ('None', '0')]
        ctx.check(vals == [want], f'accessor:{ctx.short(f).split(".")[-2]}.{f.name}', f.site(), f'{f.name} reads {want}', str(vals))
    # only the documented overrides of the accessors exist
    op = ctx.repo.cls('bespokeasm.assembler.model.operand.Operand')
    for name in ('bytecode_size', 'argument_size', 'argument_byte_align', 'argument_endian'):
        impl = [f for c in [op] + op.all_subclasses() for f in [c.methods.get(name)] if f is not None]
        ctx.check(len(impl) == 1, f'accessor:single:{name}', impl[0].site() if impl else '-', f'{name} has a single definition', str([ctx.short(f) for f in impl]))
    stores = {'value_size': '_value_size', 'byte_align': '_byte_align', 'endian': '_endian'}
    bi = ctx.repo.func(PARTS + '.ByteCodePart.__init__')
    for p_, a_ in stores.items():
        st = self_attr_stores(bi.node, a_)
        ctx.check(len(st) == 1 and unparse(st[0][2]) == p_, f'part:stores:{p_}', bi.site(), f'ByteCodePart keeps {p_} as given', '; '.join(unparse(s[0]) for s in st))
    for prop, a_ in (('value_size', '_value_size'), ('byte_align', '_byte_align'), ('endian', '_endian')):
        f = ctx.repo.func(f'{PARTS}.ByteCodePart.{prop}')
        rr = returns(f)
        ctx.check(len(rr) == 1 and unparse(rr[0].value) == f'self.{a_}', f'part:reads:{prop}', f.site(), f'ByteCodePart.{prop} returns what was given', '; '.join(unparse(r) for r in rr))
    # subclasses hand the geometry through to the base constructor unchanged
    base = ctx.repo.cls(PARTS + '.ByteCodePart')
    for c in base.all_subclasses():
        init = c.methods.get('__init__')
        if init is None or c.name == 'CompositeByteCodePart':
            continue
        sup = [x for x in ast.walk(init.node) if isinstance(x, ast.Call) and unparse(x.func) == 'super().__init__']
        if len(sup) != 1:
            ctx.err(f'part:super:{c.name}', init.site(), 'one super().__init__ call', f'{len(sup)}')
            continue
        parent_init = next(k for k in c.mro()[1:] if '__init__' in k.methods).methods['__init__']
        b = bind_args(sup[0], parent_init)
        ok = all(unparse(b.get(p_)) == p_ for p_ in ('value_size', 'byte_align', 'endian'))
        ctx.check(ok, f'part:super:{c.name}', init.site(sup[0]), 'size, alignment and byte order are passed to the base class unchanged', unparse(sup[0]))
    ci = ctx.repo.func(PARTS + '.CompositeByteCodePart.__init__')
    ts = [n_ for n_ in ast.walk(ci.node) if isinstance(n_, ast.Assign) and unparse(n_.targets[0]) == 'total_size']
    from engine.helpers import sum_view
    sv = [sum_view(t.value) for t in ts]
    ok = len(ts) == 1 and sv[0] == (ci.call_params[0].arg, '_0.value_size')
    ctx.check(ok, 'part:composite-size', ci.site(), 'a composite code is as wide as the sum of its parts', '; '.join(unparse(t) for t in ts))


# ------------------------------------------------------------------------------------------------- C01.4

def c01_4(ctx):
    ctx.rule('C01.4', 'get_bytes packs each part\'s own value/size/alignment/byte order in list order; size gate; packer honours alignment', 6)
    gb = ctx.repo.func(ASM + '.get_bytes')
    loops = [l for l in walk_no_nested(gb.node) if isinstance(l, ast.For) and unparse(l.iter) == 'self._parts']
    if len(loops) != 1:
        ctx.refute('pack:parts-in-order', gb.site(), 'the parts are packed in list order', f'{len(loops)} loops over self._parts')
        return
    lp = loops[0]
    p = unparse(lp.target)
    ab = [c for c in ast.walk(lp) if isinstance(c, ast.Call) and isinstance(c.func, ast.Attribute) and c.func.attr == 'append_bits']
    tgt = ctx.repo.func(PB + '.append_bits')
    ok = len(ab) == 1
    if ok:
        b = bind_args(ab[0], tgt)
        v = deref(ctx, gb, b.get('value'), ab[0])
        ok_v = isinstance(v, ast.Call) and unparse(v.func) == f'{p}.get_value' and [unparse(a) for a in v.args] == [x.arg for x in gb.call_params[:3]]
        ok = ok_v and unparse(b.get('bit_size')) == f'{p}.value_size' and unparse(b.get('byte_aligned')) == f'{p}.byte_align' and unparse(b.get('endian')) == f'{p}.endian'
        g = ctx.cfg(gb)
        head = g.node_of(lp)
        be = next(s for s in g.succ[head] if g.nodes[s].kind == 'branch' and g.nodes[s].polarity)
        ok = ok and g.all_paths_through(be, head, {g.node_of(ab[0])})
    ctx.check(ok, 'pack:own-geometry', gb.site(ab[0]) if ab else gb.site(lp),
              'every part is packed with its own value (evaluated at this instruction\'s address and size), size, alignment and byte order',
              unparse(ab[0]) if ab else 'no append_bits call')
    # size gate
    res = resolver(ctx, gb, inline=True)
    gate = False
    for r in returns(gb):
        if r.value is not None and not (isinstance(r.value, ast.Constant) and r.value.value is None):
            cl = facts_at(ctx, gb, r, res)
            gate = any(len(c) == 1 and next(iter(c))[0] == 'eq' and 'len(' in str(next(iter(c))[1]) and '_byte_size' in str(next(iter(c))[1]) for c in cl)
    ctx.check(gate, 'pack:size-gate', gb.site(), 'bytes are returned only when their number equals the reserved byte size', 'no `len(bytes) == self.byte_size` fact at the successful return')
    # OverflowError -> exit (see C12.4); None value -> exit
    ab_sig = [a.arg for a in tgt.call_params]
    ctx.check(ab_sig[:4] == ['value', 'bit_size', 'byte_aligned', 'endian'], 'pack:packer-signature', tgt.site(), 'append_bits(value, bit_size, byte_aligned, endian)', str(ab_sig))
    # packer: alignment flag starts a new byte; zero padding; byte order parameter used
    ifs = [i for i in walk_no_nested(tgt.node) if isinstance(i, ast.If) and 'byte_aligned' in unparse(i.test)]
    ok = False
    for i in ifs:
        body = [unparse(s) for s in i.body]
        if 'self._bytes.append(0)' in body and 'self._cur_bit_idx = 7' in body:   # (the byte index is paired with the append by C01.9)
            from engine.lin import to_cnf
            r2 = resolver(ctx, tgt, inline=False)
            cl = to_cnf(i.test, True, r2)
            ok = frozenset({('truthy', 'byte_aligned', True)}) in cl and frozenset({lit_cmp(ctx, tgt, 'self._cur_bit_idx < 7', r2)}) in cl and len(cl) == 2
    ctx.check(ok, 'pack:aligned-field-starts-new-byte', tgt.site(), 'a byte-aligned field starts a fresh zero byte whenever the current byte is partly used',
              '; '.join(unparse(i.test) for i in ifs) or 'no branch on byte_aligned')
    tb = [c for c in ast.walk(tgt.node) if isinstance(c, ast.Call) and isinstance(c.func, ast.Attribute) and c.func.attr == 'to_bytes']
    ok = len(tb) == 1 and any(k.arg == 'byteorder' and unparse(k.value) == 'endian' for k in tb[0].keywords) and unparse(tb[0].func.value) == 'value'
    ctx.check(ok, 'pack:byte-order-parameter', tgt.site(tb[0]) if tb else tgt.site(), 'the field value is split into bytes in the field\'s configured byte order', unparse(tb[0]) if tb else 'no to_bytes')
    apps = [c for c in ast.walk(tgt.node) if isinstance(c, ast.Call) and unparse(c.func) == 'self._bytes.append']
    ctx.check(bool(apps) and all(unparse(c.args[0]) == '0' for c in apps), 'pack:zero-padding', tgt.site(), 'new bytes start as zero (zero padding of the last byte)', '; '.join(unparse(c) for c in apps))


# ------------------------------------------------------------------------------------------------- C01.5

_AMBIENT = ('os.environ', 'os.getenv', 'time.', 'random.', 'datetime.', 'uuid.', 'socket.', 'os.getcwd', 'os.listdir', 'input(')
_MUTATORS = {'append', 'add', 'update', 'setdefault', 'pop', 'insert', 'extend', 'remove', 'clear', 'sort', 'reverse', 'discard', 'popitem', '__setitem__'}


def statement_path_functions(ctx):
    roots = [ctx.repo.func('bespokeasm.assembler.model.instruction_parser.InstructioParser.parse_instruction'),
             ctx.repo.func('bespokeasm.assembler.line_object.instruction_line.InstructionLine.generate_bytes')]
    return ctx.cg.reachable(roots)


def c01_5(ctx):
    ctx.rule('C01.5', 'no ambient input and no cross-statement state on the statement assembly path', 1)
    reach = statement_path_functions(ctx)
    n_checked = 0
    bad = 0
    for k, fn in sorted(reach.items()):
        n_checked += 1
        for node in ast.walk(fn.node):
            txt = None
            if isinstance(node, ast.Call):
                txt = unparse(node.func)
                if txt in ('id', 'hash', 'open', 'input') or any(txt.startswith(a.rstrip('(')) for a in _AMBIENT):
                    bad += 1
                    ctx.refute(f'ambient:{ctx.short(fn)}:{txt}', fn.site(node), 'emitted bits depend only on the ISA, the operands and the statement address',
                               f'{txt}(...) is read while assembling a statement')
            elif isinstance(node, ast.Attribute) and unparse(node) == 'os.environ':
                bad += 1
                ctx.refute(f'ambient:{ctx.short(fn)}:os.environ', fn.site(node), 'emitted bits do not depend on the environment', 'os.environ read')
        if fn.name == '__init__':
            continue
        if fn.kind == 'cached_property':
            continue
        # stores to self.<attr> / mutation of self.<attr> containers outside constructors
        for node in ast.walk(fn.node):
            tgt = None
            if isinstance(node, ast.Attribute) and isinstance(node.ctx, ast.Store) and isinstance(node.value, ast.Name) and node.value.id in ('self', 'cls'):
                tgt = unparse(node)
            elif isinstance(node, ast.Subscript) and isinstance(node.ctx, ast.Store) and isinstance(node.value, ast.Attribute) \
                    and isinstance(node.value.value, ast.Name) and node.value.value.id in ('self', 'cls'):
                tgt = unparse(node.value) + '[...]'
            elif isinstance(node, ast.Call) and isinstance(node.func, ast.Attribute) and node.func.attr in _MUTATORS \
                    and isinstance(node.func.value, ast.Attribute) and isinstance(node.func.value.value, ast.Name) and node.func.value.value.id in ('self', 'cls'):
                tgt = unparse(node.func)
            elif isinstance(node, ast.Attribute) and isinstance(node.ctx, ast.Store) and isinstance(node.value, ast.Name) \
                    and ctx.repo.resolve_name(fn.module, node.value.id) is not None and isinstance(ctx.repo.resolve_name(fn.module, node.value.id), ClassInfo):
                tgt = unparse(node)
            if tgt is None:
                continue
            owner = fn.cls.name if fn.cls is not None else ''
            # per-statement objects may keep their own state (parts, packed bits, expression nodes, line objects)
            if owner in ('PackedBits',) or owner.endswith('Line') or owner in ('ExpressionNode', 'FillDataLine', 'FillUntilDataLine'):
                continue
            bad += 1
            ctx.refute(f'state:{ctx.short(fn)}:{tgt}', fn.site(node),
                       'objects of the ISA model are not mutated while a statement is assembled (later statements must not depend on earlier ones)',
                       f'{ctx.short(fn)} writes {tgt}')
    ctx.ok('reach:statement-path', '-', 'functions reachable from statement assembly were scanned', f'{n_checked} functions, {bad} findings')


# ------------------------------------------------------------------------------------------------- C01.6

def c01_6(ctx):
    ctx.rule('C01.6', 'reserved size: every part adds its size, aligned parts are padded to a byte boundary, bits rounded up to bytes', 3)
    init = ctx.repo.func(ASM + '.__init__')
    g = ctx.cfg(init)
    res = resolver(ctx, init, inline=False)
    loops = [l for l in walk_no_nested(init.node) if isinstance(l, ast.For) and unparse(l.iter) in ('self._parts', init.call_params[1].arg)]
    if len(loops) != 1:
        raise AnalysisError('AssembledInstruction.__init__: size loop over the parts not found')
    lp = loops[0]
    p = unparse(lp.target)
    augs = [n for n in walk_no_nested(lp) if isinstance(n, ast.AugAssign) and isinstance(n.op, ast.Add)]
    size_adds = [n for n in augs if unparse(n.value) == f'{p}.value_size']
    head = g.node_of(lp)
    be = next(s for s in g.succ[head] if g.nodes[s].kind == 'branch' and g.nodes[s].polarity)
    ok = len(size_adds) == 1 and g.all_paths_through(be, head, {g.node_of(size_adds[0])})
    ctx.check(ok, 'size:each-part-adds-its-size', init.site(size_adds[0]) if size_adds else init.site(lp),
              'every part adds exactly its value_size to the running bit count', '; '.join(unparse(a) for a in augs))
    if not ok:
        return
    acc = unparse(size_adds[0].target)
    pads = [n for n in augs if n is not size_adds[0] and unparse(n.target) == acc]
    good = False
    detail = '; '.join(unparse(x) for x in pads) or 'no padding statement'
    for n in pads:
        cl = facts_at(ctx, init, n, res)
        aligned = any(c == frozenset({('truthy', f'{p}.byte_align', True)}) or c == frozenset({('truthy', f'{p}._byte_align', True)}) for c in cl)
        rem_ne0 = any(c == frozenset({lit_cmp(ctx, init, f'{acc} % 8 != 0', res)}) for c in cl)
        k = to_lin(n.value, res).key()
        f1 = to_lin(ast.parse(f'8 - {acc} % 8', mode='eval').body, res).key()
        f2 = to_lin(ast.parse(f'(8 - {acc} % 8) % 8', mode='eval').body, res).key()
        f3 = to_lin(ast.parse(f'-{acc} % 8', mode='eval').body, res).key()
        before = g.reaches(g.node_of(n), g.node_of(size_adds[0])) and not g.reaches(g.node_of(size_adds[0]), g.node_of(n)) \
            or g.reaches(g.node_of(n), g.node_of(size_adds[0]))
        extra = [l for c in filter_facts_at(ctx, init, n, res) for l in c if not (l[0] == 'truthy' and 'byte_align' in l[1]) and l != lit_cmp(ctx, init, f'{acc} % 8 != 0', res)]
        if aligned and before and not extra and ((k == f1 and rem_ne0) or k in (f2, f3)):
            good = True
        detail = f'{unparse(n)} under {describe_facts(cl)}'
    ctx.check(good, 'size:aligned-part-padded', init.site(pads[0]) if pads else init.site(lp),
              'before a byte-aligned part the bit count is moved up to the next multiple of 8 (displacement in [0, 7])', detail)
    st = self_attr_stores(init.node, '_byte_size')
    ok = False
    why = '; '.join(unparse(s[0]) for s in st)
    for s, t, v in st:
        u = unparse(v).replace(' ', '')
        if u in (f'math.ceil({acc}/8)', f'({acc}+7)//8', f'-(-{acc}//8)', f'int(math.ceil({acc}/8))'):
            ok = True
        elif u in (f'{acc}//8', f'int({acc}/8)', f'math.floor({acc}/8)', f'round({acc}/8)'):
            ctx.refute('size:bits-rounded-up', init.site(s), 'the byte count is the bit count divided by 8, rounded up (zero padding to whole bytes)',
                       f'{unparse(v)} rounds down: the last partial byte is not reserved')
            return
    if ok:
        ctx.ok('size:bits-rounded-up', init.site(), 'the byte count is ceil(bits / 8)', why)
    else:
        ctx.err('size:bits-rounded-up', init.site(), 'byte count is one of the recognised ceiling idioms', why)


# ------------------------------------------------------------------------------------------------- C01.7

def c01_7(ctx):
    ctx.rule('C01.7', 'composite operand codes are packed field by field', 1)
    gv = ctx.repo.func(PARTS + '.CompositeByteCodePart.get_value')
    loops = [l for l in walk_no_nested(gv.node) if isinstance(l, ast.For) and unparse(l.iter) == 'self._parts_list']
    if len(loops) != 1:
        ctx.err('composite:field-by-field', gv.site(), 'one loop over the sub-parts', f'{len(loops)} loops')
        return
    lp = loops[0]
    p = unparse(lp.target)
    ab = [c for c in ast.walk(lp) if isinstance(c, ast.Call) and isinstance(c.func, ast.Attribute) and c.func.attr == 'append_bits']
    if ab:
        tgt = ctx.repo.func(PB + '.append_bits')
        b = bind_args(ab[0], tgt)
        v = b.get('value')
        ok = isinstance(v, ast.Call) and unparse(v.func) == f'{p}.get_value' and unparse(b.get('bit_size')) == f'{p}.value_size' \
            and unparse(b.get('byte_aligned')) == 'False' and [unparse(a) for a in v.args] == [x.arg for x in gv.call_params[:3]]
        ctx.check(ok, 'composite:field-by-field', gv.site(ab[0]), 'each sub-part is packed with its own width (which also bounds its value), unaligned', unparse(ab[0]))
        sh = [n for n in ast.walk(gv.node) if isinstance(n, ast.If) and 'value_size % 8' in unparse(n.test)]
        ok = len(sh) == 1 and any('>>' in unparse(s) for s in sh[0].body)
        ctx.check(ok, 'composite:left-aligned-bits-shifted-back', gv.site(), 'the packed bits are shifted down when the width is not a whole number of bytes', '')
        return
    # shift / or form: each sub-value must be masked to its width
    ors = [n for n in ast.walk(lp) if isinstance(n, ast.BinOp) and isinstance(n.op, ast.BitOr)]
    masked = any(isinstance(o.right, ast.BinOp) and isinstance(o.right.op, ast.BitAnd) for o in ors)
    if ors:
        ctx.check(masked, 'composite:field-by-field', gv.site(lp), 'each sub-part contributes exactly its own width (value masked or range-checked)',
                  f'{unparse(ors[0])}: a negative or oversized sub-value overwrites the higher fields')
    else:
        ctx.err('composite:field-by-field', gv.site(lp), 'packer or masked shift/or form', 'unrecognised')


def c01_8(ctx):
    ctx.rule('C01.8', 'the ISA\'s default byte order reaches every operand unchanged', 20)
    n = 0
    allowed = {'default_endian', 'self.endian', 'self._default_endian'}
    for fn in ctx.repo.all_functions():
        for e in ctx.cg.callees(fn):
            if not isinstance(e.node, ast.Call):
                continue
            names = [p_.arg for p_ in e.callee.call_params]
            if 'default_endian' not in names:
                continue
            b = bind_args(e.node, e.callee)
            a = b.get('default_endian')
            n += 1
            ctx.check(a is not None and unparse(a) in allowed, f'endian-default:{ctx.short(fn).split("assembler.model.")[-1]}->{e.callee.cls.name if e.callee.cls else e.callee.name}',
                      fn.site(e.node), 'the default byte order is handed down unchanged',
                      f'default_endian={unparse(a) if a is not None else "<not passed: the callee default applies>"}')
    for f in ctx.repo.all_functions():
        if 'default_endian' in f.param_names:
            args = f.node.args
            pos = list(args.posonlyargs) + list(args.args)
            idx = [p_.arg for p_ in pos].index('default_endian') if 'default_endian' in [p_.arg for p_ in pos] else None
            has_default = idx is not None and idx >= len(pos) - len(args.defaults)
            ctx.check(not has_default, f'endian-default:no-fallback:{ctx.short(f).split("assembler.model.")[-1]}', f.site(),
                      'no constructor supplies its own fallback byte order', 'default_endian has a default value')
    oi = ctx.repo.func('bespokeasm.assembler.model.operand.Operand.__init__')
    st = self_attr_stores(oi.node, '_default_endian')
    ctx.check(len(st) == 1 and unparse(st[0][2]) == 'default_endian', 'endian-default:stored', oi.site(), 'an operand keeps the default byte order it was given', '; '.join(unparse(x[0]) for x in st))
    if n < 15:
        ctx.err('endian-default:sites', '-', 'at least 15 hand-down sites', f'{n}')


# ------------------------------------------------------------------------------------------------- C01.9

def c01_9(ctx):
    """The packer's cursor, by interval / typestate abstract interpretation of PackedBits.append_bits (engine/interval.py):
    with the class invariant  cursor in [-1, 7],  byte index = len(buffer) - 1,  cursor + bits stored in the current byte = 7
    assumed on entry (and established by __init__), every store into the buffer ORs one 0/1 value shifted by the cursor in
    [0, 7] into the current byte at a moment the invariant holds (no gap, no collision, never an overwrite), a new byte is
    started only when the current one is full or the field is byte aligned, new bytes are zero, and every exit restores the invariant."""
    from engine.interval import CursorInterp, State, within, fmt
    ctx.rule('C01.9', 'packer cursor discipline: bits are ORed one at a time at the cursor inside the current byte; no gap, no collision, no overwrite', 6)
    tgt = ctx.repo.func(PB + '.append_bits')
    init = ctx.repo.func(PB + '.__init__')
    BUF, CUR, IDX = 'self._bytes', 'self._cur_bit_idx', 'self._cur_byte_idx'
    # __init__ establishes the invariant
    vals = {}
    for s in ast.walk(init.node):
        if isinstance(s, ast.Assign) and len(s.targets) == 1 and unparse(s.targets[0]) in (BUF, CUR, IDX):
            vals[unparse(s.targets[0])] = unparse(s.value)
    ctx.check(vals.get(CUR) == '7' and vals.get(IDX) == '0' and vals.get(BUF) in ('bytearray(1)', 'bytearray([0])', "bytearray(b'\\x00')"),
              'cursor:initial', init.site(), 'a new packer holds one zero byte, byte index 0, cursor at bit 7', str(vals))
    flags = [a.arg for a in tgt.call_params if a.arg in ('byte_aligned',)]
    it = CursorInterp(BUF, CUR, IDX, flag_names=flags)
    entry = State({CUR: (-1, 7), IDX: (0, None), 'T': (7, 7), 'D': (-1, -1)})
    it.run(tgt.node, entry)
    for n in it.unknown:
        ctx.err('cursor:unsupported', tgt.site(n), 'statement understood by the cursor interpreter', unparse(n)[:120])
    ctx.check(not it.overwrites, 'cursor:no-overwrite', tgt.site(it.overwrites[0]) if it.overwrites else tgt.site(),
              'the buffer is only extended by append and modified by |= (bits of earlier fields are never cleared or replaced)',
              '; '.join(unparse(n)[:80] for n in it.overwrites))
    if not it.stores:
        ctx.refute('cursor:store', tgt.site(), 'bits are ORed into the buffer', 'no |= store into the buffer found')
    for (n, idx, kind_ok, shift, T, D, uses_cursor) in it.stores:
        ctx.check(idx == IDX and D == (-1, -1), 'cursor:store-in-current-byte', tgt.site(n),
                  'a bit is stored into the last byte of the buffer (the byte index is advanced exactly with every append)',
                  f'index {idx}; byte index - len(buffer) in {fmt(D)}')
        ctx.check(kind_ok and uses_cursor and within(shift, 0, 7), 'cursor:one-bit-inside-the-byte', tgt.site(n),
                  'the stored value is a single 0/1 bit shifted by the cursor, and the cursor is in [0, 7] there',
                  f'{unparse(n.value)[:80]}: value is {"0/1" if kind_ok else "not provably 0/1"}, shift in {fmt(shift)}')
        ctx.check(T == (7, 7), 'cursor:dense', tgt.site(n),
                  'at every store, cursor + bits already stored in the current byte = 7 (no bit position skipped, none written twice)',
                  f'cursor + stored bits in {fmt(T)}')
    if not it.refills:
        ctx.refute('cursor:refill', tgt.site(), 'a new byte is appended when the current one is full', 'no append found')
    for (c, at, under_flag, arg) in it.refills:
        ctx.check(arg == '0', 'cursor:new-byte-zero', tgt.site(c), 'a new byte starts as zero', arg)
        if under_flag:
            ctx.check(at is not None and within(at, -1, 6), 'cursor:aligned-refill', tgt.site(c),
                      'under the alignment flag a new byte is started only when the current one is partly or wholly used', fmt(at))
        else:
            ctx.check(at == (-1, -1), 'cursor:refill-only-when-full', tgt.site(c),
                      'without the alignment flag a new byte is started exactly when the current one is full (cursor = -1)', 'cursor in ' + fmt(at))
    for (n, st) in it.exits:
        ok = within(st.get(CUR), -1, 7) and st.get('T') == (7, 7) and st.get('D') == (-1, -1)
        ctx.check(ok, 'cursor:invariant-restored', tgt.site(n) if not isinstance(n, ast.FunctionDef) else tgt.site(),
                  'every exit leaves cursor in [-1, 7], byte index = len(buffer) - 1, cursor + stored bits = 7',
                  f'cursor {fmt(st.get(CUR))}, cursor+stored {fmt(st.get("T"))}, index-len {fmt(st.get("D"))}')
    # who may write the cursor cells
    n_writers = 0
    for fn in ctx.repo.all_functions():
        for node in ast.walk(fn.node):
            tg = []
            if isinstance(node, ast.Assign):
                tg = node.targets
            elif isinstance(node, (ast.AugAssign, ast.AnnAssign)):
                tg = [node.target]
            for t in tg:
                base = t.value if isinstance(t, ast.Subscript) else t
                if isinstance(base, ast.Attribute) and base.attr in ('_cur_bit_idx', '_cur_byte_idx'):
                    n_writers += 1
                    ctx.check(fn.qualname in (PB + '.__init__', PB + '.append_bits'), f'cursor:writer:{ctx.short(fn)}', fn.site(node),
                              'the cursor is written only by the packer\'s constructor and append_bits', unparse(node)[:80])


def c01_state(ctx):
    """Per-statement / per-lookup properties presuppose that nothing is remembered between statements beyond the reviewed state."""
    from rules.shared import state_discipline
    state_discipline(ctx, ('bespokeasm.assembler.bytecode', 'bespokeasm.assembler.model', 'bespokeasm.expression', 'bespokeasm.utilities', 'bespokeasm.assembler.line_object.instruction_line'))


def c01_macro_steps(ctx):
    """An instruction inside a macro is encoded as it is on its own: with its own address and size (C10.1)."""
    from rules.c10 import c10_1
    c10_1(ctx)

RULES = [c01_1, c01_2, c01_3, c01_4, c01_5, c01_6, c01_7, c01_8, c01_9, c01_state, c01_macro_steps]

_OP = 'assembler/model/operand_parser.py'
_GI = 'assembler/bytecode/generator/instruction.py'
_AS = 'assembler/bytecode/assembled.py'
_T = 'assembler/model/operand/types/'
MUTANTS = [
    V('c01-groups-swapped', _OP, 'machine_code = prefix_op_bytecode + machine_code + suffix_op_bytecode', 'machine_code = suffix_op_bytecode + machine_code + prefix_op_bytecode', 'C01.1'),
    V('c01-reverse-suffix-only', _OP, '            suffix_op_bytecode.reverse()\n            prefix_op_bytecode.reverse()\n', '            suffix_op_bytecode.reverse()\n', 'C01.1'),
    V('c01-args-before-suffix', _OP, '''        if base_bytecode_suffix is not None:
            machine_code.append(base_bytecode_suffix)
        # now add arguments
        arguments = [op.argument for op in self._operands if op.argument is not None]
        if self._reverse_arg_order:
            arguments.reverse()
        for arg in arguments:
            machine_code.append(arg)
''', '''        # now add arguments
        arguments = [op.argument for op in self._operands if op.argument is not None]
        if self._reverse_arg_order:
            arguments.reverse()
        for arg in arguments:
            machine_code.append(arg)
        if base_bytecode_suffix is not None:
            machine_code.append(base_bytecode_suffix)
''', 'C01.1'),
    V('c01-arg-flag-reverses-codes', _OP, '        if self._reverse_op_bytecode_order:\n            suffix_op_bytecode.reverse()', '        if self._reverse_arg_order:\n            suffix_op_bytecode.reverse()', 'C01.1'),
    V('c01-flags-swapped-at-site', _OP, 'return MatchedOperandSet(matched_operands, self.reverse_argument_order, self.reverse_bytecode_order)', 'return MatchedOperandSet(matched_operands, self.reverse_bytecode_order, self.reverse_argument_order)', 'C01.1'),
    V('c01-insert-suffix-directly', _OP, '''                    suffix_op_bytecode.append(op.bytecode)

        if self._reverse_op_bytecode_order:
            suffix_op_bytecode.reverse()
            prefix_op_bytecode.reverse()
''', '''                    if self._reverse_op_bytecode_order:
                        suffix_op_bytecode.insert(0, op.bytecode)
                    else:
                        suffix_op_bytecode.append(op.bytecode)
''', 'C01.1'),
    V('c01-unpositioned-code-dropped', _OP, '''                else:
                    # the suffix is the default position, also for the byte code an operand builds from its parts
                    # (an indexed register's index code) without a byte code section of its own
                    suffix_op_bytecode.append(op.bytecode)''', '''                elif op.operand.bytecode_position == OperandBytecodePositionType.SUFFIX:
                    suffix_op_bytecode.append(op.bytecode)''', 'C01.1'),
    V('c01-suffix-dropped-operandless', _GI, '''            machine_code = [base_bytecode]
            if base_bytecode_suffix is not None:
                machine_code.append(base_bytecode_suffix)
''', '''            machine_code = [base_bytecode]
''', 'C01.2'),
    V('c01-arg-size-from-bytecode', _T + 'numeric_expression.py', '''            arg_part = ExpressionByteCodePart(
                operand,
                self.argument_size,''', '''            arg_part = ExpressionByteCodePart(
                operand,
                self.bytecode_size,''', 'C01.3'),
    V('c01-arg-align-hardcoded', _T + 'relative_address.py', '                self.argument_size,\n                self.argument_byte_align,\n                self.argument_endian,\n                line_id,\n                self.min_offset,',
      '                self.argument_size,\n                True,\n                self.argument_endian,\n                line_id,\n                self.min_offset,', 'C01.3'),
    V('c01-offset-endian-family', _T + 'indirect_register.py', '                            self.offset_byte_align,\n                            self.offset_endian,\n                            line_id\n                        )',
      '                            self.offset_byte_align,\n                            self._default_endian,\n                            line_id\n                        )', 'C01.3'),
    V('c01-opcode-endian-default', _GI, "instruction_endian = variant._variant_config['bytecode'].get('endian', isa_model.endian)", "instruction_endian = isa_model.endian", 'C01.3'),
    V('c01-argument-endian-key', 'assembler/model/operand/__init__.py', "return self._config['argument'].get('endian', self._default_endian)", "return self._config.get('endian', self._default_endian)", 'C01.3'),
    V('c01-pack-wrong-align', _AS, '                    p.value_size,\n                    p.byte_align,\n                    p.endian,', '                    p.value_size,\n                    False,\n                    p.endian,', 'C01.4'),
    V('c01-no-size-gate', _AS, '        if len(bytes) != self.byte_size:\n            # ERROR\n            return None\n', '', 'C01.4'),
    V('c01-operand-cache', 'assembler/model/operand_set.py', '''        for operand in self._ordered_operand_list:
            op: ParsedOperand = operand.parse_operand(line_id, operand_str, register_labels, memzone_manager)
            if op is not None:
                # if some part was returned, then this is a valid match. Matching
                # precedence order is important here!
                return op
        return None''', '''        key = operand_str.strip().lower()
        if key in self._config.setdefault('_cache', {}):
            return self._config['_cache'][key]
        for operand in self._ordered_operand_list:
            op: ParsedOperand = operand.parse_operand(line_id, operand_str, register_labels, memzone_manager)
            if op is not None:
                self._config['_cache'][key] = op
                return op
        return None''', 'C01.5'),
    V('c01-env-endian', _GI, "instruction_endian = variant._variant_config['bytecode'].get('endian', isa_model.endian)", "import os\n        instruction_endian = variant._variant_config['bytecode'].get('endian', os.environ.get('BESPOKE_ENDIAN', isa_model.endian))", 'C01.5'),
    V('c01-floor-bytes', _AS, 'self._byte_size = math.ceil(total_bits/8)', 'self._byte_size = total_bits // 8', 'C01.6'),
    V('c01-no-align-padding', _AS, '''            if bcp.byte_align:
                if total_bits % 8 != 0:
                    total_bits += 8 - total_bits % 8
''', '', 'C01.6'),
    V('c01-pad-always-8', _AS, '''                if total_bits % 8 != 0:
                    total_bits += 8 - total_bits % 8
''', '''                total_bits += 8 - total_bits % 8
''', 'C01.6'),
    V('c01-composite-unmasked', 'assembler/bytecode/parts.py', '''        bits = PackedBits()
        for p in self._parts_list:
            bits.append_bits(
                p.get_value(
                    label_scope,
                    instruction_address,
                    instruction_size,
                ),
                p.value_size,
                False,
                self.endian,
            )
        value = int.from_bytes(bits.get_bytes(), self.endian)
        if self.value_size % 8 != 0:
            shift_count = 8 - (self.value_size % 8)
            value = value >> shift_count
        return value''', '''        value = 0
        for p in self._parts_list:
            value = (value << p.value_size) | p.get_value(label_scope, instruction_address, instruction_size)
        return value''', 'C01.7'),
    V('c01-packer-ignores-align', 'assembler/bytecode/packed_bits.py', '        if byte_aligned and self._cur_bit_idx < 7:', '        if byte_aligned and self._cur_bit_idx < 0:', 'C01.4'),
]
MUTANTS += [
    V('c01-zero-argument-dropped', _T + 'enumeration_operand.py', "                if arg_value is not None:\n", "                if arg_value:\n", 'C01.3'),
    V('c01-register-default-endian', _T + 'register.py', "        super().__init__(operand_id, arg_config_dict, default_endian)\n        if self.register not in regsiters:", "        super().__init__(operand_id, arg_config_dict, 'big')\n        if self.register not in regsiters:", 'C01.8'),
    V('c01-valid-address-endian', _T + 'numeric_expression.py', "                self.argument_byte_align,\n                self.argument_endian,\n                line_id,\n            )\n        else:", "                self.argument_byte_align,\n                self._default_endian,\n                line_id,\n            )\n        else:", 'C01.3'),
    V('c01-prefix-append', _OP, "prefix_op_bytecode.insert(0, op.bytecode)", "prefix_op_bytecode.append(op.bytecode)", 'C01.1'),
]
TWINS = [
    V('c01-t-args-extend', _OP, '''        for arg in arguments:
            machine_code.append(arg)
''', '''        machine_code.extend(arguments)
'''),
    V('c01-t-reversed-builtin', _OP, '''        if self._reverse_arg_order:
            arguments.reverse()
''', '''        if self._reverse_arg_order:
            arguments = list(reversed(arguments))
'''),
    V('c01-t-ceil-idiom', _AS, 'self._byte_size = math.ceil(total_bits/8)', 'self._byte_size = (total_bits + 7) // 8'),
]
MUTANTS += [
    V('c01-cursor-refill-one-early', 'assembler/bytecode/packed_bits.py', '                if self._cur_bit_idx < 0:', '                if self._cur_bit_idx <= 0:', 'C01.9'),
    V('c01-cursor-overwrite', 'assembler/bytecode/packed_bits.py', 'self._bytes[self._cur_byte_idx] |= (bit_value << self._cur_bit_idx)', 'self._bytes[self._cur_byte_idx] = (bit_value << self._cur_bit_idx)', 'C01.9'),
    V('c01-cursor-unmasked-bit', 'assembler/bytecode/packed_bits.py', 'bit_value = (((value_bytes[byte_idx]) & mask) >> bit_idx)', 'bit_value = ((value_bytes[byte_idx]) >> bit_idx)', 'C01.9'),
    V('c01-cursor-index-not-advanced', 'assembler/bytecode/packed_bits.py', """                    self._cur_bit_idx = 7
                    self._bytes.append(0)
                    self._cur_byte_idx += 1
""", """                    self._cur_bit_idx = 7
                    self._bytes.append(0)
""", 'C01.9'),
    V('c01-cursor-double-step', 'assembler/bytecode/packed_bits.py', """                self._cur_bit_idx -= 1
""", """                self._cur_bit_idx -= 1 if bit_value else 2
""", 'C01.9'),
    V('c01-cursor-aligned-no-new-byte', 'assembler/bytecode/packed_bits.py', """            self._cur_bit_idx = 7
            self._bytes.append(0)
            self._cur_byte_idx += 1
        first_byte_idex""", """            self._cur_bit_idx = 7
        first_byte_idex""", 'C01.9'),
]
TWINS += [
    V('c01-t-cursor-eq-minus-one', 'assembler/bytecode/packed_bits.py', '                if self._cur_bit_idx < 0:', '                if self._cur_bit_idx == -1:'),
    V('c01-t-cursor-append-first', 'assembler/bytecode/packed_bits.py', """                    self._cur_bit_idx = 7
                    self._bytes.append(0)
                    self._cur_byte_idx += 1
""", """                    self._bytes.append(0)
                    self._cur_byte_idx += 1
                    self._cur_bit_idx = 7
"""),
    V('c01-t-cursor-shift-and-one', 'assembler/bytecode/packed_bits.py', 'bit_value = (((value_bytes[byte_idx]) & mask) >> bit_idx)', 'bit_value = (value_bytes[byte_idx] >> bit_idx) & 1'),
    V('c01-t-cursor-index-from-len', 'assembler/bytecode/packed_bits.py', """            self._cur_bit_idx = 7
            self._bytes.append(0)
            self._cur_byte_idx += 1
        first_byte_idex""", """            self._cur_bit_idx = 7
            self._bytes.append(0)
            self._cur_byte_idx = len(self._bytes) - 1
        first_byte_idex"""),
]
