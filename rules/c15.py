"""C15 - assembly is deterministic."""
import ast

from engine.index import AnalysisError, FuncInfo
from engine.helpers import (resolver, facts_at, filter_facts_at, lit_cmp, describe_facts, unparse, walk_no_nested, returns,
                            deref, body_only_aborts, calls_to, reaching_def, is_abort_stmt, all_paths_imply)
from engine.lin import clause_implies
from engine.types import CallGraph
from engine.selftest import V

ENGINE = 'bespokeasm.assembler.engine.Assembler.assemble_bytecode'
AF = 'bespokeasm.assembler.assembly_file.AssemblyFile'

EXPLANATION = (
    'Static rules over everything reachable from Assembler.__init__ / assemble_bytecode (model construction, file loading, '
    'both passes, all printers). Decided: C15.1 no set-typed value (set annotations, set()/frozenset() constructions, set '
    'literals and comprehensions, folded *_SET constants, union/intersection results) reaches an order-sensitive consumer '
    '(for loop, join, list/tuple/sorted-less conversion, next(iter()), pop, enumerate, starred or tuple unpacking, regex alternation) unless the '
    'consumer is order-insensitive by an enumerated form (body only aborts or only tests membership; unique-hit-or-abort '
    'search); the include search is order-free (exactly one directory may hold the file); C15.2 no time, random, '
    'environment, id/hash, directory listing or terminal size read on that call tree; C15.3 sorts use total keys on '
    'deterministic attributes. The editor generators iterate sets but their output is outside C15. Not decided: nothing '
    'beyond the stability of Python dict order and list.sort.'
)
ASSUMPTIONS = ['options given through BESPOKEASM_* environment variables (click auto_envvar_prefix) count as options, i.e. inputs', 'dict iteration order is insertion order; list.sort is stable', 'set-typedness is derived from annotations, constructors and constant folding']

_AMBIENT_CALLS = ('os.curdir', 'pathlib.Path.cwd', 'Path.cwd', 'os.path.expanduser', 'os.path.expandvars', 'os.getlogin', 'os.uname', 'os.cpu_count',
                  'os.getuid', 'os.path.getmtime', 'os.path.getctime', 'os.stat', 'sys.getfilesystemencoding', 'sys.platform', 'time.', 'random.', 'datetime.', 'uuid.', 'os.getenv', 'os.environ', 'os.listdir', 'os.scandir', 'os.getcwd', 'os.getpid',
                  'shutil.get_terminal_size', 'os.get_terminal_size', 'socket.', 'getpass.', 'platform.', 'locale.', 'glob.', 'tempfile.')


def _roots(ctx):
    return [ctx.repo.func('bespokeasm.assembler.engine.Assembler.__init__'), ctx.repo.func(ENGINE)]


def _reach(ctx):
    if not hasattr(ctx, '_c15_reach'):
        ctx._c15_reach = ctx.cg.reachable(_roots(ctx))
    return ctx._c15_reach


def _is_set_typed(ctx, fn, e, depth=0):
    if isinstance(e, ast.Name) and depth < 4:
        # a local is what its reaching definition at this point makes it (the same name may hold a list first and a set later)
        try:
            d0 = reaching_def(ctx, fn, e.id, e) if ctx.cfg(fn).has_node(e) else None
        except Exception:
            d0 = None
        if d0 is not None and d0 is not e:
            return _is_set_typed(ctx, fn, d0, depth + 1)
    env = ctx.types.env(fn)
    ts = ctx.types.type_of(e, env)
    if any(t[0] == 'set' for t in ts):
        return True
    v = ctx.fold.try_fold(e, fn.module, fn.cls)
    if isinstance(v, frozenset):
        return True
    if isinstance(e, (ast.Set, ast.SetComp)):
        return True
    if isinstance(e, ast.Call) and unparse(e.func) in ('set', 'frozenset'):
        return True
    if isinstance(e, ast.Attribute) and depth < 3:
        # values stored into the same attribute path anywhere in the repository (class-level caches etc.)
        path = unparse(e)
        for f2 in ctx.repo.all_functions():
            for n in ast.walk(f2.node):
                if isinstance(n, ast.Assign) and any(unparse(t) == path for t in n.targets):
                    if _is_set_typed(ctx, f2, n.value, depth + 1):
                        return True
    if isinstance(e, ast.Name):
        d = None
        try:
            d = reaching_def(ctx, fn, e.id, e) if ctx.cfg(fn).has_node(e) else None
        except Exception:
            d = None
        if d is not None and d is not e:
            return _is_set_typed(ctx, fn, d, depth + 1)
    return False


def _body_order_insensitive(ctx, fn, loop: ast.For) -> str | None:
    """Why the loop body cannot observe iteration order, or None."""
    body = loop.body
    # (a) every statement is `if <membership / comparison on the element>: abort`
    ok = True
    for st in body:
        if isinstance(st, ast.If) and body_only_aborts(st.body) and not st.orelse:
            continue
        ok = False
    if ok:
        return 'body only aborts on a per-element test'
    # (b) unique-hit-or-abort search: assigns a result once (guarded by `result is None`) and aborts on a second hit
    txt = unparse(loop)
    assigns = [n for n in ast.walk(loop) if isinstance(n, ast.Assign)]
    aborts = [n for n in ast.walk(loop) if isinstance(n, ast.stmt) and is_abort_stmt(n)]
    if aborts:
        names = {unparse(t) for a in assigns for t in a.targets}
        res = resolver(ctx, fn, inline=False)
        results = [a for a in assigns if isinstance(a.targets[0], ast.Name) and clause_implies(facts_at(ctx, fn, a, res), ('isnone', a.targets[0].id, True))]
        if len(results) == 1:
            r = results[0].targets[0].id
            for ab in aborts:
                fcl = filter_facts_at(ctx, fn, ab, res)
                lits = {l for c in fcl for l in c}
                if ('isnone', r, False) in lits:
                    extra = [l for l in lits if l != ('isnone', r, False) and not (l[0] == 'call' and 'exists' in l[1])]
                    if not extra and all(len(c) == 1 for c in fcl):
                        return f'unique hit or abort on `{r}` (a second hit aborts unconditionally)'
    return None


def c15_1(ctx):
    ctx.rule('C15.1', 'no set iteration order reaches an output', 3)
    reach = _reach(ctx)
    n_sets = 0
    for k, fn in sorted(reach.items()):
        pm = {id(ch): par for par in ast.walk(fn.node) for ch in ast.iter_child_nodes(par)}
        for node in ast.walk(fn.node):
            consumer = None
            src = None
            if isinstance(node, ast.For):
                src = node.iter
                consumer = 'for'
            elif isinstance(node, (ast.ListComp, ast.GeneratorExp)):
                # SetComp / DictComp results are themselves unordered; only ordered results can expose the order
                src = node.generators[0].iter
                consumer = 'comprehension'
            elif isinstance(node, ast.Call):
                f = unparse(node.func)
                if isinstance(node.func, ast.Attribute) and node.func.attr == 'join' and node.args:
                    src, consumer = node.args[0], 'join'
                elif f in ('list', 'tuple', 'enumerate', 'next', 'iter', 'zip', 'reversed') and node.args:
                    src, consumer = node.args[0], f
                elif isinstance(node.func, ast.Attribute) and node.func.attr == 'pop' and not node.args:
                    src, consumer = node.func.value, 'pop'
                elif f == 'sorted':
                    continue
            elif isinstance(node, ast.Starred) and isinstance(node.ctx, ast.Load):
                # `[first, *a_set]`, `(*a_set,)`, `f(*a_set)`: the elements are laid out in the set's iteration order
                par_ = pm.get(id(node))
                if isinstance(par_, (ast.List, ast.Tuple)) or (isinstance(par_, ast.Call) and unparse(par_.func) not in ('set', 'frozenset', 'sorted', 'max', 'min', 'sum', 'any', 'all', 'len')):
                    src, consumer = node.value, 'unpacking'
            elif isinstance(node, ast.Assign) and isinstance(node.targets[0], (ast.Tuple, ast.List)) and not isinstance(node.value, (ast.Tuple, ast.List)):
                src, consumer = node.value, 'unpacking'
            if src is None:
                continue
            if not _is_set_typed(ctx, fn, src):
                continue
            n_sets += 1
            key = f'set-order:{ctx.short(fn)}:{consumer}:{unparse(src)[:40]}'
            if consumer == 'for' and isinstance(node, ast.For):
                why = _body_order_insensitive(ctx, fn, node)
                if why:
                    ctx.ok(key, fn.site(node), 'iteration over a set whose order cannot be observed', why)
                    continue
            if consumer == 'comprehension':
                par = pm.get(id(node))
                if isinstance(par, ast.Call) and unparse(par.func) in ('any', 'all', 'sum', 'set', 'frozenset', 'len', 'max', 'min', 'sorted'):
                    ctx.ok(key, fn.site(node), 'comprehension over a set consumed by an order-insensitive aggregate', unparse(par.func))
                    continue
                ctx.refute(key, fn.site(node), 'no set iteration order reaches an order-sensitive consumer',
                           f'ordered comprehension over the set {unparse(src)}: its order follows the hash seed')
                continue
            if consumer in ('list', 'tuple') and False:
                pass
            ctx.refute(key, fn.site(node), 'no set iteration order reaches an order-sensitive consumer',
                       f'{consumer} over the set-typed value {unparse(src)}: its order follows the hash seed')
    ctx.ok('set-order:scanned', '-', 'set-typed consumers on the assembly call tree were inspected', f'{len(reach)} functions, {n_sets} set consumers')
    # the one search over include directories is order-free
    lf = ctx.repo.func(AF + '._locate_filename')
    loops = [l for l in walk_no_nested(lf.node) if isinstance(l, ast.For) and unparse(l.iter) == lf.call_params[1].arg]
    ok = len(loops) == 1
    why = None
    if ok:
        why = _body_order_insensitive(ctx, lf, loops[0])
    ctx.check(ok and why is not None, 'include-search:order-free', lf.site(loops[0]) if loops else lf.site(),
              'the include search returns a file only if exactly one search directory holds it (any second hit aborts), so directory order cannot matter',
              why or 'a second hit does not always abort: which directory wins depends on the order the directories are visited')
    # the mnemonic alternation is built from the instruction dictionary's key order
    om = ctx.repo.func('bespokeasm.assembler.model.AssemblerModel.operation_mnemonics')
    rr = returns(om)
    ctx.check(len(rr) == 1 and unparse(rr[0].value) in ('list(self._instructions.keys())', 'list(self._instructions)', '[*self._instructions]'), 'mnemonics:definition-order', om.site(),
              'operation_mnemonics lists the mnemonics in definition (dict insertion) order', '; '.join(unparse(r) for r in rr))


def c15_2(ctx):
    ctx.rule('C15.2', 'no ambient input on the assembly call tree', 1)
    reach = _reach(ctx)
    bad = 0
    for k, fn in sorted(reach.items()):
        for node in ast.walk(fn.node):
            txt = None
            if isinstance(node, ast.Call):
                t = unparse(node.func)
                if t in ('id', 'hash', 'input') or any(t.startswith(a) for a in _AMBIENT_CALLS):
                    txt = t + '(...)'
                elif t in ('os.path.relpath', 'relpath') and len(node.args) < 2 and not any(k.arg == 'start' for k in node.keywords):
                    txt = t + '(<no start>): relative to the working directory'
            elif isinstance(node, ast.Attribute) and unparse(node) in ('os.environ', 'sys.argv', 'sys.flags'):
                txt = unparse(node)
            if txt:
                bad += 1
                ctx.refute(f'ambient:{ctx.short(fn)}:{txt}', fn.site(node), 'outputs depend only on the inputs (sources, ISA definition, options)',
                           f'{txt} is read while assembling / printing')
    ctx.ok('ambient:scanned', '-', 'the assembly call tree was scanned for ambient reads', f'{len(reach)} functions, {bad} findings')


def c15_3(ctx):
    ctx.rule('C15.3', 'sorts use total keys on deterministic attributes', 3)
    reach = _reach(ctx)
    n = 0
    for k, fn in sorted(reach.items()):
        for c in ast.walk(fn.node):
            if isinstance(c, ast.Call) and ((isinstance(c.func, ast.Attribute) and c.func.attr == 'sort') or unparse(c.func) == 'sorted'):
                n += 1
                key = next((kw.value for kw in c.keywords if kw.arg == 'key'), None)
                kt = unparse(key) if key is not None else None
                bad = kt is not None and any(x in kt for x in ('id(', 'hash(', 'random', 'time'))
                ctx.check(not bad, f'sort:{ctx.short(fn)}:{n}', fn.site(c), 'the sort key is a deterministic attribute', f'key {kt}')
    if n < 3:
        ctx.err('sort:inventory', '-', 'at least 3 sorts on the call tree', f'{n}')


def c15_dirs(ctx):
    """Independence from the order of -I options rests on the include-directory handling C17 checks."""
    from rules.c17 import c17_6
    c17_6(ctx)


def c15_state(ctx):
    """Per-statement / per-lookup properties presuppose that nothing is remembered between statements beyond the reviewed state."""
    from rules.shared import state_discipline
    state_discipline(ctx, ('bespokeasm.assembler', 'bespokeasm.expression', 'bespokeasm.utilities'))


RULES = [c15_1, c15_2, c15_3, c15_dirs, c15_state]

_M = 'assembler/model/__init__.py'
MUTANTS = [
    V('c15-listing-relpath', 'assembler/pretty_printer/listing.py', "        output.write(f'\\n\\nFile: {filename}\\n')", "        import os\n        output.write(f'\\n\\nFile: {os.path.relpath(filename)}\\n')", 'C15.2'),
    V('c15-dedup-keeps-spelling', 'assembler/engine.py', "                deduplicated_dirs.append(left_path)", "                deduplicated_dirs.append(include_dirs[i])", 'C17.6'),
    V('c15-class-cache-frozenset', 'assembler/line_object/instruction_line.py', "instructions_regex = '\\\\b' + '\\\\b|\\\\b'.join(isa_model.operation_mnemonics) + '\\\\b'",
      "InstructionLine._KNOWN = frozenset(isa_model.operation_mnemonics)\n            instructions_regex = '\\\\b' + '\\\\b|\\\\b'.join(InstructionLine._KNOWN) + '\\\\b'", 'C15.1'),
    V('c15-mnemonics-from-set', _M, "        return list(self._instructions.keys())", "        return list(set(self._instructions.keys()))", 'C15.1'),
    V('c15-first-include-dir', 'assembler/assembly_file.py', '''        filepath = None
        for include_dir in include_paths:
            found_path = os.path.join(include_dir, filename)
            if os.path.exists(found_path):
                if filepath is None:
                    filepath = found_path
                else:
                    sys.exit(f'ERROR: {line_id} - include file "{filename}" can be found multiple times in include paths')
''', '''        filepath = None
        for include_dir in include_paths:
            found_path = os.path.join(include_dir, filename)
            if os.path.exists(found_path):
                filepath = found_path
                break
''', 'C15.1'),
    V('c15-identical-copy-ok', 'assembler/assembly_file.py', '''                if filepath is None:
                    filepath = found_path
                else:
                    sys.exit(''', '''                if filepath is None:
                    filepath = found_path
                elif os.path.getsize(filepath) == os.path.getsize(found_path):
                    continue
                else:
                    sys.exit(''', 'C15.1'),
    V('c15-sort-by-id', 'assembler/engine.py', "compilable_line_obs.sort(key=lambda x: x.address)", "compilable_line_obs.sort(key=lambda x: (x.address, id(x)))", 'C15.3'),
    V('c15-timestamp-listing', 'assembler/pretty_printer/listing.py', "        output.write(f'\\n\\nFile: {filename}\\n')", "        import time\n        output.write(f'\\n\\nFile: {filename} ({time.ctime()})\\n')", 'C15.2'),
    V('c15-terminal-width', 'assembler/pretty_printer/listing.py', "        self._main_filename = main_filename\n", "        self._main_filename = main_filename\n        import shutil\n        self._width = shutil.get_terminal_size(fallback=(0, 0)).columns\n", 'C15.2'),
    V('c15-registers-joined', 'assembler/line_object/instruction_line.py', "instructions_regex = '\\\\b' + '\\\\b|\\\\b'.join(isa_model.operation_mnemonics) + '\\\\b'", "instructions_regex = '\\\\b' + '\\\\b|\\\\b'.join(isa_model.instruction_mnemonics.union(isa_model.macro_mnemonics)) + '\\\\b'", 'C15.1'),
    V('c15-env-fill', 'assembler/engine.py', "        self._binary_fill_value = binary_fill_value & 0xff", "        self._binary_fill_value = int(os.environ.get('BESPOKEASM_FILL', binary_fill_value)) & 0xff", 'C15.2'),
]
TWINS = [
    V('c15-t-sorted-set', _M, "        return list(self._instructions.keys())", "        return list(self._instructions)"),
]
