"""C12 - configured operand value constraints are enforced, not silently bypassed."""
import ast

from engine.index import AnalysisError
from engine.helpers import (resolver, facts_at, filter_facts_at, lit_cmp, describe_facts, unparse, walk_no_nested, returns,
                            deref, body_only_aborts, calls_to, reaching_def, self_attr_stores, isnone_side, is_abort_stmt, all_paths_imply)
from engine.lin import clause_implies, to_lin
from engine.types import bind_args
from engine.selftest import V

PARTS = 'bespokeasm.assembler.bytecode.parts'
REL = 'bespokeasm.assembler.model.operand.types.relative_address'
ADDR = 'bespokeasm.assembler.model.operand.types.address'
PB = 'bespokeasm.assembler.bytecode.packed_bits.PackedBits'
T = 'bespokeasm.assembler.model.operand.types.'

EXPLANATION = (
    'Static rules over the validating byte code parts, the operand types that build them and the packer. Decided: C12.1 '
    'in each validating part the returned value is dominated by its aborts in canonical form: min/max (strict), memory zone '
    'bounds, enumeration membership then mapped value, relative offset = target - address (minus size - 1 when measured '
    'from the instruction end, applied before the bounds), sliced address MSB equality with mask and both shifts of the '
    'same width; C12.2 each operand type passes its own configured constraint into the matching parameter and the '
    'accessors read the matching configuration keys; C12.3 between evaluation and packing there is an abort whose bounds '
    'are powers of two in the field\'s bit size for both signs; C12.4 OverflowError from packing becomes an exit. Not '
    'decided: boundary behaviour over all values and widths.'
)
ASSUMPTIONS = ['guards are compared in canonical linear form (x > max == x - max - 1 >= 0)', 'an uncaught ValueError ends the run (rejection)']


def _guard_pair(ctx, fn, ret, value, lo, hi, key, lo_none=None, hi_none=None):
    res = resolver(ctx, fn, inline=False)
    # the validated variable must not change between its validation and the return
    g = ctx.cfg(fn)
    tests = [n for n in g.nodes if n.kind == 'test' and n.expr is not None and any(
        isinstance(x, ast.Name) and x.id == value for x in ast.walk(n.expr)) and any(
        isinstance(x, ast.Compare) and not isinstance(x.ops[0], (ast.Is, ast.IsNot)) and any(isinstance(y, ast.Name) and y.id == value for y in ast.walk(x)) for x in ast.walk(n.expr))]
    writes = [n for n in g.nodes if n.kind == 'stmt' and isinstance(n.stmt, (ast.Assign, ast.AugAssign, ast.AnnAssign)) and any(
        isinstance(t, ast.Name) and t.id == value for t in (n.stmt.targets if isinstance(n.stmt, ast.Assign) else [n.stmt.target]))]
    rn = g.node_of(ret)
    late = [w for w in writes if any(g.reaches(t.id, w.id) for t in tests) and g.reaches(w.id, rn)]
    ctx.check(not late, f'{key}:unchanged-after-validation', fn.site(late[0].stmt) if late else fn.site(ret),
              f'the value that was validated is the value returned', '; '.join(unparse(w.stmt) for w in late) + ' modifies it after the bounds were tested')
    for name, text, none_atom in ((f'{key}:upper', f'{value} <= {hi}', hi_none), (f'{key}:lower', f'{value} >= {lo}', lo_none)):
        lit = lit_cmp(ctx, fn, text, res)
        side = (lambda l, a=none_atom: l == ('isnone', a, True)) if none_atom else (lambda l: False)
        ok, why = all_paths_imply(ctx, fn, ret, lit, side, res)
        ctx.check(ok, name, fn.site(ret), f'the value is returned only if {text}' + (f' (or {none_atom} is None)' if none_atom else ''), why)


def c12_1(ctx):
    ctx.rule('C12.1', 'validating parts: returned value dominated by its aborts', 12)
    # min / max
    f = ctx.repo.func(PARTS + '.ExpressionByteCodePartWithValidation.get_value')
    rr = [r for r in returns(f) if r.value is not None]
    vs = {r.value.id if isinstance(r.value, ast.Name) else None for r in rr}
    if len(vs) != 1 or None in vs:
        raise AnalysisError('WithValidation.get_value: every return is expected to return the one checked value')
    v = vs.pop()
    for r in rr:
        d = reaching_def(ctx, f, v, r)
        ctx.check(d is not None and unparse(d).startswith('super().get_value('), 'minmax:value-is-expression', f.site(r), 'the checked value is the expression value', unparse(d) if d is not None else 'reassigned')
        _guard_pair(ctx, f, r, v, 'self._min', 'self._max', 'minmax', 'self._min', 'self._max')
    # memory zone
    f = ctx.repo.func(PARTS + '.ExpressionByteCodePartInMemoryZone.get_value')
    rr = [r for r in returns(f) if r.value is not None]
    vs = {r.value.id if isinstance(r.value, ast.Name) else None for r in rr}
    if len(vs) != 1 or None in vs:
        raise AnalysisError('InMemoryZone.get_value: every return is expected to return the one checked value')
    v = vs.pop()
    for r in rr:
        _guard_pair(ctx, f, r, v, 'self._memzone.start', 'self._memzone.end', 'zone', 'self._memzone', 'self._memzone')
    # enumeration
    f = ctx.repo.func(PARTS + '.ExpressionEnumerationByteCodePart.get_value')
    res = resolver(ctx, f, inline=False)
    rr = [r for r in returns(f) if r.value is not None]
    ok = len(rr) == 1 and isinstance(rr[0].value, ast.Subscript) and unparse(rr[0].value.value) == 'self._value_dict'
    if ok:
        k = unparse(rr[0].value.slice)
        cl = facts_at(ctx, f, rr[0], res)
        ok = clause_implies(cl, lit_cmp(ctx, f, f'{k} in self._value_dict', res))
    ctx.check(ok, 'enum:member-then-mapped', f.site(), 'a value outside the enumeration is rejected; a member yields its mapped value', '; '.join(unparse(r) for r in rr))
    # relative address
    f = ctx.repo.func(REL + '.RelativeAddressByteCodePart.get_value')
    res = resolver(ctx, f, inline=False)
    g = ctx.cfg(f)
    rr = [r for r in returns(f) if r.value is not None]
    if len(rr) != 1 or not isinstance(rr[0].value, ast.Name):
        # the adjustment applied in a return expression: every test of the offset has then seen the unadjusted value
        late_adj = [r for r in rr if isinstance(r.value, ast.BinOp) and isinstance(r.value.op, ast.Sub) and isinstance(r.value.left, ast.Name)
                    and 'instruction_size' in unparse(r.value.right)]
        if late_adj:
            rv0 = late_adj[0].value.left.id
            tests = [n for n in g.nodes if n.kind == 'test' and n.expr is not None and rv0 in unparse(n.expr) and ('min' in unparse(n.expr) or 'max' in unparse(n.expr))]
            if tests and all(g.reaches(t.id, g.node_of(late_adj[0])) for t in tests):
                ctx.refute('relative:bounds-after-adjustment', f.site(late_adj[0]), 'the min/max bounds apply to the adjusted offset',
                           f'the from-end adjustment is made in `{unparse(late_adj[0])}`, after the bounds were tested on the unadjusted offset: '
                           + '; '.join(unparse(t.expr) for t in tests))
                return
        raise AnalysisError('RelativeAddress.get_value: single `return <offset>` expected')
    rv = rr[0].value.id
    defs = [n for n in walk_no_nested(f.node) if isinstance(n, ast.Assign) and unparse(n.targets[0]) == rv]
    ok = len(defs) == 1 and to_lin(defs[0].value, res).key() == to_lin(ast.parse(f'{unparse(defs[0].value.left) if isinstance(defs[0].value, ast.BinOp) else "x"} - instruction_address', mode='eval').body, res).key()
    ev = deref(ctx, f, defs[0].value.left, defs[0]) if ok else None
    ok = ok and isinstance(ev, ast.Call) and unparse(ev.func) == 'super().get_value'
    ctx.check(ok, 'relative:offset=target-address', f.site(defs[0]) if defs else f.site(), 'the offset is the target value minus the instruction address', '; '.join(unparse(d) for d in defs))
    adj = [n for n in walk_no_nested(f.node) if isinstance(n, ast.AugAssign) and unparse(n.target) == rv]
    ok = len(adj) == 1 and isinstance(adj[0].op, ast.Sub) and to_lin(adj[0].value, res).key() == to_lin(ast.parse('instruction_size - 1', mode='eval').body, res).key()
    if ok:
        cl = filter_facts_at(ctx, f, adj[0], res)
        ok = cl == [frozenset({('truthy', 'self._offset_from_instruction_end', True)})]
    ctx.check(ok, 'relative:from-end-adjustment', f.site(adj[0]) if adj else f.site(), 'measured from the last byte (minus size - 1) exactly when so configured',
              '; '.join(unparse(a) for a in adj) or 'no adjustment')
    if adj:
        tests = [n for n in g.nodes if n.kind == 'test' and n.expr is not None and rv in unparse(n.expr)]
        late = [t for t in tests if g.reaches(t.id, g.node_of(adj[0]))]
        ctx.check(not late, 'relative:bounds-after-adjustment', f.site(adj[0]), 'the min/max bounds apply to the adjusted offset',
                  'the bounds are tested before the from-end adjustment is applied: ' + '; '.join(unparse(t.expr) for t in late))
    _guard_pair(ctx, f, rr[0], rv, 'self._min_relative_value', 'self._max_relative_value', 'relative', 'self._min_relative_value', 'self._max_relative_value')
    # sliced address
    f = ctx.repo.func(ADDR + '.AddressByteCodePart.get_value')
    res = resolver(ctx, f, inline=True)
    rz = resolver(ctx, f, inline=False)
    stores = [n for n in walk_no_nested(f.node) if isinstance(n, ast.Assign) and unparse(n.targets[0]) == 'final_value']
    sliced = [n for n in stores if '&' in unparse(n.value)]
    ok = len(sliced) == 1
    if ok:
        n = sliced[0]
        cl = facts_at(ctx, f, n, rz)
        flags = {l for c in cl if len(c) == 1 for l in c}
        # sliced exactly when slice_lsb is configured - whether or not the high bits are also compared
        flags = {l for l in flags if l[0] != 'isnone'}       # (the guard that an instruction address was passed at all)
        ok = flags == {('truthy', 'self._is_lsb_bytes', True)} and all(len(c) == 1 for c in cl)
        m = n.value
        mask = m.right if isinstance(m, ast.BinOp) else None
        ok = ok and mask is not None and to_lin(mask, res).key() == to_lin(ast.parse('(1 << self.value_size) - 1', mode='eval').body, res).key()
    ctx.check(ok, 'slice:mask-width', f.site(sliced[0]) if sliced else f.site(),
              'an address configured with slice_lsb keeps exactly its low value_size bits (with or without match_address_msb)',
              '; '.join(unparse(s) for s in sliced) + (f' under {describe_facts(facts_at(ctx, f, sliced[0], rz))}' if len(sliced) == 1 else ''))
    raises = [n for n in walk_no_nested(f.node) if isinstance(n, ast.Raise) or (isinstance(n, ast.Expr) and 'sys.exit' in unparse(n))]
    msb_ok = False
    detail = ''
    for r in raises:
        cl = facts_at(ctx, f, r, res)
        want = lit_cmp(ctx, f, '(instruction_address >> self.value_size) != (value >> self.value_size)', res)
        if any(c == frozenset({want}) for c in cl) and any(c == frozenset({('truthy', 'self._match_address_msb', True)}) for c in facts_at(ctx, f, r, rz)):
            msb_ok = True
        detail = describe_facts(cl)
    ctx.check(msb_ok, 'slice:msb-equality-same-width', f.site(), 'the bits above the slice (address >> value_size) must equal those of the instruction address, else rejected',
              f'abort conditions found: {detail}')


def c12_2(ctx):
    ctx.rule('C12.2', 'each operand type passes its own constraint into the matching parameter', 12)
    def site_args(fn_q, cls_name, init_q):
        fn = ctx.repo.func(fn_q)
        init = ctx.repo.func(init_q)
        calls_ = [c for c in ast.walk(fn.node) if isinstance(c, ast.Call) and unparse(c.func) == cls_name]
        if not calls_:
            raise AnalysisError(f'{fn_q} no longer constructs {cls_name}')
        return fn, [(c, bind_args(c, init)) for c in calls_]
    fn, sites = site_args(T + 'numeric_bytecode.NumericBytecode.parse_operand', 'ExpressionByteCodePartWithValidation', PARTS + '.ExpressionByteCodePartWithValidation.__init__')
    for c, b in sites:
        ok = unparse(b.get('max_value')) == 'self.bytecode_max' and unparse(b.get('min_value')) == 'self.bytecode_min' and unparse(b.get('value_expression')) == 'operand'
        ctx.check(ok, 'prov:numeric_bytecode:max-min', fn.site(c), 'max_value <- bytecode_max, min_value <- bytecode_min', f'max={unparse(b.get("max_value"))} min={unparse(b.get("min_value"))}')
    fn, sites = site_args(T + 'relative_address.RelativeAddressOperand.parse_operand', 'RelativeAddressByteCodePart', REL + '.RelativeAddressByteCodePart.__init__')
    for c, b in sites:
        ok = unparse(b.get('min_relative_value')) == 'self.min_offset' and unparse(b.get('max_relative_value')) == 'self.max_offset' \
            and unparse(b.get('memzone')) == 'memzone_manager.global_zone' and unparse(b.get('offset_from_instruction_end')) == 'self.offset_from_instruction_end'
        ctx.check(ok, 'prov:relative_address', fn.site(c), 'min <- min_offset, max <- max_offset, zone <- GLOBAL, from-end flag <- offset_from_instruction_end',
                  ', '.join(f'{k}={unparse(v)}' for k, v in b.items() if k in ('min_relative_value', 'max_relative_value', 'memzone', 'offset_from_instruction_end')))
    ri = ctx.repo.func(REL + '.RelativeAddressByteCodePart.__init__')
    for attr, p in (('_min_relative_value', 'min_relative_value'), ('_max_relative_value', 'max_relative_value'), ('_offset_from_instruction_end', 'offset_from_instruction_end')):
        st = self_attr_stores(ri.node, attr)
        ctx.check(len(st) == 1 and unparse(st[0][2]) == p, f'prov:relative:store:{attr}', ri.site(), f'self.{attr} <- {p}', '; '.join(unparse(s[0]) for s in st))
    vi = ctx.repo.func(PARTS + '.ExpressionByteCodePartWithValidation.__init__')
    for attr, p in (('_max', 'max_value'), ('_min', 'min_value')):
        st = self_attr_stores(vi.node, attr)
        ctx.check(len(st) == 1 and unparse(st[0][2]) == p, f'prov:minmax:store:{attr}', vi.site(), f'self.{attr} <- {p}', '; '.join(unparse(s[0]) for s in st))
    fn, sites = site_args(T + 'address.AddressOperand._parse_bytecode_parts', 'AddressByteCodePart', ADDR + '.AddressByteCodePart.__init__')
    for c, b in sites:
        ok = unparse(b.get('memzone')) == 'self.valid_memory_zone(memzone_manager)' and unparse(b.get('is_lsb_bytes')) == 'self.does_lsb_slice' \
            and unparse(b.get('match_address_msb')) == 'self.match_address_msb'
        ctx.check(ok, 'prov:address', fn.site(c), 'zone <- valid_memory_zone, slice flag <- does_lsb_slice, msb flag <- match_address_msb', unparse(c)[:160])
    fn, sites = site_args(T + 'numeric_expression.NumericExpressionOperand._parse_bytecode_parts', 'ExpressionByteCodePartInMemoryZone', PARTS + '.ExpressionByteCodePartInMemoryZone.__init__')
    res = resolver(ctx, fn, inline=False)
    for c, b in sites:
        cl = facts_at(ctx, fn, c, res)
        ok = unparse(b.get('memzone')) == 'memzone_manager.global_zone' and any(
            len(x) == 1 and next(iter(x))[0] == 'truthy' and 'enforce_argument_valid_address' in next(iter(x))[1] and next(iter(x))[-1] for x in cl)
        ctx.check(ok, 'prov:numeric:valid_address', fn.site(c), 'an operand flagged valid_address is checked against the GLOBAL zone', f'{unparse(b.get("memzone"))} under {describe_facts(cl)}')
    acc = {
        T + 'numeric_bytecode.NumericBytecode.bytecode_max': "self._config['bytecode']['max']",
        T + 'numeric_bytecode.NumericBytecode.bytecode_min': "self._config['bytecode']['min']",
        T + 'relative_address.RelativeAddressOperand.max_offset': "self.config['argument'].get('max', None)",
        T + 'relative_address.RelativeAddressOperand.min_offset': "self.config['argument'].get('min', None)",
        T + 'relative_address.RelativeAddressOperand.offset_from_instruction_end': "self.config.get('offset_from_instruction_end', False)",
        T + 'numeric_expression.NumericExpressionOperand.enforce_argument_valid_address': "self.config['argument'].get('valid_address', False)",
        T + 'address.AddressOperand.does_lsb_slice': "self.config['argument'].get('slice_lsb', False)",
    }
    for q, want in acc.items():
        f = ctx.repo.func(q)
        vals = [unparse(r.value) for r in returns(f)]
        ctx.check(vals == [want], f'accessor:{f.cls.name}.{f.name}', f.site(), f'{f.name} reads {want}', str(vals))
    vz = ctx.repo.func(T + 'address.AddressOperand.valid_memory_zone')
    zn = [n for n in ast.walk(vz.node) if isinstance(n, ast.Assign) and unparse(n.targets[0]) == 'zone_name']
    ok = len(zn) == 1 and unparse(zn[0].value) == "self.config['argument'].get('memory_zone', GLOBAL_ZONE_NAME)"
    ctx.check(ok, 'accessor:AddressOperand.valid_memory_zone', vz.site(), 'the address zone is argument.memory_zone (default GLOBAL); unknown zone raises', '; '.join(unparse(z) for z in zn))
    ae = ctx.repo.cls(T + 'address.AddressOperand').lookup('enforce_argument_valid_address')
    rr = returns(ae) if ae is not None else []
    ctx.check(len(rr) == 1 and unparse(rr[0].value) == 'True', 'accessor:AddressOperand.enforce', ae.site() if ae is not None else vz.site(),
              'address operands always validate (whatever `valid_address` says or omits)', '; '.join(unparse(r) for r in rr) + (f' (inherited from {ae.cls.name})' if ae is not None and ae.cls.name != 'AddressOperand' else ''))
    none_rets = [r for r in returns(vz) if r.value is None or (isinstance(r.value, ast.Constant) and r.value.value is None)]
    ctx.check(not none_rets, 'accessor:AddressOperand.valid_memory_zone:always-a-zone', vz.site(none_rets[0]) if none_rets else vz.site(),
              'valid_memory_zone yields a zone or raises: "no zone" would switch the range check off', '; '.join(unparse(r) for r in none_rets))
    # enumeration dictionaries
    ne = ctx.repo.func(T + 'numeric_enumeration.NumericEnumerationOperand.parse_operand')
    ei = ctx.repo.func(PARTS + '.ExpressionEnumerationByteCodePart.__init__')
    for c in [c for c in ast.walk(ne.node) if isinstance(c, ast.Call) and unparse(c.func) == 'ExpressionEnumerationByteCodePart']:
        b = bind_args(c, ei)
        d = unparse(b.get('value_dict'))
        size = unparse(b.get('value_size'))
        ok = (d == 'self.bytecode_value_dict' and size == 'self.bytecode_size') or (d == 'self.argument_value_dict' and size == 'self.argument_size')
        ctx.check(ok, f'prov:numeric_enumeration:{d}', ne.site(c), 'the code part uses the bytecode dictionary, the argument part the argument dictionary', f'{d} with size {size}')


def c12_valid_address_sites(ctx):
    ctx.rule('C12.7', 'operand types that can be flagged valid_address build their argument in the one place that honours the flag', 1)
    ne = ctx.repo.cls(T + 'numeric_expression.NumericExpressionOperand')
    family = [ne] + ne.all_subclasses()
    n = 0
    for c in family:
        for name, f in c.methods.items():
            for call in ast.walk(f.node):
                if isinstance(call, ast.Call) and unparse(call.func) == 'ExpressionByteCodePart':
                    n += 1
                    ok = c is ne and name == '_parse_bytecode_parts'
                    if ok:
                        cl = facts_at(ctx, f, call, resolver(ctx, f, inline=False))
                        ok = any(len(x) == 1 and next(iter(x))[0] == 'truthy' and 'enforce_argument_valid_address' in next(iter(x))[1] and next(iter(x))[-1] is False for x in cl)
                    ctx.check(ok, f'prov:plain-argument-part:{c.name}.{name}', f.site(call),
                              'a numeric-expression operand (plain, indirect, deferred, address, ...) builds an unchecked argument part only in '
                              'NumericExpressionOperand._parse_bytecode_parts, in the branch where valid_address is not set',
                              f'{c.name}.{name} builds ExpressionByteCodePart itself: an operand flagged valid_address is no longer held to the GLOBAL zone there')
    if n < 1:
        ctx.err('prov:plain-argument-part', '-', 'at least one plain argument part construction in the family', str(n))


def c12_enum_keys(ctx):
    ctx.rule('C12.6', 'the members of a numeric enumeration are numbers in every definition format', 2)
    from engine.helpers import self_attr_stores
    ini = ctx.repo.func(T + 'numeric_enumeration.NumericEnumerationOperand.__init__')
    cls = ini.cls
    for attr, sec in (('_bytecode_dictionary', 'bytecode'), ('_argument_dictionary', 'argument')):
        st = [v for (_s, _t, v) in self_attr_stores(ini.node, attr) if v is not None and not (isinstance(v, ast.Constant) and v.value is None)]
        ok = len(st) == 1
        seen = '; '.join(unparse(v) for v in st)
        if ok:
            v = st[0]
            comp = v if isinstance(v, ast.DictComp) else None
            if isinstance(v, ast.Call) and isinstance(v.func, ast.Attribute) and isinstance(v.func.value, ast.Name) and v.func.value.id in ('self', 'cls', cls.name) \
                    and v.func.attr in cls.methods and len(v.args) == 1:
                h = cls.methods[v.func.attr]
                rr = [r for r in returns(h) if r.value is not None and not (isinstance(r.value, ast.Constant) and r.value.value is None)]
                comp = rr[0].value if len(rr) == 1 and isinstance(rr[0].value, ast.DictComp) else None
                src = v.args[0]
            else:
                src = comp.generators[0].iter if comp is not None else None
            ok = comp is not None and len(comp.generators) == 1 and not comp.generators[0].ifs and f"['{sec}']" in unparse(src) and 'value_dict' in unparse(src)
            if ok:
                kv = comp.generators[0].target
                kname = unparse(kv.elts[0]) if isinstance(kv, ast.Tuple) and len(kv.elts) == 2 else None
                # string keys are converted with int(); the value is kept
                ok = kname is not None and any(isinstance(c, ast.Call) and unparse(c.func) == 'int' and c.args and unparse(c.args[0]) == kname for c in ast.walk(comp.key)) \
                    and unparse(comp.value) == unparse(kv.elts[1])
        ctx.check(ok, f'enum:keys-are-numbers:{sec}', ini.site(), 'the keys of the value dictionary are read as integers (a JSON definition can only write them as strings)',
                  f'{attr} = {seen}: with string keys no integer operand value is ever a member')


def c12_3(ctx):
    ctx.rule('C12.3', 'bit-width gate: an abort bounded by powers of two in the field\'s bit size, for both signs', 2)
    ab = ctx.repo.func(PB + '.append_bits')
    vp, bp = ab.call_params[0].arg, ab.call_params[1].arg
    res = resolver(ctx, ab, inline=True)
    tb = [c for c in ast.walk(ab.node) if isinstance(c, ast.Call) and isinstance(c.func, ast.Attribute) and c.func.attr == 'to_bytes']
    if len(tb) != 1:
        raise AnalysisError('append_bits: expected one to_bytes call')
    cl = facts_at(ctx, ab, tb[0], res)
    up = lit_cmp(ctx, ab, f'{vp} <= (1 << {bp}) - 1', res)
    ok_up = any(c == frozenset({up}) for c in cl)
    ctx.check(ok_up, 'width:upper', ab.site(tb[0]), f'packing is reached only if value <= 2**bit_size - 1',
              f'facts before packing: {describe_facts(cl)} - the only remaining gate is int.to_bytes on whole bytes (200 fits a 3-bit field)')
    # lower bound: value >= -(2**(bit_size-1)) (possibly via a local / conditional for bit_size == 0)
    ok_lo = False
    lo1 = lit_cmp(ctx, ab, f'{vp} >= -(1 << ({bp} - 1))', res)
    if any(c == frozenset({lo1}) for c in cl):
        ok_lo = True
    else:
        r0 = resolver(ctx, ab, inline=False)
        cl0 = facts_at(ctx, ab, tb[0], r0)
        for c in cl0:
            if len(c) == 1:
                l = next(iter(c))
                if l[0] == 'ge':
                    terms = dict(l[1][0])
                    if terms.get(vp) == 1 and l[1][1] == 0 and len(terms) == 2:
                        other = next(k for k in terms if k != vp)
                        if terms[other] == -1:
                            d = ab.node and reaching_def(ctx, ab, other, tb[0])
                            if isinstance(d, ast.IfExp):
                                body_ok = to_lin(d.body, res).key() == to_lin(ast.parse(f'-(1 << ({bp} - 1))', mode='eval').body, res).key()
                                else_ok = to_lin(d.orelse, res).key() == ((), 0)
                                ok_lo = body_ok and else_ok
    ctx.check(ok_lo, 'width:lower', ab.site(tb[0]), 'packing is reached only if value >= -(2**(bit_size - 1)) (two\'s complement range)',
              f'facts before packing: {describe_facts(cl)}')


def c12_4(ctx):
    ctx.rule('C12.4', 'OverflowError from packing is turned into an exit', 1)
    gb = ctx.repo.func('bespokeasm.assembler.bytecode.assembled.AssembledInstruction.get_bytes')
    ab = [c for c in ast.walk(gb.node) if isinstance(c, ast.Call) and isinstance(c.func, ast.Attribute) and c.func.attr == 'append_bits']
    ok = False
    for c in ab:
        for t in ast.walk(gb.node):
            if isinstance(t, ast.Try) and any(x is c for b in t.body for x in ast.walk(b)):
                for h in t.handlers:
                    if h.type is not None and 'OverflowError' in unparse(h.type):
                        ok = body_only_aborts(h.body)
    uncaught = bool(ab) and not any(isinstance(t, ast.Try) for t in ast.walk(gb.node))
    ctx.check(ok or uncaught, 'overflow->exit', gb.site(ab[0]) if ab else gb.site(), 'a value its field cannot hold ends the run', 'the OverflowError handler does not abort')
    raises = [n for n in ast.walk(ctx.repo.func(PB + '.append_bits').node) if isinstance(n, ast.Raise)]
    ctx.check(all('OverflowError' in unparse(r) for r in raises), 'overflow:exception-type', ctx.repo.func(PB + '.append_bits').site(),
              'the width gate raises OverflowError (the type the caller turns into an exit)', '; '.join(unparse(r) for r in raises))


def c12_macro_steps(ctx):
    """Relative offsets are measured from the instruction's own address / last byte: inside a macro that is the step's
    address and size, which C10.1 establishes."""
    from rules.c10 import c10_1
    c10_1(ctx)


def c12_state(ctx):
    """Nothing is remembered between statements / files beyond the reviewed state (rules/shared.py STATE)."""
    from rules.shared import state_discipline
    state_discipline(ctx, ('bespokeasm.assembler.bytecode', 'bespokeasm.assembler.model.operand'))


def c12_paths(ctx):
    """A constraint is enforced where the value is computed: every byte-producing line must be generated (C02.3), and no operand
    may give a literal a value on a path of its own that skips the checked parts (C07.6)."""
    from rules.c02 import c02_3
    from rules.c07 import c07_who
    c02_3(ctx)
    c07_who(ctx)

def c12_macro_operands(ctx):
    ctx.rule('C12.5', 'the constraints configured for a macro\'s own operands are enforced like an instruction\'s', 3)
    mg = ctx.repo.func('bespokeasm.assembler.bytecode.generator.macro.MacroBytecodeGenerator.generate_variant_bytecode_parts')
    ci = ctx.repo.func('bespokeasm.assembler.bytecode.assembled.CompositeAssembledInstruction.__init__')
    cc = [c for c in ast.walk(mg.node) if isinstance(c, ast.Call) and unparse(c.func) == 'CompositeAssembledInstruction']
    pn = ci.call_params[2].arg if len(ci.call_params) > 2 else None
    ok = len(cc) == 1 and pn is not None
    detail = 'the composite is built without the macro operands\' parts'
    if ok:
        a = bind_args(cc[0], ci).get(pn)
        d = deref(ctx, mg, a, cc[0]) if a is not None else None
        txt = unparse(d) if d is not None else ''
        ok = d is not None and 'matched_operands.operands' in txt and '.bytecode' in txt and '.argument' in txt and isinstance(d, (ast.ListComp, ast.GeneratorExp))
        detail = txt[:160]
    ctx.check(ok, 'macro-operands:parts-handed-to-composite', mg.site(cc[0]) if cc else mg.site(),
              'the code and argument parts of every matched macro operand are handed to the composite instruction', detail)
    st = self_attr_stores(ci.node, '_operand_parts')
    ctx.check(len(st) == 1 and pn is not None and pn in unparse(st[0][2]), 'macro-operands:kept', ci.site(), 'the composite keeps those parts', '; '.join(unparse(x[0]) for x in st))
    gb = ctx.repo.func('bespokeasm.assembler.bytecode.assembled.CompositeAssembledInstruction.get_bytes')
    res = resolver(ctx, gb, inline=False)
    loops = [l for l in walk_no_nested(gb.node) if isinstance(l, ast.For) and unparse(l.iter) == 'self._operand_parts']
    ok = len(loops) == 1
    if ok:
        gv = [c for c in ast.walk(loops[0]) if isinstance(c, ast.Call) and isinstance(c.func, ast.Attribute) and c.func.attr == 'get_value' and unparse(c.func.value) == unparse(loops[0].target)]
        ok = len(gv) == 1 and filter_facts_at(ctx, gb, gv[0], res) == [] and [unparse(x) for x in gv[0].args[:2]] == [gb.call_params[0].arg, gb.call_params[1].arg]
        g = ctx.cfg(gb)
        ok = ok and all(g.dominates(g.node_of(loops[0]), g.node_of(r)) for r in returns(gb) if r.value is not None and not (isinstance(r.value, ast.Constant) and r.value.value is None))
    ctx.check(ok, 'macro-operands:evaluated', gb.site(loops[0]) if loops else gb.site(),
              'every kept part is evaluated (in the line\'s scope, at the macro\'s address) before bytes are returned: min/max, enumeration, zone and sliced-address checks fire',
              'the macro operands\' parts are never evaluated: `sh2 7` is accepted although the operand is restricted to {1, 2}')


RULES = [c12_1, c12_2, c12_3, c12_4, c12_macro_steps, c12_state, c12_paths, c12_macro_operands, c12_enum_keys, c12_valid_address_sites]

_P = 'assembler/bytecode/parts.py'
_R = 'assembler/model/operand/types/relative_address.py'
_A = 'assembler/model/operand/types/address.py'
_PB = 'assembler/bytecode/packed_bits.py'
MUTANTS = [
    V('c12-macro-operands-unchecked', 'assembler/bytecode/assembled.py', "        for part in self._operand_parts:\n            part.get_value(label_scope, instruction_address, self.byte_size)\n", "", 'C12.5'),
    V('c12-max-ge', _P, "if self._max is not None and value > self._max:", "if self._max is not None and value >= self._max:", 'C12.1'),
    V('c12-min-dropped', _P, "        if self._min is not None and value < self._min:\n            sys.exit(f'ERROR: {self.line_id} - operand value of {value} is less than minimum allowed of {self._min}')\n", "", 'C12.1'),
    V('c12-swap-max-min', 'assembler/model/operand/types/numeric_bytecode.py', "                self.bytecode_max,\n                self.bytecode_min,", "                self.bytecode_min,\n                self.bytecode_max,", 'C12.2'),
    V('c12-enum-default', _P, "        if value not in self._value_dict:\n            sys.exit(\n                f'ERROR: {self.line_id} - numeric expression value of {value} is '\n                f'not an allowed value for numeric enumeration.'\n            )\n        return self._value_dict[value]", "        return self._value_dict.get(value, value)", 'C12.1'),
    V('c12-rel-size', _R, "            relative_value -= instruction_size - 1", "            relative_value -= instruction_size", 'C12.1'),
    V('c12-rel-bounds-before-adjust', _R, '''        if self._offset_from_instruction_end:
            # minus one to account for the current address being 1 byte of instruction size
            relative_value -= instruction_size - 1
        if self._max_relative_value is not None and relative_value > self._max_relative_value:
            sys.exit(
                f'ERROR: {self.line_id} - Relative address offset is larger than configured '
                f'maximum value of {self._max_relative_value}'
            )
        if self._min_relative_value is not None and relative_value < self._min_relative_value:
            sys.exit(
                f'ERROR: {self.line_id} - Relative address offset is smaller than configured '
                f'minimum value of {self._min_relative_value}'
            )
''', '''        if self._max_relative_value is not None and relative_value > self._max_relative_value:
            sys.exit(
                f'ERROR: {self.line_id} - Relative address offset is larger than configured '
                f'maximum value of {self._max_relative_value}'
            )
        if self._min_relative_value is not None and relative_value < self._min_relative_value:
            sys.exit(
                f'ERROR: {self.line_id} - Relative address offset is smaller than configured '
                f'minimum value of {self._min_relative_value}'
            )
        if self._offset_from_instruction_end:
            # minus one to account for the current address being 1 byte of instruction size
            relative_value -= instruction_size - 1
''', 'C12.1'),
    V('c12-zone-end-plus1', _P, "            if value > self._memzone.end:", "            if value > self._memzone.end + 1:", 'C12.1'),
    V('c12-slice-shift-bytes', _A, "                shifted_address = instruction_address >> self.value_size\n                shifted_value = value >> self.value_size", "                shift = 8 * ((self.value_size + 7) // 8)\n                shifted_address = instruction_address >> shift\n                shifted_value = value >> shift", 'C12.1'),
    V('c12-slice-only-with-msb-match', _A, "        if self._is_lsb_bytes:\n", "        if self._is_lsb_bytes and self._match_address_msb:\n", 'C12.1'),
    V('c12-width-byte-granular', _PB, '''        if value > max_value or value < min_value:
            raise OverflowError(f'value {value} does not fit in {bit_size} bits')
''', '', 'C12.3'),
    V('c12-width-bit-length', _PB, '''        max_value = (1 << bit_size) - 1
        min_value = -(1 << (bit_size - 1)) if bit_size > 0 else 0
        if value > max_value or value < min_value:
            raise OverflowError(f'value {value} does not fit in {bit_size} bits')
''', '''        if value.bit_length() > bit_size:
            raise OverflowError(f'value {value} does not fit in {bit_size} bits')
''', 'C12.3'),
    V('c12-width-unsigned-only', _PB, "        min_value = -(1 << (bit_size - 1)) if bit_size > 0 else 0", "        min_value = -(1 << bit_size) if bit_size > 0 else 0", 'C12.3'),
    V('c12-overflow-swallowed', 'assembler/bytecode/assembled.py', '''            except OverflowError as ofe:
                sys.exit(
                    f'ERROR - {self.line_id}: Value {value} could not be converted byte code, possibly due to '
                    f'being to large for allotted bit size of {p.value_size} - {ofe}'
                )''', '''            except OverflowError as ofe:
                packed_bits.append_bits(value & ((1 << p.value_size) - 1), p.value_size, p.byte_align, p.endian)''', 'C12.4'),
    V('c12-valid-address-ignored', 'assembler/model/operand/types/numeric_expression.py', "        return self.config['argument'].get('valid_address', False)", "        return self.config.get('valid_address', False)", 'C12.2'),
    V('c12-rel-minmax-swapped', _R, "                self.min_offset,\n                self.max_offset,", "                self.max_offset,\n                self.min_offset,", 'C12.2'),
    V('c12-address-zone-global', _A, "            self.valid_memory_zone(memzone_manager),", "            memzone_manager.global_zone,", 'C12.2'),
]
MUTANTS += [
    V('c12-rel-wrap-negative', _R, "        return relative_value\n", "        if relative_value < 0:\n            relative_value &= (1 << self.value_size) - 1\n        return relative_value\n", 'C12.1'),
]
TWINS = [
    V('c12-t-flip', _P, "if self._max is not None and value > self._max:", "if self._max is not None and self._max < value:"),
    V('c12-t-pow', _PB, "        max_value = (1 << bit_size) - 1", "        max_value = 2 ** bit_size - 1"),
]
