"""C03 - the binary image is a faithful window onto the assembled memory map."""
import ast

from engine.index import AnalysisError
from engine.helpers import (resolver, facts_at, filter_facts_at, lit_cmp, describe_facts, calls_to, unparse,
                            walk_no_nested, deref, self_attr_stores, reaching_def, parent_map)
from engine.lin import to_lin, clause_implies
from engine.types import bind_args
from engine.selftest import V
from rules.c02 import second_pass_loop, ENGINE

EXPLANATION = (
    'Static rules over Assembler.assemble_bytecode, Assembler.__init__ and __main__.compile. Decided: C03.1 the only '
    'values that can reach the image buffer written to the output file are per-address bytes of LineWithBytes lines that '
    'are not muted, taken from the sorted list the second pass generated; C03.2 every other offset receives the fill '
    'value (masked to one byte at construction); C03.3 the buffer is filled one byte per address inside '
    'range(start, end + 1) - a bounded write: nothing can be appended outside the window and a line that straddles the '
    'start is reachable because the map is keyed per byte address; C03.4 the default end is the maximum byte address of '
    'that map; C03.5 loop bounds are inclusive [start, end]; C03.6 the command line options are wired to the matching '
    'constructor parameters (-s/-e/-f/-o), no value carrying one of the numeric options is tested by truthiness (address 0 and fill 0 are values) and only assemble_bytecode opens the output file. Not decided: byte-for-byte '
    'content for all programs (depends on C01/C11 arithmetic).'
)
ASSUMPTIONS = [
    'the image-emission idiom recognised is the per-address byte map; another shape is an analysis error unless it is the '
    'recognisably unbounded `extend(<whole line bytes>)` form, which is refuted',
    'the short option letters -s -e -f -o are the documented CLI (README / --help) and are a frozen table',
]


def _image_write(ctx, fn):
    """(with-node, buffer name) of `with open(self._output_file, 'wb') as f: f.write(<buffer>)`."""
    for w in walk_no_nested(fn.node):
        if isinstance(w, ast.With):
            for item in w.items:
                c = item.context_expr
                if isinstance(c, ast.Call) and unparse(c.func) == 'open' and c.args and unparse(c.args[0]) == 'self._output_file':
                    mode = c.args[1] if len(c.args) > 1 else next((k.value for k in c.keywords if k.arg == 'mode'), None)
                    if isinstance(mode, ast.Constant) and 'w' in str(mode.value):
                        f = unparse(item.optional_vars)
                        writes = [x for x in ast.walk(w) if isinstance(x, ast.Call) and unparse(x.func) == f'{f}.write']
                        if len(writes) == 1 and isinstance(writes[0].args[0], ast.Name):
                            return w, writes[0].args[0].id, mode
    raise AnalysisError('image write `with open(self._output_file, "wb")` not found in assemble_bytecode')


def _analyse(ctx):
    if hasattr(ctx, '_c03'):
        return ctx._c03
    fn = ctx.repo.func(ENGINE)
    w, buf, mode = _image_write(ctx, fn)
    muts = [c for c in walk_no_nested(fn.node) if isinstance(c, ast.Call) and isinstance(c.func, ast.Attribute)
            and unparse(c.func.value) == buf and c.func.attr in ('append', 'extend', 'insert', '__setitem__')]
    aug = [n for n in walk_no_nested(fn.node) if isinstance(n, ast.AugAssign) and unparse(n.target) == buf]
    ctx._c03 = (fn, w, buf, mode, muts, aug)
    return ctx._c03


def c03_1(ctx):
    ctx.rule('C03.1', 'only bytes of unmuted byte-producing lines reach the image', 4)
    fn, w, buf, mode, muts, aug = _analyse(ctx)
    g = ctx.cfg(fn)
    res = resolver(ctx, fn, inline=False)
    ctx.check(isinstance(mode, ast.Constant) and mode.value == 'wb', 'image:binary-mode', fn.site(w),
              'the image is written in binary mode', unparse(mode))
    for a in aug:
        ctx.err('image:buffer-mutation', fn.site(a), 'buffer mutated by append/extend calls', f'unrecognised mutation {unparse(a)}')
    if not muts:
        ctx.refute('image:filled', fn.site(w), 'the image buffer is filled before it is written', 'no append/extend on the buffer')
        return
    maps = set()
    for m in muts:
        arg = m.args[0] if m.args else None
        if m.func.attr == 'append' and isinstance(arg, ast.Call) and isinstance(arg.func, ast.Attribute) and arg.func.attr == 'get':
            maps.add(unparse(arg.func.value))
            ctx.ok('image:append-from-map', fn.site(m), 'image bytes are looked up per address in the byte map', unparse(m))
        elif m.func.attr == 'extend':
            ctx.refute('image:bounded-write', fn.site(m),
                       'every append to the image is one byte for one address inside the window',
                       f'{unparse(m)} appends a multi-byte payload that is not sliced by the window bounds '
                       '(bytes of a line straddling the window end are written outside it)',
                       witness={'program': '.org 2 / .4byte $11223344', 'window': '-s 0 -e 3'})
        else:
            ctx.err('image:append-form', fn.site(m), 'append of a byte-map lookup', f'unrecognised {unparse(m)}')
    for mp in sorted(maps):
        stores = [n for n in walk_no_nested(fn.node) if isinstance(n, ast.Assign) and any(
            isinstance(t, ast.Subscript) and unparse(t.value) == mp for t in n.targets)]
        others = [c for c in walk_no_nested(fn.node) if isinstance(c, ast.Call) and isinstance(c.func, ast.Attribute)
                  and unparse(c.func.value) == mp and c.func.attr in ('update', 'setdefault', '__setitem__', 'pop', 'clear')]
        for o in others:
            ctx.err('map:mutation', fn.site(o), 'byte map filled by subscript stores only', unparse(o))
        if not stores:
            ctx.refute('map:filled', fn.site(w), 'the byte map receives the bytes of the lines', 'no store into the byte map')
        l2 = second_pass_loop(ctx, fn)
        for st in stores:
            tgt = next(t for t in st.targets if isinstance(t, ast.Subscript))
            loops = g.loop_facts(g.node_of(st))
            # inner loop: for <off>, <byte> in enumerate(<bytes>) ; outer loop: for L in <sorted list>
            ok_shape = False
            detail = unparse(st)
            if len(loops) >= 2:
                outer, inner = loops[-2][0], loops[-1][0]
                L = unparse(outer.target)
                it = inner.iter
                if isinstance(it, ast.Call) and unparse(it.func) == 'enumerate' and len(it.args) == 1 \
                        and isinstance(inner.target, ast.Tuple) and len(inner.target.elts) == 2:
                    off, byte = (unparse(x) for x in inner.target.elts)
                    src = deref(ctx, fn, it.args[0], inner)
                    src_ok = isinstance(src, ast.Call) and unparse(src.func) == f'{L}.get_bytes' and not src.args
                    key_ok = to_lin(tgt.slice, res).key() == to_lin(ast.parse(f'{L}.address + {off}', mode='eval').body, res).key()
                    val_ok = unparse(st.value) == byte
                    ok_shape = src_ok and key_ok and val_ok
                    detail = f'key={unparse(tgt.slice)} value={unparse(st.value)} bytes={unparse(src)}'
                    ctx.check(unparse(outer.iter) == unparse(l2.iter), 'map:same-sorted-list', fn.site(outer),
                              'the image is built from the same line list the second pass generated', unparse(outer.iter))
                    fcl = filter_facts_at(ctx, fn, st, res)
                    lits = {l for c in fcl if len(c) == 1 for l in c}
                    muted_ok = any(l[0] == 'truthy' and l[1] in (f'{L}.is_muted', f'{L}._is_muted') and l[2] is False for l in lits)
                    type_ok = ('isinstance', L, 'LineWithBytes', True) in lits
                    extra = [l for c in fcl for l in c if not (l == ('isinstance', L, 'LineWithBytes', True)
                             or (l[0] == 'truthy' and 'is_muted' in l[1]) or (l[0] == 'truthy' and '_generate_binary' in l[1]))]
                    ctx.check(muted_ok, 'map:unmuted-only', fn.site(st), 'bytes of muted lines never reach the image',
                              f'selected by: {describe_facts(fcl)}')
                    ctx.check(type_ok and not extra and all(len(c) == 1 for c in fcl), 'map:every-unmuted-byte-line', fn.site(st),
                              'every unmuted byte-producing line contributes (no further filter)', f'selected by: {describe_facts(fcl)}')
            ctx.check(ok_shape, 'map:byte-at-own-address', fn.site(st),
                      'byte i of a line is stored at that line\'s address + i', detail)
    ctx._c03_maps = maps


def c03_2(ctx):
    ctx.rule('C03.2', 'fill is one byte, binary_fill_value & 0xff, and the only other thing appended', 2)
    fn, w, buf, mode, muts, aug = _analyse(ctx)
    for m in muts:
        arg = m.args[0] if m.args else None
        if m.func.attr == 'append' and isinstance(arg, ast.Call) and isinstance(arg.func, ast.Attribute) and arg.func.attr == 'get':
            dflt = arg.args[1] if len(arg.args) > 1 else None
            ctx.check(dflt is not None and unparse(dflt) == 'self._binary_fill_value', 'fill:default', fn.site(m),
                      'an address without an emitted byte receives the configured fill value', unparse(arg))
    init = ctx.repo.func('bespokeasm.assembler.engine.Assembler.__init__')
    sts = self_attr_stores(init.node, '_binary_fill_value')
    ok = len(sts) == 1 and isinstance(sts[0][2], ast.BinOp) and isinstance(sts[0][2].op, ast.BitAnd) and \
        {unparse(sts[0][2].left), unparse(sts[0][2].right)} in ({'binary_fill_value', '0xff'}, {'binary_fill_value', '255'})
    ctx.check(ok, 'fill:one-byte', init.site(sts[0][0]) if sts else init.site(), 'the fill value is masked to one byte',
              '; '.join(unparse(s[0]) for s in sts) or 'no store')


def c03_3(ctx):
    ctx.rule('C03.3', 'bounded write: one byte per address of range(start, end + 1)', 2)
    fn, w, buf, mode, muts, aug = _analyse(ctx)
    g = ctx.cfg(fn)
    res = resolver(ctx, fn, inline=False)
    for m in muts:
        if m.func.attr != 'append':
            continue
        loops = g.loop_facts(g.node_of(m))
        if not loops:
            ctx.refute('window:append-in-range-loop', fn.site(m), 'appends happen once per address of the window', 'append outside any loop')
            continue
        loop = loops[-1][0]
        it = loop.iter
        ok = isinstance(it, ast.Call) and unparse(it.func) == 'range' and len(it.args) == 2 and isinstance(loop.target, ast.Name)
        if not ok:
            ctx.err('window:append-in-range-loop', fn.site(loop), 'window loop is `for addr in range(start, end + 1)`', unparse(it))
            continue
        addr = loop.target.id
        arg = m.args[0]
        key = arg.args[0] if isinstance(arg, ast.Call) and arg.args else None
        ctx.check(key is not None and unparse(key) == addr, 'window:lookup-by-address', fn.site(m),
                  'the byte appended for an address is the one stored at that address', unparse(arg))
        # exactly one append per iteration, unconditional
        head = g.node_of(loop)
        body_entry = next(s for s in g.succ[head] if g.nodes[s].kind == 'branch' and g.nodes[s].polarity)
        ctx.check(g.all_paths_through(body_entry, head, {g.node_of(m)}) and len([x for x in muts if any(s is x for s in ast.walk(loop))]) == 1,
                  'window:one-byte-per-address', fn.site(m), 'every address of the window receives exactly one byte',
                  'an iteration can skip the append or append twice')
        ctx._c03_loop = loop
    # nothing is appended to the buffer outside that loop
    for m in muts:
        lp = getattr(ctx, '_c03_loop', None)
        if lp is not None and not any(s is m for s in ast.walk(lp)):
            ctx.refute('window:nothing-outside', fn.site(m), 'the buffer receives nothing outside the window loop', unparse(m))


def c03_4(ctx):
    ctx.rule('C03.4', 'window bounds: [binary_start, end], default end = highest emitted byte address', 3)
    fn, w, buf, mode, muts, aug = _analyse(ctx)
    lp = getattr(ctx, '_c03_loop', None)
    if lp is None:
        raise AnalysisError('window loop not identified (C03.3)')
    res = resolver(ctx, fn, inline=False)
    start, stop = lp.iter.args
    ctx.check(unparse(start) == 'self._binary_start', 'bounds:start', fn.site(lp), 'the window starts at binary_start', unparse(start))
    # stop = END + 1
    stop_lin = to_lin(stop, res)
    end_names = [a for a in stop_lin.atoms()]
    ok = len(end_names) == 1 and stop_lin.const == 1 and stop_lin.terms[end_names[0]] == 1
    ctx.check(ok, 'bounds:inclusive-end', fn.site(lp), 'the window loop is range(start, end + 1): the end address is included',
              unparse(stop))
    if not ok:
        return
    endv = end_names[0]
    defs = [n for n in walk_no_nested(fn.node) if isinstance(n, ast.Assign) and any(unparse(t) == endv for t in n.targets)]
    seen = {}
    for d in defs:
        cl = facts_at(ctx, fn, d, res)
        if frozenset({('isnone', 'self._binary_end', False)}) in cl:
            seen['explicit'] = d
        elif frozenset({('isnone', 'self._binary_end', True)}) in cl:
            seen['default'] = d
        else:
            seen.setdefault('other', d)
    if 'other' in seen or 'explicit' not in seen or 'default' not in seen:
        ctx.err('bounds:end-shape', fn.site(lp), 'end defined once under `binary_end is not None` and once otherwise',
                f'definitions under: {sorted(seen)}')
        return
    ctx.check(unparse(seen['explicit'].value) == 'self._binary_end', 'bounds:explicit-end', fn.site(seen['explicit']),
              'an explicit end is used as given (window length end - start + 1)', unparse(seen['explicit']))
    dv = seen['default'].value
    maps = getattr(ctx, '_c03_maps', set())
    ok = isinstance(dv, ast.Call) and unparse(dv.func) == 'max' and dv.args and \
        any(unparse(dv.args[0]) in (mp, f'{mp}.keys()') for mp in maps)
    why = unparse(dv)
    if 'compilable_line_obs' in why or '.address' in why and 'byte_map' not in why:
        why += ' (start address of a line, of any kind: a trailing label or zero-length line extends the image)'
    ctx.check(ok, 'bounds:default-end', fn.site(seen['default']),
              'without an explicit end the window ends at the highest address that received an emitted byte', why)
    if ok:
        dflt = next((k.value for k in dv.keywords if k.arg == 'default'), None)
        if dflt is not None:
            want = to_lin(ast.parse('self._binary_start - 1', mode='eval').body, res)
            ctx.check(to_lin(dflt, res).key() == want.key(), 'bounds:empty-image', fn.site(seen['default']),
                      'with no emitted byte the default window is empty', unparse(dflt))


_CLI = {  # option -> (short letter, constructor parameter)
    'binary_min_address': ('-s', 'binary_start'),
    'binary_max_address': ('-e', 'binary_end'),
    'binary_fill': ('-f', 'binary_fill_value'),
    'output_file': ('-o', 'output_file'),
}


def c03_6(ctx):
    ctx.rule('C03.6', 'CLI window/fill/output options are wired to the matching constructor parameters', 9)
    comp = ctx.repo.func('bespokeasm.__main__.compile')
    init = ctx.repo.func('bespokeasm.assembler.engine.Assembler.__init__')
    calls_ = [c for c in ast.walk(comp.node) if isinstance(c, ast.Call) and unparse(c.func) == 'Assembler']
    if len(calls_) != 1:
        raise AnalysisError('__main__.compile: expected exactly one Assembler(...) call')
    b = bind_args(calls_[0], init)

    def strip_int(e):
        while isinstance(e, ast.Call) and unparse(e.func) == 'int' and len(e.args) == 1:
            e = e.args[0]
        return e
    ctx.check(unparse(strip_int(b.get('binary_start'))) == 'binary_min_address', 'cli:start', comp.site(calls_[0]),
              'binary_start <- --binary-min-address', unparse(b.get('binary_start')))
    be = b.get('binary_end')
    ok = isinstance(be, ast.IfExp) and unparse(strip_int(be.body)) == 'binary_max_address' and unparse(be.orelse) == 'None'
    if ok:
        res = resolver(ctx, comp, inline=False)
        from engine.lin import to_cnf
        cl = to_cnf(be.test, True, res)
        ok = cl == [frozenset({lit_cmp(ctx, comp, 'binary_max_address >= 0', res)})] or cl == [frozenset({lit_cmp(ctx, comp, 'int(binary_max_address) >= 0', res)})]
    ctx.check(ok, 'cli:end', comp.site(calls_[0]), 'binary_end <- --binary-max-address when >= 0, else None (default end)', unparse(be))
    ctx.check(unparse(strip_int(b.get('binary_fill_value'))) == 'binary_fill', 'cli:fill', comp.site(calls_[0]),
              'binary_fill_value <- --binary-fill', unparse(b.get('binary_fill_value')))
    ctx.check(unparse(b.get('output_file')) == 'output_file', 'cli:output', comp.site(calls_[0]),
              'output_file <- --output-file', unparse(b.get('output_file')))
    ctx.check(unparse(b.get('generate_binary')) == 'binary', 'cli:binary-flag', comp.site(calls_[0]),
              'generate_binary <- --binary/--no-binary', unparse(b.get('generate_binary')))
    # 0 is a value of each of the three numeric options (window [0, 0], fill 0x00): none of them is ever tested by truthiness
    opts = {'binary_min_address', 'binary_max_address', 'binary_fill'}

    def names_in(e):
        if isinstance(e, ast.JoinedStr):
            return set()
        out = {e.id} if isinstance(e, ast.Name) else set()
        for c in ast.iter_child_nodes(e):
            out |= names_in(c)
        return out
    tainted = set(opts)      # names that hold (a conversion of) an option value
    for _ in range(4):
        for n in ast.walk(comp.node):
            if isinstance(n, ast.Assign) and len(n.targets) == 1 and isinstance(n.targets[0], ast.Name) and not isinstance(n.value, (ast.Compare, ast.Constant)) \
                    and names_in(n.value) & tainted:
                tainted.add(n.targets[0].id)

    def carries_option(e):
        e = strip_int(e)
        if isinstance(e, ast.Name):
            return e.id in tainted
        if isinstance(e, ast.Call):
            return any(carries_option(a) for a in list(e.args) + [k.value for k in e.keywords]) or \
                (isinstance(e.func, ast.Attribute) and carries_option(e.func.value))
        return False
    n_truthy = 0
    for n in ast.walk(comp.node):
        tested = []
        if isinstance(n, ast.BoolOp):
            tested = n.values[:-1] if isinstance(n.op, ast.Or) else n.values
        elif isinstance(n, (ast.If, ast.While, ast.IfExp)):
            tested = [n.test]
        elif isinstance(n, ast.UnaryOp) and isinstance(n.op, ast.Not):
            tested = [n.operand]
        for t in tested:
            if carries_option(t):
                n_truthy += 1
                ctx.refute(f'cli:zero-is-a-value:{unparse(t)[:40]}', comp.site(n), 'address 0 and fill 0 are values: a numeric option is compared (with None, with 0), never tested by truthiness',
                           unparse(n)[:120])
    if not n_truthy:
        ctx.ok('cli:zero-is-a-value', comp.site(), 'address 0 and fill 0 are values: a numeric option is compared (with None, with 0), never tested by truthiness')
    # option declarations: long name <-> short letter
    decl = {}
    for d in comp.node.decorator_list:
        if isinstance(d, ast.Call) and unparse(d.func) == 'click.option':
            names = [a.value for a in d.args if isinstance(a, ast.Constant) and isinstance(a.value, str)]
            longs = [n for n in names if n.startswith('--')]
            shorts = [n for n in names if n.startswith('-') and not n.startswith('--')]
            if longs:
                decl[longs[0].split('/')[0][2:].replace('-', '_')] = (shorts[0].split('/')[0] if shorts else None, d)
    for opt, (short, _) in _CLI.items():
        got = decl.get(opt)
        ctx.check(got is not None and got[0] == short, f'cli:option:{opt}', comp.site(got[1]) if got else comp.site(),
                  f'--{opt.replace("_", "-")} has the documented short form {short}', f'declared: {got[0] if got else None}')
    # constructor stores
    for attr, param in (('_binary_start', 'binary_start'), ('_binary_end', 'binary_end'), ('_output_file', 'output_file'),
                        ('_generate_binary', 'generate_binary')):
        sts = self_attr_stores(init.node, attr)
        ctx.check(len(sts) == 1 and unparse(sts[0][2]) == param, f'ctor:{attr}', init.site(sts[0][0]) if sts else init.site(),
                  f'self.{attr} <- {param}', '; '.join(unparse(s[0]) for s in sts) or 'no store')
    # who opens the output file for writing
    fn = ctx.repo.func(ENGINE)
    for f in ctx.repo.all_functions():
        for c in ast.walk(f.node):
            if isinstance(c, ast.Call) and unparse(c.func) == 'open' and c.args and '_output_file' in unparse(c.args[0]):
                ctx.check(f.qualname == ENGINE, f'who:opens-output:{ctx.short(f)}', f.site(c),
                          'only assemble_bytecode opens the output file', f'{ctx.short(f)} opens {unparse(c.args[0])}')
    # the image is written only when generate_binary is set
    w = _analyse(ctx)[1]
    res = resolver(ctx, fn, inline=False)
    cl = facts_at(ctx, fn, w, res)
    ok = any(c == frozenset({('truthy', 'self._generate_binary', True)}) for c in cl)
    ctx.check(ok, 'image:only-when-requested', fn.site(w), 'the image is written iff --binary', describe_facts(cl))


def c03_mute(ctx):
    """'Unmuted' is decided by the condition stack's mute counter: its state machine is re-evaluated here."""
    from rules.c08 import mute_state, mute_guards
    mute_state(ctx)
    mute_guards(ctx)
    load = ctx.repo.func('bespokeasm.assembler.assembly_file.AssemblyFile.load_line_objects')
    ms = [n for n in walk_no_nested(load.node) if isinstance(n, ast.Assign) and isinstance(n.targets[0], ast.Attribute) and n.targets[0].attr in ('is_muted', '_is_muted')]
    ctx.check(len(ms) == 1 and unparse(ms[0].value) == 'condition_stack.is_muted' and unparse(ms[0].targets[0]) == 'lobj.is_muted', 'mute:line-flag=stack-state', load.site(ms[0]) if ms else load.site(),
              'a line is muted iff the condition stack is muted when it is reached', '; '.join(unparse(x) for x in ms))


def c03_files(ctx):
    """Whether a line is muted is decided per file: every file starts with a condition stack of its own (C17.5)."""
    from rules.c17 import c17_5
    c17_5(ctx)


RULES = [c03_1, c03_2, c03_3, c03_4, c03_6, c03_mute, c03_files]

_E = 'assembler/engine.py'
_M = '__main__.py'
MUTANTS = [
    V('c03-exclusive-end', _E, 'for addr in range(self._binary_start, end_address + 1):', 'for addr in range(self._binary_start, end_address):', 'C03.4'),
    V('c03-muted-in-image', _E, '                if isinstance(lobj, LineWithBytes) and not lobj.is_muted:\n                    line_bytes',
      '                if isinstance(lobj, LineWithBytes):\n                    line_bytes', 'C03.1'),
    V('c03-default-end-line-start', _E, 'end_address = max(byte_map.keys(), default=self._binary_start - 1)',
      'end_address = compilable_line_obs[-1].address', 'C03.4'),
    V('c03-swap-se', _M, 'int(binary_min_address), int(binary_max_address) if int(binary_max_address) >= 0 else None,',
      'int(binary_max_address), int(binary_min_address) if int(binary_min_address) >= 0 else None,', 'C03.6'),
    V('c03-fill-unmasked', _E, 'self._binary_fill_value = binary_fill_value & 0xff', 'self._binary_fill_value = binary_fill_value', 'C03.2'),
    V('c03-key-line-start', _E, 'byte_map[lobj.address + offset] = byte_value', 'byte_map[lobj.address] = byte_value', 'C03.1'),
    V('c03-fill-zero', _E, 'bytecode.append(byte_map.get(addr, self._binary_fill_value))', 'bytecode.append(byte_map.get(addr, 0))', 'C03.2'),
    V('c03-lookup-offset', _E, 'bytecode.append(byte_map.get(addr, self._binary_fill_value))', 'bytecode.append(byte_map.get(addr - self._binary_start, self._binary_fill_value))', 'C03.3'),
    V('c03-skip-fill', _E, '                bytecode.append(byte_map.get(addr, self._binary_fill_value))',
      '                if addr in byte_map:\n                    bytecode.append(byte_map[addr])', 'C03.3'),
    V('c03-end-zero-means-default', _M, 'if int(binary_max_address) >= 0 else None', 'if int(binary_max_address) > 0 else None', 'C03.6'),
    V('c03-short-flags-swapped', _M, "'--binary-min-address', '-s', default=0", "'--binary-min-address', '-e', default=0", 'C03.6'),
    V('c03-instr-only', _E, '                if isinstance(lobj, LineWithBytes) and not lobj.is_muted:\n                    line_bytes',
      '                if isinstance(lobj, LineWithBytes) and not lobj.is_muted and lobj.byte_size > 0 and lobj.memory_zone is not None:\n                    line_bytes', 'C03.1'),
    V('c03-text-mode', _E, "with open(self._output_file, 'wb') as f:", "with open(self._output_file, 'w') as f:", 'C03.1'),
    V('c03-start-off', _E, 'for addr in range(self._binary_start, end_address + 1):', 'for addr in range(self._binary_start + 1, end_address + 1):', 'C03.4'),
    V('c03-old-extend', _E, '''            for addr in range(self._binary_start, end_address + 1):
                bytecode.append(byte_map.get(addr, self._binary_fill_value))''', '''            for lobj in compilable_line_obs:
                if isinstance(lobj, LineWithBytes) and not lobj.is_muted:
                    bytecode.extend(lobj.get_bytes())''', 'C03.1'),
]
TWINS = [
    V('c03-t-max-map', _E, 'end_address = max(byte_map.keys(), default=self._binary_start - 1)', 'end_address = max(byte_map, default=self._binary_start - 1)'),
    V('c03-t-plus-one', _E, 'for addr in range(self._binary_start, end_address + 1):', 'for addr in range(self._binary_start, 1 + end_address):'),
    V('c03-t-mask-hex', _E, 'self._binary_fill_value = binary_fill_value & 0xff', 'self._binary_fill_value = 0xFF & binary_fill_value'),
    V('c03-t-key-order', _E, 'byte_map[lobj.address + offset] = byte_value', 'byte_map[offset + lobj.address] = byte_value'),
]
MUTANTS += [
    V('c03-end-zero-is-falsy', _M, "int(binary_min_address), int(binary_max_address) if int(binary_max_address) >= 0 else None,",
      "int(binary_min_address), (int(binary_max_address) or None) if int(binary_max_address) >= 0 else None,", 'C03.6'),
]
