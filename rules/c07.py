"""C07 - numeric expressions evaluate to their arithmetic value."""
import ast
import re

from engine.index import AnalysisError
from engine.helpers import (filter_facts_at, parent_map, stmt_of, resolver, facts_at, lit_cmp, describe_facts, unparse, walk_no_nested, returns, deref, reaching_def,
                            body_only_aborts, is_abort_stmt)
from engine.fold import EnumConst, Ref
from engine import rx
from engine.selftest import V

EX = 'bespokeasm.expression'

EXPLANATION = (
    'Static rules over bespokeasm/expression and utilities. Decided: C07.1 the precedence grammar extracted from the '
    'recursive-descent functions equals the prescribed one (levels & | ^ < shifts < + - < * / % < primary, each binary '
    'level a left-associative loop whose right operand comes from the next tighter level, unary minus applied to a '
    'primary, function and parenthesis bodies parsed at the loosest level, operands attached left/right unswapped); '
    'C07.2 symbol -> token -> operator tables compose to the arithmetic operators and every binary token is handled at '
    'exactly one level, operands passed in order; C07.3 the result is int(...) of the computed value, bitwise/shift '
    'operands are converted with int, / is true division on exact rationals whatever the operands\' types, and once both operands are evaluated the only value returned is the _operations table entry applied to (left, right); C07.4 the lexer is total: characters no token can start '
    'with are rejected (gap check between matches) instead of skipped; C07.5 literal notations recognised by the '
    'pattern and converted by parse_numeric_string agree (prefix/suffix, digit class, base), every branch of the decision list is keyed by a notation marker (a text without one is decimal), numeric is tried before '
    'label, BYTEn takes its index from the character after the literal BYTE and selects that little-endian byte. Not '
    'decided: numerical correctness of evaluation for all values (BYTEn arithmetic on arbitrary integers).'
)
ASSUMPTIONS = [
    're._parser gives the regex AST of constant-folded patterns; first-character sets over printable ASCII',
    'grammar extraction recognises the loop / recursive-call idioms used by the parser; another parser shape is an analysis error',
]

LEVELS = [
    frozenset({'T_AND', 'T_OR', 'T_XOR'}),
    frozenset({'T_LEFT_SHIFT', 'T_RIGHT_SHIFT'}),
    frozenset({'T_PLUS', 'T_MINUS'}),
    frozenset({'T_MULT', 'T_DIV', 'T_MOD'}),
]


def _tok_set(ctx, fn, test):
    """Token names tested by `tokens[0].token_type in [..]`, `== T`, or a chain `== A or == B` on the same subject."""
    if isinstance(test, ast.BoolOp) and isinstance(test.op, ast.Or):
        parts = [_tok_set(ctx, fn, v) for v in test.values]
        lefts = {unparse(v.left) for v in test.values if isinstance(v, ast.Compare)}
        if all(p is not None for p in parts) and len(lefts) == 1:
            return frozenset().union(*parts)
        return None
    if isinstance(test, ast.Compare) and len(test.ops) == 1 and 'token_type' in unparse(test.left):
        right = test.comparators[0]
        if isinstance(right, ast.Name) and isinstance(test.ops[0], ast.In):
            # a module constant holding the collection (`_ADDITIVE = frozenset([TokenType.T_PLUS, TokenType.T_MINUS])`)
            vals = fn.module.assigns.get(right.id) or []
            if len(vals) == 1:
                right = vals[0]
                if isinstance(right, ast.Call) and isinstance(right.func, ast.Name) and right.func.id in ('frozenset', 'set', 'tuple', 'list') \
                        and len(right.args) == 1 and not right.keywords:
                    right = right.args[0]
        elts = right.elts if isinstance(right, (ast.List, ast.Tuple, ast.Set)) else [right]
        names = set()
        for e in elts:
            v = ctx.fold.try_fold(e, fn.module)
            if isinstance(v, EnumConst):
                names.add(v.name)
            else:
                return None
        if isinstance(test.ops[0], (ast.In, ast.Eq)):
            return frozenset(names)
    return None


def _parse_calls(ctx, fn, node):
    """Calls inside `node` to module-level functions of the expression module (parser functions)."""
    out = []
    for c in ast.walk(node):
        if isinstance(c, ast.Call) and isinstance(c.func, ast.Name) and c.func.id in fn.module.functions \
                and c.func.id not in ('_match', '_lexical_analysis'):
            out.append(c)
    return out


def extract_grammar(ctx):
    """Follow the parser from parse_expression: list of binary levels and the primary function description."""
    mod = ctx.repo.module(EX)
    entry = ctx.repo.func(EX + '.parse_expression')
    pc = _parse_calls(ctx, entry, entry.node)
    if len(pc) != 1:
        raise AnalysisError('parse_expression: expected one call into the recursive-descent parser')
    top = pc[0].func.id
    levels = []
    cur = top
    seen = set()
    while True:
        if cur in seen:
            raise AnalysisError(f'grammar extraction: cycle at {cur}')
        seen.add(cur)
        fn = ctx.repo.func(f'{EX}.{cur}')
        loops = [w for w in walk_no_nested(fn.node) if isinstance(w, ast.While)]
        if len(loops) == 1 and _tok_set(ctx, fn, loops[0].test) is not None:
            w = loops[0]
            ops = _tok_set(ctx, fn, w.test)
            first = [c for st in fn.node.body if st is not w and st.lineno < w.lineno for c in _parse_calls(ctx, fn, st)]
            inner = _parse_calls(ctx, fn, w)
            if len(first) != 1 or len(inner) != 1:
                raise AnalysisError(f'{cur}: unrecognised binary level shape')
            # operand attachment inside the loop
            attach = {}
            for st in ast.walk(w):
                if isinstance(st, ast.Assign) and len(st.targets) == 1 and isinstance(st.targets[0], ast.Attribute) \
                        and st.targets[0].attr in ('left_child', 'right_child'):
                    attach[st.targets[0].attr] = st.value
            levels.append({'fn': fn, 'name': cur, 'ops': ops, 'next': first[0].func.id, 'right': inner[0].func.id,
                           'loop': w, 'attach': attach, 'first': first[0]})
            cur = first[0].func.id
            continue
        # recursive form: `if tokens[0] in ops: ...; node.right_child = <self or other>(...)` (no loop)
        ifs = [i for i in fn.node.body if isinstance(i, ast.If) and _tok_set(ctx, fn, i.test) is not None]
        if len(ifs) == 1 and any(isinstance(st, ast.Assign) and isinstance(st.targets[0], ast.Attribute) and st.targets[0].attr == 'right_child'
                                 for st in ast.walk(ifs[0])):
            w = ifs[0]
            first = [c for st in fn.node.body if st is not w and st.lineno < w.lineno for c in _parse_calls(ctx, fn, st)]
            inner = _parse_calls(ctx, fn, w)
            if len(first) == 1 and len(inner) == 1:
                attach = {}
                for st in ast.walk(w):
                    if isinstance(st, ast.Assign) and len(st.targets) == 1 and isinstance(st.targets[0], ast.Attribute) \
                            and st.targets[0].attr in ('left_child', 'right_child'):
                        attach[st.targets[0].attr] = st.value
                levels.append({'fn': fn, 'name': cur, 'ops': _tok_set(ctx, fn, w.test), 'next': first[0].func.id,
                               'right': inner[0].func.id, 'loop': w, 'attach': attach, 'first': first[0], 'recursive': True})
                cur = first[0].func.id
                continue
        break
    prim = ctx.repo.func(f'{EX}.{cur}')
    return top, levels, prim


def c07_1(ctx):
    ctx.rule('C07.1', 'precedence grammar extracted from the parser equals the prescribed grammar', 10)
    top, levels, prim = extract_grammar(ctx)
    got = [l['ops'] for l in levels]
    ctx.check(got == LEVELS, 'grammar:levels', levels[0]['fn'].site() if levels else prim.site(),
              'levels loosest->tightest are {& | ^}, {<< >>}, {+ -}, {* / %}',
              'extracted: ' + ' < '.join('{' + ','.join(sorted(g)) + '}' for g in got))
    for i, l in enumerate(levels):
        nxt = levels[i + 1]['name'] if i + 1 < len(levels) else prim.name
        ctx.check(l['next'] == nxt and l['right'] == nxt and not l.get('recursive'), f'grammar:left-assoc:{l["name"]}', l['fn'].site(l['loop']),
                  f'level {l["name"]} is a loop whose left and right operands come from the next tighter level {nxt} (left-associative)',
                  f'first operand from {l["next"]}, right operand from {l["right"]}' + (' by recursion instead of a loop (groups to the right)' if l.get('recursive') else ''))
        if l.get('recursive'):
            continue
        a = l['attach']
        ok = 'left_child' in a and 'right_child' in a and isinstance(a['right_child'], ast.Call) \
            and unparse(a['left_child']) != unparse(a['right_child']) and isinstance(a['left_child'], ast.Name)
        # left child is the accumulated node (the variable assigned from the first operand call)
        acc = None
        for st in l['fn'].node.body:
            if isinstance(st, ast.Assign) and st.value is l['first'] and isinstance(st.targets[0], ast.Name):
                acc = st.targets[0].id
        ok = ok and acc is not None and unparse(a['left_child']) == acc
        rets = returns(l['fn'])
        ok = ok and all(unparse(r.value) == acc for r in rets)
        ctx.check(ok, f'grammar:operands-in-order:{l["name"]}', l['fn'].site(l['loop']),
                  'the accumulated node becomes the left child, the newly parsed operand the right child',
                  f'left_child={unparse(a.get("left_child"))} right_child={unparse(a.get("right_child"))}')
    # primary
    E = top
    branches = {}
    for node in walk_no_nested(prim.node):
        if isinstance(node, ast.If):
            ts = _tok_set(ctx, prim, node.test)
            if ts is not None:
                branches[ts] = node
    num = next((b for t, b in branches.items() if t == frozenset({'T_NUM', 'T_LABEL'})), None)
    ctx.check(num is not None and len(num.body) == 1 and isinstance(num.body[0], ast.Return) and unparse(num.body[0].value) == 'tokens.pop(0)',
              'grammar:primary:number-or-label', prim.site(num) if num else prim.site(), 'primary: number | label (consumes that one token)',
              unparse(num.body[0]) if num else 'branch not found')
    fb = next((b for t, b in branches.items() if t == frozenset({'T_LSB', 'T_BYTE'})), None)
    ok = fb is not None
    if ok:
        pcs = [c.func.id for st in fb.body for c in _parse_calls(ctx, prim, st)]
        matches = [unparse(c.args[-1]) for st in fb.body for c in ast.walk(st) if isinstance(c, ast.Call) and unparse(c.func) == '_match']
        ok = pcs == [E] and any(m.endswith('T_RPAR') for m in matches)
        detail = f'operand parsed by {pcs}, then _match{matches}'
    else:
        detail = 'branch not found'
    ctx.check(ok, 'grammar:primary:function', prim.site(fb) if fb else prim.site(),
              f'primary: LSB( / BYTEn( <expression at the loosest level {E}> )', detail)
    neg = next((b for t, b in branches.items() if t == frozenset({'T_MINUS'})), None)
    ok = neg is not None
    if ok:
        pcs = [c.func.id for st in neg.body for c in _parse_calls(ctx, prim, st)]
        mk = [c for st in neg.body for c in ast.walk(st) if isinstance(c, ast.Call) and unparse(c.func) == 'ExpressionNode']
        is_neg = any(isinstance(ctx.fold.try_fold(c.args[0], prim.module), EnumConst) and ctx.fold.try_fold(c.args[0], prim.module).name == 'T_NEGATION' for c in mk if c.args)
        ok = pcs == [prim.name] and is_neg
        detail = f'negation operand parsed by {pcs} (must be the primary level {prim.name}); builds T_NEGATION: {is_neg}'
        if pcs and pcs != [prim.name]:
            detail += " - the operand swallows lower-precedence operators: '-1 + 2' parses as -(1 + 2)"
    else:
        detail = 'branch not found'
    ctx.check(ok, 'grammar:primary:negation', prim.site(neg) if neg else prim.site(),
              'primary: unary minus applied to a primary (binds tightest)', detail)
    # parenthesis: final else: _match(LPAR); E; _match(RPAR)
    tail_calls = []
    for node in walk_no_nested(prim.node):
        if isinstance(node, ast.Call) and unparse(node.func) == '_match':
            tail_calls.append(unparse(node.args[-1]).split('.')[-1])
    par_ok = 'T_LPAR' in tail_calls and tail_calls.count('T_RPAR') >= 2
    lp = [n for n in walk_no_nested(prim.node) if isinstance(n, ast.Call) and unparse(n.func) == '_match' and unparse(n.args[-1]).endswith('T_LPAR')]
    inner_ok = False
    if lp:
        # the statement after the LPAR match parses E
        pm = {}
        for blk in walk_no_nested(prim.node):
            for fld in ('body', 'orelse'):
                sts = getattr(blk, fld, None)
                if isinstance(sts, list):
                    for i, s in enumerate(sts):
                        if any(x is lp[0] for x in ast.walk(s)) and i + 1 < len(sts) and isinstance(s, (ast.Expr, ast.Assign)):
                            inner_ok = [c.func.id for c in _parse_calls(ctx, prim, sts[i + 1])] == [E]
    ctx.check(par_ok and inner_ok, 'grammar:primary:parentheses', prim.site(lp[0]) if lp else prim.site(),
              f'primary: ( <expression at the loosest level {E}> )', f'_match calls: {tail_calls}')
    # parse_expression requires the whole token list to be consumed
    entry = ctx.repo.func(EX + '.parse_expression')
    ends = [c for c in ast.walk(entry.node) if isinstance(c, ast.Call) and unparse(c.func) == '_match' and unparse(c.args[-1]).endswith('T_END')]
    ctx.check(len(ends) == 1, 'grammar:whole-input', entry.site(), 'after the expression the end token must follow (no trailing tokens)',
              'no _match(..., T_END)')
    m = ctx.repo.func(EX + '._match')
    ok = any(isinstance(s, ast.Raise) for s in ast.walk(m.node)) or any(is_abort_stmt(s) for s in ast.walk(m.node) if isinstance(s, ast.stmt))
    ctx.check(ok, 'grammar:mismatch-rejected', m.site(), 'a token mismatch is rejected (raise/exit)', 'no raise in _match')


_OPS = {'+': 'add', '-': 'sub', '*': 'mul', '/': 'truediv', '%': 'mod', '&': 'and_', '|': 'or_', '^': 'xor',
        '<<': 'lshift', '>>': 'rshift'}


def c07_2(ctx):
    ctx.rule('C07.2', 'symbol -> token -> operator tables; operands applied in order', 13)
    tm = ctx.fold.module_const(EX, 'TOKEN_MAPPINGS')
    ops = ctx.fold.class_const(EX + '.ExpressionNode', '_operations')
    mod = ctx.repo.module(EX)
    site = f'{mod.relpath}:1'
    for sym, want in _OPS.items():
        tok = tm.get(sym)
        fn = ops.get(tok) if tok is not None else None
        got = fn.dotted if isinstance(fn, Ref) else repr(fn)
        ctx.check(got == f'operator.{want}', f'table:{sym}', site, f"'{sym}' evaluates with operator.{want}",
                  f"'{sym}' -> {tok} -> {got}")
    neg = [k for k in ops if isinstance(k, EnumConst) and k.name == 'T_NEGATION']
    ctx.check(bool(neg) and isinstance(ops[neg[0]], Ref) and ops[neg[0]].dotted == 'operator.neg', 'table:negation', site,
              'negation evaluates with operator.neg', repr(ops.get(neg[0]) if neg else None))
    _, levels, _ = extract_grammar(ctx)
    handled = [t for l in levels for t in l['ops']]
    binary = {k.name for k in ops if isinstance(k, EnumConst) and k.name != 'T_NEGATION'}
    ctx.check(sorted(handled) == sorted(binary), 'table:each-binary-token-at-one-level', site,
              'every binary operator token is handled at exactly one grammar level', f'levels handle {sorted(handled)}, table has {sorted(binary)}')
    comp = ctx.repo.func(EX + '.ExpressionNode._compute')
    # binary application: operation(left_result, right_result) with results of left_child / right_child
    app = [c for c in ast.walk(comp.node) if isinstance(c, ast.Call) and isinstance(c.func, ast.Name) and len(c.args) == 2
           and deref(ctx, comp, c.func, c) is not c.func]
    found = False
    for c in app:
        d = deref(ctx, comp, c.func, c)
        if 'ExpressionNode._operations[self.token_type]' != unparse(d):
            continue
        found = True
        defs = {}
        for n in ast.walk(comp.node):
            if isinstance(n, ast.Assign) and isinstance(n.targets[0], ast.Name) and isinstance(n.value, ast.Call) \
                    and isinstance(n.value.func, ast.Attribute) and n.value.func.attr == '_compute':
                defs.setdefault(n.targets[0].id, set()).add(unparse(n.value.func.value))
        def peel(e):
            while isinstance(e, ast.Call) and isinstance(e.func, ast.Name) and e.func.id in ('int', 'float', 'Fraction', 'Decimal') and len(e.args) == 1 and not e.keywords:
                e = e.args[0]
            return unparse(e)
        a0, a1 = peel(c.args[0]), peel(c.args[1])
        ok = defs.get(a0) == {'self.left_child'} and defs.get(a1) == {'self.right_child'}
        ctx.check(ok, 'apply:operands-in-order', comp.site(c), 'binary operators are applied as op(value(left child), value(right child))',
                  f'{unparse(c)} with {a0} from {sorted(defs.get(a0, []))}, {a1} from {sorted(defs.get(a1, []))}')
    if not found:
        ctx.err('apply:operands-in-order', comp.site(), 'binary application through the _operations table', 'not found')


def c07_3(ctx):
    ctx.rule('C07.3', 'final int() truncation; integer conversion for bitwise operators; true division', 3)
    gv = ctx.repo.func(EX + '.ExpressionNode.get_value')
    rets = returns(gv)
    ok = len(rets) == 1
    if ok:
        v = deref(ctx, gv, rets[0].value, rets[0])
        ok = isinstance(v, ast.Call) and unparse(v.func) == 'int' and len(v.args) == 1
        if ok:
            inner = deref(ctx, gv, v.args[0], rets[0])
            ok = isinstance(inner, ast.Call) and unparse(inner.func) == 'self._compute'
    ctx.check(ok, 'value:int-truncation', gv.site(), 'get_value returns int(<computed value>) (truncation toward zero)',
              '; '.join(unparse(r) for r in rets))
    comp = ctx.repo.func(EX + '.ExpressionNode._compute')
    res = resolver(ctx, comp, inline=False)
    conv = {}
    # operand results: names bound to the value of a child
    operand_names = {n.targets[0].id for n in ast.walk(comp.node) if isinstance(n, ast.Assign) and isinstance(n.targets[0], ast.Name)
                     and isinstance(n.value, ast.Call) and isinstance(n.value.func, ast.Attribute) and n.value.func.attr == '_compute'
                     and unparse(n.value.func.value) in ('self.left_child', 'self.right_child')}
    pm_ = parent_map(comp.node)
    for n in ast.walk(comp.node):
        if not (isinstance(n, ast.Call) and isinstance(n.func, ast.Name) and n.func.id in ('int', 'float', 'Fraction', 'Decimal') and len(n.args) == 1
                and isinstance(n.args[0], ast.Name) and n.args[0].id in operand_names):
            continue
        par = pm_.get(id(n))
        rebinds = isinstance(par, ast.Assign) and isinstance(par.targets[0], ast.Name) and par.targets[0].id == n.args[0].id
        applied = isinstance(par, ast.Call) and n in par.args and isinstance(par.func, ast.Name) \
            and unparse(deref(ctx, comp, par.func, par)) == 'ExpressionNode._operations[self.token_type]'
        if not (rebinds or applied):
            continue
        # the token types under which the conversion happens: the tightest `token_type is one of ...` fact at the conversion
        best = None
        for cl in facts_at(ctx, comp, n, res):
            if all(l[0] == 'eq' and 'self.token_type' in repr(l) for l in cl):
                toks = {t for l in cl for t in re.findall(r'TokenType\.(T_\w+)', repr(l))}
                if best is None or len(toks) < len(best):
                    best = toks
        conv.setdefault(n.func.id, set()).update(best or set())
    want_int = {'T_AND', 'T_OR', 'T_XOR', 'T_LEFT_SHIFT', 'T_RIGHT_SHIFT'}
    ctx.check(conv.get('int', set()) >= want_int, 'value:int-operands-for-bitwise', comp.site(),
              'operands of & | ^ << >> are converted with int()', f'int() applied under tokens {sorted(conv.get("int", []))}')
    bad = conv.get('int', set()) & {'T_DIV'}
    ctx.check(not bad, 'value:true-division', comp.site(), 'division operands are not truncated before dividing (real quotient)',
              f'int() applied to operands of {sorted(bad)}')
    # the real quotient, exactly: binary floating point (float(), or / on ints beyond 2**53) is not the real quotient
    fl = conv.get('float', set()) & {'T_DIV', 'T_MOD'}
    ex = conv.get('Fraction', set())
    ctx.check({'T_DIV', 'T_MOD'} <= ex and not fl, 'value:exact-division', comp.site(),
              'operands of / and % are converted to exact rationals (Fraction) before the operation, so that 29/100*100 is 29 and large integers keep all their digits',
              f'float() under {sorted(fl)}, Fraction() under {sorted(ex)}')

    # in the binary branch the only value returned is the table operator applied to (left, right): no second way to a quotient
    g = ctx.cfg(comp)
    opd = {}
    for n in ast.walk(comp.node):
        if isinstance(n, ast.Assign) and isinstance(n.targets[0], ast.Name) and isinstance(n.value, ast.Call) and isinstance(n.value.func, ast.Attribute) \
                and n.value.func.attr == '_compute' and unparse(n.value.func.value) in ('self.left_child', 'self.right_child'):
            opd.setdefault(unparse(n.value.func.value), []).append(n)
    rights = opd.get('self.right_child', [])
    if len(rights) != 1 or not opd.get('self.left_child'):
        ctx.err('value:binary-result-is-the-table-operator', comp.site(), 'one evaluation of the right operand bound to a name', str({k: len(v) for k, v in opd.items()}))
    else:
        rn = g.node_of(rights[0])
        rname = rights[0].targets[0].id
        lnames = {a.targets[0].id for a in opd['self.left_child']}
        n_ret = 0
        for r in returns(comp):
            if r.value is None or not g.has_node(r) or not g.reaches(rn, g.node_of(r)):
                continue
            n_ret += 1
            v = deref(ctx, comp, r.value, r)
            ok = isinstance(v, ast.Call) and len(v.args) == 2 and not v.keywords
            if ok:
                f = deref(ctx, comp, v.func, r)
                def _opd(a):
                    # the operand itself, or its conversion (which conversion under which operator is judged above)
                    if isinstance(a, ast.Call) and isinstance(a.func, ast.Name) and a.func.id in ('int', 'Fraction') and len(a.args) == 1 and not a.keywords:
                        a = a.args[0]
                    return a.id if isinstance(a, ast.Name) else None
                ok = unparse(f) == 'ExpressionNode._operations[self.token_type]' and _opd(v.args[0]) in lnames and _opd(v.args[1]) == rname
            ctx.check(ok, 'value:binary-result-is-the-table-operator', comp.site(r),
                      'once both operands are evaluated, the value returned is the operator of the _operations table applied to (left, right) - there is no other way to a quotient, remainder or product',
                      unparse(r)[:120])
        if n_ret == 0:
            ctx.err('value:binary-result-is-the-table-operator', comp.site(), 'a return after the operands are evaluated', 'none found')
    # the conversion to exact rationals depends on the operator only (not on the operands' types or values)
    for n in ast.walk(comp.node):
        if isinstance(n, ast.Call) and isinstance(n.func, ast.Name) and n.func.id == 'Fraction' and len(n.args) == 1 and isinstance(n.args[0], ast.Name) \
                and n.args[0].id in operand_names:
            other = [l for cl in filter_facts_at(ctx, comp, n, res) for l in cl if 'self.token_type' not in repr(l)]
            ctx.check(not other, 'value:exact-division-unconditional', comp.site(n),
                      'whether the operands of / and % are made exact rationals is decided by the operator alone', 'also depends on: ' + repr(other)[:160])


def c07_4(ctx):
    ctx.rule('C07.4', 'lexer totality: unrecognised characters are rejected, not skipped', 1)
    lex = ctx.repo.func(EX + '._lexical_analysis')
    pat = ctx.fold.module_const(EX, 'EXPRESSION_PARTS_PATTERN')
    finds = [c for c in ast.walk(lex.node) if isinstance(c, ast.Call) and unparse(c.func) in ('re.findall', 're.finditer', 're.fullmatch', 're.split')]
    if not finds:
        ctx.err('lexer:scan', lex.site(), 'tokeniser built on re.findall/finditer', 'no recognised scanning call')
        return
    fc, _ = rx.first_chars(rx.parse(pat))
    skipped = ''.join(sorted((rx.ALL_ASCII - fc) - set(' ')))
    for c in finds:
        kind = unparse(c.func)
        if kind == 're.fullmatch':
            ctx.ok('lexer:total', lex.site(c), 'whole input must match', 'fullmatch')
            continue
        if kind == 're.findall':
            if not skipped:
                ctx.ok('lexer:total', lex.site(c), 'pattern has a catch-all branch', 'every printable character starts some token')
            else:
                ctx.refute('lexer:total', lex.site(c), 'characters no token can start with are rejected',
                           f're.findall silently drops the characters {skipped!r} (no gap check between matches)',
                           witness={'expression': '~5', 'evaluates_as': '5'})
            continue
        if kind == 're.finditer':
            # gap check idiom: s[pos:m.start()] tested non-empty -> abort; pos = m.end(); trailing s[pos:] tested -> abort
            loops = [l for l in walk_no_nested(lex.node) if isinstance(l, ast.For) and any(x is c for x in ast.walk(l.iter))]
            if not loops:
                # whatever the bookkeeping: if the text in front of the first match is to be examined, some slice of the source must
                # be able to start at position 0 (a literal 0, an open lower bound, or a position variable initialised to 0)
                src_ = unparse(c.args[1]) if len(c.args) > 1 else None
                lows = [x.slice.lower for x in ast.walk(lex.node) if isinstance(x, ast.Subscript) and unparse(x.value) == src_ and isinstance(x.slice, ast.Slice)]

                def may_be_zero(e):
                    if e is None or (isinstance(e, ast.Constant) and e.value == 0):
                        return True
                    if isinstance(e, ast.Name):
                        inits = [n.value for n in ast.walk(lex.node) if isinstance(n, ast.Assign) and unparse(n.targets[0]) == e.id]
                        if any(isinstance(v, ast.Constant) and v.value == 0 for v in inits):
                            return True
                        # a loop variable: what it ranges over must be able to yield 0
                        for l in ast.walk(lex.node):
                            if isinstance(l, (ast.For, ast.comprehension)):
                                names = [t.id for t in ast.walk(l.target) if isinstance(t, ast.Name)]
                                if e.id in names and ('0' in [unparse(k) for k in ast.walk(l.iter) if isinstance(k, ast.Constant)]):
                                    return True
                    return False
                if skipped and lows and not any(may_be_zero(lo) for lo in lows):
                    ctx.refute('lexer:total', lex.site(c), 'text that is not whitespace is rejected wherever it stands: before the first token, between tokens, after the last',
                               f'no examined slice of the text can begin at position 0 (lower bounds: {sorted({unparse(lo) for lo in lows if lo is not None})}): '
                               f'characters in front of the first token ({skipped!r}) are dropped', witness={'expression': '~5', 'evaluates_as': '5'})
                    continue
                ctx.err('lexer:total', lex.site(c), 'finditer consumed by a for loop', 'unrecognised use')
                continue
            lp = loops[0]
            m = unparse(lp.target)
            src = unparse(c.args[1]) if len(c.args) > 1 else None
            gap = trail = adv = False
            pos = None
            for n in walk_no_nested(lp):
                if isinstance(n, ast.If) and body_only_aborts(n.body):
                    for sub in ast.walk(n.test):
                        d = deref(ctx, lex, sub, n) if isinstance(sub, ast.Name) else sub
                        for s2 in ast.walk(d):
                            if isinstance(s2, ast.Subscript) and unparse(s2.value) == src and isinstance(s2.slice, ast.Slice) \
                                    and s2.slice.upper is not None and unparse(s2.slice.upper) == f'{m}.start()' and s2.slice.lower is not None:
                                gap = True
                                pos = unparse(s2.slice.lower)
                                gap_expr = s2
            order = init0 = True
            for n in walk_no_nested(lp):
                if isinstance(n, ast.Assign) and pos is not None and unparse(n.targets[0]) == pos and unparse(n.value) == f'{m}.end()':
                    adv = True
                    # the gap is measured from the end of the *previous* match: its slice is evaluated before the position moves
                    gg = ctx.cfg(lex)
                    order = order and gg.dominates(gg.node_of(stmt_of(lex, gap_expr)), gg.node_of(n))
            if pos is not None:
                inits = [n for n in walk_no_nested(lex.node) if isinstance(n, ast.Assign) and unparse(n.targets[0]) == pos and not any(x is n for x in ast.walk(lp))]
                init0 = len(inits) == 1 and isinstance(inits[0].value, ast.Constant) and inits[0].value.value == 0 \
                    and ctx.cfg(lex).dominates(ctx.cfg(lex).node_of(inits[0]), ctx.cfg(lex).node_of(lp))
            gap = gap and order and init0
            for n in walk_no_nested(lex.node):
                if isinstance(n, ast.If) and body_only_aborts(n.body) and not any(x is n for x in ast.walk(lp)):
                    for sub in ast.walk(n.test):
                        d = deref(ctx, lex, sub, n) if isinstance(sub, ast.Name) else sub
                        for s2 in ast.walk(d):
                            if isinstance(s2, ast.Subscript) and unparse(s2.value) == src and isinstance(s2.slice, ast.Slice) \
                                    and s2.slice.upper is None and s2.slice.lower is not None and unparse(s2.slice.lower) == pos:
                                trail = True
            # the position must also be advanced when `pos` assignment precedes gap detection order-insensitively
            ok = gap and adv and trail
            ctx.check(ok or not skipped, 'lexer:total', lex.site(c),
                      'text between / after matches that is not whitespace is rejected (gap check)',
                      f'gap check between matches: {gap}, position advanced to match end: {adv}, trailing text checked: {trail}; '
                      f'characters no token starts with: {skipped!r}')
    # unknown tokens are rejected
    exits = [n for n in walk_no_nested(lex.node) if isinstance(n, ast.If)]
    chain_else_abort = False
    for n in walk_no_nested(lex.node):
        if isinstance(n, ast.If) and n.orelse and not isinstance(n.orelse[0], ast.If) and body_only_aborts(n.orelse):
            chain_else_abort = True
    ctx.check(chain_else_abort, 'lexer:unknown-token-rejected', lex.site(), 'a part that is neither operator, function, number nor label is rejected',
              'the classification chain has no aborting else')


_NUMERIC_HELPER_CALLERS = {
    # the expression lexer: a token is a number iff is_string_numeric says so, its value is parse_numeric_string's
    'bespokeasm.expression._lexical_analysis',
    # a symbol's own text, offered as a number (no expression context)
    'bespokeasm.assembler.preprocessor.symbol.PreprocessorSymbol.value_numeric', 'bespokeasm.assembler.preprocessor.symbol.PreprocessorSymbol.is_value_numeric',
    # #create_memzone takes two plain literals matched by the numeric pattern
    'bespokeasm.assembler.line_object.preprocessor_line.create_memzone.CreateMemzoneLine.__init__',
    'bespokeasm.utilities.is_string_numeric', 'bespokeasm.utilities.parse_numeric_string',
    # a label name that reads as a number is refused (it is only tested, never converted)
    'bespokeasm.assembler.label_scope.LabelScope.set_label_value',
}


def c07_who(ctx):
    ctx.rule('C07.6', 'expression text is given a value only by the expression parser (no literal fast paths beside it)', 3)
    n = 0
    for q, fi in sorted(ctx.repo.functions.items()):
        for c in ast.walk(fi.node):
            if isinstance(c, ast.Call) and unparse(c.func).split('.')[-1] in ('parse_numeric_string', 'is_string_numeric'):
                n += 1
                ctx.check(q in _NUMERIC_HELPER_CALLERS, f'who:{unparse(c.func).split(".")[-1]}:{ctx.short(fi)}', fi.site(c),
                          'the literal-conversion helpers are called only by the expression lexer and the two reviewed plain-literal sites',
                          f'{ctx.short(fi)} converts text with {unparse(c.func)} itself: the text is not parsed as an expression (a character literal followed by an operator, '
                          f'a Python-only spelling such as 1_000) and gets a different value')
            if isinstance(c, ast.Call) and isinstance(c.func, ast.Name) and c.func.id in ('eval', 'exec', 'literal_eval') or \
                    (isinstance(c, ast.Call) and unparse(c.func) in ('ast.literal_eval',)):
                ctx.refute(f'who:eval:{ctx.short(fi)}', fi.site(c), 'no text is evaluated by Python itself', unparse(c)[:80])
    if n < 5:
        ctx.err('who:inventory', '-', 'at least 5 calls of the literal helpers', f'{n}')


_TEXT_REWRITERS = ('join', 'split', 'rsplit', 'replace', 'lower', 'upper', 'casefold', 'title', 'swapcase', 'capitalize', 'translate', 'expandtabs', 'sub', 'subn',
                   'encode', 'decode', 'format', 'center', 'ljust', 'rjust', 'zfill', 'removeprefix', 'removesuffix')


def c07_text(ctx):
    from engine.helpers import self_attr_stores
    ctx.rule('C07.7', 'the text given to the expression parser is the text as written (only trimmed or cut out of the statement)', 8)
    n = 0
    for q, fi in sorted(ctx.repo.functions.items()):
        for c in ast.walk(fi.node):
            if not (isinstance(c, ast.Call) and unparse(c.func).split('.')[-1] == 'parse_expression' and len(c.args) >= 2):
                continue
            n += 1
            # follow the argument back through locals and through attributes this very function stored
            import copy
            e = copy.deepcopy(c.args[1])
            seen_ = []
            for _ in range(5):
                changed = False
                for sub in list(ast.walk(e)):
                    d = None
                    if isinstance(sub, ast.Name) and sub.id not in fi.param_names:
                        d = reaching_def(ctx, fi, sub.id, c)
                    elif isinstance(sub, ast.Attribute) and isinstance(sub.value, ast.Name) and sub.value.id == 'self':
                        st_ = [v for (stmt, tgt, v) in self_attr_stores(fi.node, sub.attr) if v is not None and stmt.lineno <= c.lineno]
                        d = st_[-1] if len(st_) == 1 else None
                    if d is not None and unparse(d) not in seen_ and unparse(d) != unparse(sub):
                        seen_.append(unparse(d))

                        class R(ast.NodeTransformer):
                            def visit(self_, node):
                                return copy.deepcopy(d) if node is sub else self_.generic_visit(node)
                        e = R().visit(e)
                        changed = True
                        break
                if not changed:
                    break
            bad = [x for x in ast.walk(e) if isinstance(x, ast.Call) and isinstance(x.func, ast.Attribute) and x.func.attr in _TEXT_REWRITERS]
            ctx.check(not bad, f'text:as-written:{ctx.short(fi)}:{unparse(c.args[1])[:30]}', fi.site(c),
                      'the text that is parsed is the operand / directive text itself (a quoted blank, a tab inside quotes, the letter case of a label are part of it)',
                      f'parsed text is {unparse(e)[:120]}: rewritten by {", ".join(sorted({x.func.attr for x in bad}))}() before the parser sees it')
    if n < 8:
        ctx.err('text:inventory', '-', 'at least 8 calls of parse_expression', f'{n}')
    # a text composed around what was written (the `0 - <offset>` of a negative register offset): what is put in front of the
    # written text is digits, blanks and + / - only, nothing follows it and it is not wrapped in parentheses - the written text stays
    # the tail of one additive chain, so its own operators keep their left-to-right reading
    base = ctx.repo.find_class('ExpressionByteCodePart')
    family = {base.name} | {c_.name for c_ in base.all_subclasses()}
    composed = 0
    for q, fi in sorted(ctx.repo.functions.items()):
        sinks = []
        for c in ast.walk(fi.node):
            if isinstance(c, ast.Call) and unparse(c.func).split('.')[-1] in family and (c.args or c.keywords):
                a = c.args[0] if c.args else next((k.value for k in c.keywords if k.arg == 'value_expression'), None)
                if a is not None:
                    sinks.append((c, a))
            elif isinstance(c, ast.Call) and unparse(c.func).split('.')[-1] == 'parse_expression' and len(c.args) >= 2:
                sinks.append((c, c.args[1]))
        for c, a in sinks:
            cands = [a]
            if isinstance(a, ast.Name):
                cands = [st_.value for st_ in ast.walk(fi.node) if isinstance(st_, ast.Assign) and any(isinstance(t, ast.Name) and t.id == a.id for t in st_.targets)]
                cands += [st_.value for st_ in ast.walk(fi.node) if isinstance(st_, ast.AnnAssign) and st_.value is not None and isinstance(st_.target, ast.Name) and st_.target.id == a.id]
            for e in cands:
                parts = None
                if isinstance(e, ast.JoinedStr):
                    parts = list(e.values)
                elif isinstance(e, ast.BinOp) and isinstance(e.op, ast.Add):
                    parts, todo = [], [e]
                    while todo:
                        x = todo.pop()
                        if isinstance(x, ast.BinOp) and isinstance(x.op, ast.Add):
                            todo.append(x.right)
                            todo.append(x.left)
                        else:
                            parts.append(x)
                    if not any(isinstance(x, ast.Constant) and isinstance(x.value, str) for x in parts):
                        parts = None
                elif isinstance(e, ast.BinOp) and isinstance(e.op, ast.Mod) and isinstance(e.left, ast.Constant) and isinstance(e.left.value, str):
                    parts = [e.left]            # %-formatting: the template must itself end with the written text: not analysed, refuse
                if parts is None:
                    continue
                composed += 1
                consts = [x.value for x in parts if isinstance(x, ast.Constant) and isinstance(x.value, str)]
                ok = bool(parts) and not (isinstance(parts[-1], ast.Constant)) and all(re.fullmatch(r'[0-9 +\-]*', t) for t in consts)
                ctx.check(ok, f'text:composed:{ctx.short(fi)}:{unparse(a)[:30]}', fi.site(e),
                          'a text composed for the parser only puts digits, blanks, + or - in front of the written text: no parentheses around it, nothing after it',
                          f'composed as {unparse(e)[:120]}')
    if composed < 1:
        ctx.err('text:composed-inventory', '-', 'the composed `0 - offset` text of the register-indirect operand', f'{composed}')


def c07_5(ctx):
    ctx.rule('C07.5', 'literal notations: pattern branches and parse_numeric_string branches agree', 8)
    util = 'bespokeasm.utilities'
    pn = ctx.fold.module_const(util, 'PATTERN_NUMERIC')
    branches = rx.top_branches(pn)
    HEX = frozenset('0123456789abcdefABCDEF')
    lexer = {}   # (kind, literal) -> digit class
    import re._constants as _sre
    for bi, b in enumerate(branches):
        # the digits of a numeric literal are one run of one digit class, nothing else (no separate first-digit rule)
        classy = [(op, av) for k_, (op, av) in enumerate(b) if op in (_sre.IN, _sre.MAX_REPEAT, _sre.MIN_REPEAT, _sre.ANY, _sre.CATEGORY)
                  and not (k_ == 0 and op == _sre.IN and all(x[0] == _sre.LITERAL for x in av))]      # a leading set of one-character markers (b|%)
        quoted = any(op == _sre.LITERAL and av in (39, 34) for op, av in b)
        if not quoted:
            ok_shape = len(classy) == 1 and classy[0][0] == _sre.MAX_REPEAT and classy[0][1][0] == 1 and str(classy[0][1][1]) == 'MAXREPEAT'
            ctx.check(ok_shape, f'literal:digits-one-run:{bi}', f'{ctx.repo.module(util).relpath}:5',
                      'a numeric notation is its marker plus one or more digits of its base - every digit string of that base is a literal',
                      f'branch {bi} of PATTERN_NUMERIC restricts the digits further: {[str(x[0]) for x in b]}')
        pre = rx.literal_prefixes(b)
        cls = rx.repeated_class(b)
        suf = rx.literal_suffix(b)
        if pre is None:
            ctx.err('literal:pattern-branch', f'{ctx.repo.module(util).relpath}:5', 'pattern branch has a literal prefix / class shape', str(b))
            continue
        if pre and pre != [''] and cls is not None:
            for p in pre:
                lexer[('prefix', p)] = cls
        elif suf and cls is not None:
            lexer[('suffix', suf)] = cls
        elif cls is not None:
            lexer[('plain', '')] = cls
        elif pre and pre[0].startswith("'"):
            lexer[('char', "'")] = None
    pf = ctx.repo.func(util + '.parse_numeric_string')
    arg = pf.call_params[0].arg
    parser = {}
    order = []
    from engine.helpers import folded_chain
    node = next((s for s in folded_chain(pf) if isinstance(s, ast.If)), None)
    unknown_tests = []
    while node is not None:
        tests = node.test.values if isinstance(node.test, ast.BoolOp) and isinstance(node.test.op, ast.Or) else [node.test]
        ret = next((s for s in node.body if isinstance(s, ast.Return)), None)
        for t in tests:
            if isinstance(t, ast.Call) and isinstance(t.func, ast.Attribute) and t.func.attr in ('startswith', 'endswith') \
                    and unparse(t.func.value) == arg and isinstance(t.args[0], ast.Constant):
                lit = t.args[0].value
                kind = 'prefix' if t.func.attr == 'startswith' else 'suffix'
                parser[(kind, lit)] = ret
                order.append((kind, lit))
            else:
                unknown_tests.append(t)
        if node.orelse and isinstance(node.orelse[0], ast.If):
            node = node.orelse[0]
        else:
            parser[('plain', '')] = next((s for s in node.orelse if isinstance(s, ast.Return)), None)
            node = None
    site = pf.site()
    # a text without one of the markers is a decimal number: no branch of the decision list is keyed by anything but a marker
    known_markers = {('prefix', '$'), ('prefix', '0x'), ('prefix', '0X'), ('suffix', 'H'), ('suffix', 'h'), ('prefix', 'b'), ('prefix', 'B'), ('prefix', '%'),
                     ('prefix', "'"), ('prefix', '"')}
    extra = [o for o in order if o not in known_markers]
    ctx.check(not unknown_tests and not extra, 'literal:decimal-unless-marked', pf.site(unknown_tests[0]) if unknown_tests else site,
              'every branch of the decision list is keyed by one of the notation markers ($ 0x H b % quote); a text without a marker is converted as a decimal number',
              'branch keyed by ' + '; '.join([unparse(t)[:80] for t in unknown_tests] + [repr(o) for o in extra]))
    bases = {'$': 16, '0x': 16, 'H': 16, 'b': 2, '%': 2}
    digits = {16: HEX, 2: frozenset('01'), 10: frozenset('0123456789')}
    for (kind, lit), base in [(('prefix', '$'), 16), (('prefix', '0x'), 16), (('suffix', 'H'), 16), (('prefix', 'b'), 2), (('prefix', '%'), 2), (('plain', ''), 10)]:
        key = f'literal:{kind}:{lit or "decimal"}'
        r = parser.get((kind, lit))
        lx = lexer.get((kind, lit))
        if r is None or lx is None:
            ctx.refute(key, site, f'notation {kind} {lit!r} is both recognised by PATTERN_NUMERIC and converted by parse_numeric_string',
                       f'pattern recognises it: {lx is not None}; parser converts it: {r is not None}')
            continue
        v = r.value
        ok = isinstance(v, ast.Call) and unparse(v.func) == 'int'
        got_base = None
        sl_ok = False
        if ok:
            got_base = ctx.fold.try_fold(v.args[1], pf.module) if len(v.args) > 1 else next(
                (ctx.fold.try_fold(k.value, pf.module) for k in v.keywords if k.arg == 'base'), 10)
            a0 = v.args[0]
            if kind == 'plain':
                sl_ok = unparse(a0) == arg
            elif isinstance(a0, ast.Subscript) and unparse(a0.value) == arg and isinstance(a0.slice, ast.Slice):
                lo = ctx.fold.try_fold(a0.slice.lower, pf.module) if a0.slice.lower is not None else None
                hi = ctx.fold.try_fold(a0.slice.upper, pf.module) if a0.slice.upper is not None else None
                sl_ok = (lo, hi) == ((len(lit), None) if kind == 'prefix' else (None, -len(lit)))
        ctx.check(ok and got_base == base and sl_ok and lx == digits[base], key, pf.site(r),
                  f'{kind} {lit!r}: digits {"".join(sorted(digits[base]))[:16]} converted in base {base} after removing exactly the marker',
                  f'{unparse(v)}; pattern digit class {"".join(sorted(lx))}')
    # a literal may begin like one notation and end like another (`beefH`: hex digits with the H suffix, beginning with the binary
    # marker b): the notation whose digit class covers the other's marker must be tried first - H before b
    if ('suffix', 'H') in order and ('prefix', 'b') in order:
        ctx.check(order.index(('suffix', 'H')) < order.index(('prefix', 'b')), 'literal:suffix-H-before-prefix-b', site,
                  'the H suffix is tested before the b prefix (b is a hex digit: `beefH`, `b8H` are hexadecimal)',
                  f'order of the tests: {order}: `beefH` is handed to the binary conversion')
    ch = parser.get(('prefix', "'"))
    ok = ch is not None and ('char', "'") in lexer
    if ok:
        v = ch.value if isinstance(ch, ast.Return) else None
        ok = isinstance(v, ast.Call) and unparse(v.func) == 'ord'
    ctx.check(ok, 'literal:char', site, "a quoted character denotes its ordinal", unparse(ch) if ch is not None else 'no branch')
    # the recogniser the lexer and the label rules ask: a text is numeric iff the pattern matches it - the only other way out is
    # the blank / empty text the pattern cannot be asked about
    isn = ctx.repo.func(util + '.is_string_numeric')
    a_n = isn.call_params[0].arg
    blank_tests = {f'{a_n}.isspace()', f'not {a_n}', f'not {a_n}.strip()', f'len({a_n}) == 0', f"{a_n} == ''", f'{a_n} is None',
                   f"{a_n}.strip() == ''", f'len({a_n}.strip()) == 0'}
    pm = parent_map(isn.node)
    rets_n = sorted(returns(isn), key=lambda r_: (r_.lineno, r_.col_offset))
    extra = []
    for r in rets_n:
        if r is rets_n[-1] and pm.get(id(r)) is isn.node:
            continue
        par = pm.get(id(r))
        tests = []
        if isinstance(par, ast.If) and r in par.body and len(par.body) == 1:
            tests = par.test.values if isinstance(par.test, ast.BoolOp) and isinstance(par.test.op, ast.Or) else [par.test]
        falsy = isinstance(r.value, ast.Constant) and r.value.value is False
        if not (falsy and tests and all(unparse(t) in blank_tests for t in tests) and pm.get(id(par)) is isn.node):
            extra.append(r)
    last = rets_n[-1] if rets_n else None
    lv = deref(ctx, isn, last.value, last) if last is not None and last.value is not None else None
    asks_pattern = False
    if last is not None:
        texts = [unparse(n) for st_ in isn.node.body for n in ast.walk(st_) if isinstance(n, ast.Call)]
        asks_pattern = any(('PATTERN_NUMERIC' in t and ('match(' in t)) for t in texts)
    ctx.check(not extra and asks_pattern, 'literal:recogniser-is-the-pattern', isn.site(extra[0]) if extra else isn.site(),
              'is_string_numeric answers from PATTERN_NUMERIC alone (a blank text aside): every notation the pattern has is a number for the lexer',
              '; '.join(f'early answer: {unparse(pm.get(id(r)))[:110]}' for r in extra) or 'no match against PATTERN_NUMERIC')
    # lexer classification order: numeric before label; BYTE function token before both
    lex = ctx.repo.func(EX + '._lexical_analysis')
    chain = []
    for n in walk_no_nested(lex.node):
        if isinstance(n, ast.If) and 'TOKEN_MAPPINGS' in unparse(n.test):
            cur = n
            while cur is not None:
                chain.append(unparse(cur.test))
                cur = cur.orelse[0] if cur.orelse and isinstance(cur.orelse[0], ast.If) else None
    def idx(sub):
        return next((i for i, t in enumerate(chain) if sub in t), None)
    i_num, i_lab = idx('is_string_numeric'), idx('is_valid_label')
    ctx.check(i_num is not None and i_lab is not None and i_num < i_lab, 'literal:numeric-before-label', lex.site(),
              'a token is tried as a number before it is tried as a label', f'classification order: {chain}')
    # BYTEn index
    comp = ctx.repo.func(EX + '.ExpressionNode._compute')
    idxs = [n for n in ast.walk(comp.node) if isinstance(n, ast.Subscript) and unparse(n.value) == 'self.value']
    byte_lit = None
    for n in walk_no_nested(lex.node):
        if isinstance(n, ast.Call) and isinstance(n.func, ast.Attribute) and n.func.attr == 'startswith' and n.args \
                and isinstance(n.args[0], ast.Constant) and str(n.args[0].value).startswith('BYTE'):
            byte_lit = n.args[0].value
    ok = len(idxs) == 1 and byte_lit is not None and ctx.fold.try_fold(idxs[0].slice, comp.module) == len(byte_lit)
    ctx.check(ok, 'function:BYTEn-index', comp.site(idxs[0]) if idxs else comp.site(),
              'BYTEn( selects the byte whose index is the character right after the literal BYTE',
              f'index expression {unparse(idxs[0]) if idxs else None}, literal {byte_lit!r}')
    tb = [c for c in ast.walk(comp.node) if isinstance(c, ast.Call) and isinstance(c.func, ast.Attribute) and c.func.attr == 'to_bytes']
    ok = len(tb) == 1 and any(k.arg == 'byteorder' and ctx.fold.try_fold(k.value, comp.module) == 'little' for k in tb[0].keywords)
    sel = [r for r in returns(comp) if isinstance(r.value, ast.Subscript) and unparse(r.value.slice) == 'byte_idx']
    ctx.check(ok and len(sel) == 1, 'function:byte-selection', comp.site(tb[0]) if tb else comp.site(),
              'byte n is element n of the little-endian two\'s-complement representation', unparse(tb[0]) if tb else 'no to_bytes')
    # the value is reduced modulo 2**(8*N) for the very N bytes it is then split into, N >= n + 1
    if tb:
        n_expr = tb[0].args[0] if tb[0].args else next((k.value for k in tb[0].keywords if k.arg == 'length'), None)
        val = deref(ctx, comp, tb[0].func.value, tb[0])
        r5 = resolver(ctx, comp, inline=False)
        ok = False
        detail = f'{unparse(val)} .to_bytes({unparse(n_expr)})'
        if isinstance(val, ast.BinOp) and isinstance(val.op, ast.BitAnd) and n_expr is not None:
            from engine.lin import to_lin
            mask = val.right if 'arg_value' in unparse(val.left) else val.left
            want = to_lin(ast.parse(f'2 ** (8 * ({unparse(n_expr)})) - 1', mode='eval').body, r5)
            ok = to_lin(mask, r5).key() == want.key()
            nd = deref(ctx, comp, n_expr, tb[0])
            # the length variable must denote the same definition where the mask is built and where the bytes are split
            if isinstance(n_expr, ast.Name):
                mask_stmt = next((st_ for st_ in ast.walk(comp.node) if isinstance(st_, ast.Assign) and st_.value is val), None)
                d_mask = reaching_def(ctx, comp, n_expr.id, mask_stmt) if mask_stmt is not None else None
                d_use = reaching_def(ctx, comp, n_expr.id, tb[0])
                if d_mask is not d_use:
                    ok = False
                    detail_extra = f' ({n_expr.id} is redefined between the mask and to_bytes: mask uses {unparse(d_mask) if d_mask is not None else None})'
                else:
                    detail_extra = ''
            else:
                detail_extra = ''
            n_ok = isinstance(nd, ast.Call) and unparse(nd.func) == 'max' and any(
                to_lin(a, r5).key() == to_lin(ast.parse('byte_idx + 1', mode='eval').body, r5).key() for a in nd.args)
            ok = ok and n_ok
            detail = f'mask {unparse(mask)}; length {unparse(n_expr)} = {unparse(nd)}' + detail_extra
        ctx.check(ok, 'function:twos-complement-width', comp.site(tb[0]),
                  'the argument is reduced modulo 2**(8*N) for the same N >= n+1 bytes it is split into (sign extension up to byte n)', detail)
    # the lexer admits exactly one index digit after BYTE (the evaluator reads exactly one)
    parts = ctx.fold.module_const(EX, 'EXPRESSION_PARTS_PATTERN')
    import re._constants as _sre
    shape = None
    for br in rx.top_branches(parts):
        lits = ''.join(chr(a) for o, a in br if o == _sre.LITERAL)
        if lits.startswith('BYTE'):
            rest = [it for it in br if not (it[0] == _sre.LITERAL and chr(it[1]) in 'BYTE')]
            shape = [str(o) for o, a in rest]
            single = len(rest) == 2 and rest[0][0] == _sre.IN and rx.set_chars(rest[0][1]) == frozenset('0123456789') and rest[1] == (_sre.LITERAL, ord('('))
    ctx.check(shape is not None and single, 'function:BYTEn-single-digit', 'src/bespokeasm/expression/__init__.py:20',
              'the token pattern for BYTEn( admits exactly one index digit, the one the evaluator reads',
              f'pattern items after BYTE: {shape}: a multi-digit index is lexed but only its first digit is used')
    kw = ctx.fold.module_const('bespokeasm.assembler.keywords', 'EXPRESSION_FUNCTIONS_SET')
    ctx.check(set(kw) == {'LSB'} | {f'BYTE{i}' for i in range(10)}, 'function:keyword-set', 'src/bespokeasm/assembler/keywords.py:16', 'the expression functions are LSB and BYTE0..BYTE9', str(sorted(kw)))
    # LSB -> index 0
    init = [n for n in ast.walk(comp.node) if isinstance(n, ast.Assign) and unparse(n.targets[0]) == 'byte_idx']
    ok = any(isinstance(n.value, ast.Constant) and n.value.value == 0 for n in init)
    ctx.check(ok, 'function:LSB-index-0', comp.site(), 'LSB( selects byte 0', '; '.join(unparse(n) for n in init))


def c07_state(ctx):
    """Per-statement / per-lookup properties presuppose that nothing is remembered between statements beyond the reviewed state."""
    from rules.shared import state_discipline
    state_discipline(ctx, ('bespokeasm.expression', 'bespokeasm.utilities', 'bespokeasm.assembler.bytecode.parts', 'bespokeasm.assembler.line_object.data_line'))


RULES = [c07_1, c07_2, c07_3, c07_4, c07_5, c07_state, c07_who, c07_text]

_X = 'expression/__init__.py'
_U = 'utilities.py'
MUTANTS = [
    V('c07-float-division', 'expression/__init__.py', "                left_result = Fraction(left_result)\n                right_result = Fraction(right_result)", "                left_result = float(left_result)\n                right_result = float(right_result)", 'C07.3'),
    V('c07-hex-suffix-needs-leading-digit', 'utilities.py', "PATTERN_HEX = r'(?:\\$|0x)[0-9a-fA-F]+|[0-9a-fA-F]+H\\b'", "PATTERN_HEX = r'(?:\\$|0x)[0-9a-fA-F]+|[0-9][0-9a-fA-F]*H\\b'", 'C07.5'),
    V('c07-lexer-advance-before-gap', 'expression/__init__.py', '''        # anything between recognized parts other than whitespace is not part of a valid expression
        skipped_text = s[scan_position:part_match.start()].strip()
        if skipped_text != '':
            raise SyntaxError(f'ERROR: {line_id} - invalid text in expression: {skipped_text}')
        expression_parts.append(part_match.group(0))
        scan_position = part_match.end()
''', '''        expression_parts.append(part_match.group(0))
        scan_position = part_match.end()
        # anything between recognized parts other than whitespace is not part of a valid expression
        skipped_text = s[scan_position:part_match.start()].strip()
        if skipped_text != '':
            raise SyntaxError(f'ERROR: {line_id} - invalid text in expression: {skipped_text}')
''', 'C07.4'),
    V('c07-neg-loose', _X, "        tokens.pop(0)\n        node.left_child = _parse_e4(line_id, tokens)", "        tokens.pop(0)\n        node.left_child = _parse_e(line_id, tokens)", 'C07.1'),
    V('c07-neg-mul-level', _X, "        tokens.pop(0)\n        node.left_child = _parse_e4(line_id, tokens)", "        tokens.pop(0)\n        node.left_child = _parse_e3(line_id, tokens)", 'C07.1'),
    V('c07-plus-in-mult', _X, "[TokenType.T_MULT, TokenType.T_DIV, TokenType.T_MOD]:\n        node = tokens.pop(0)", "[TokenType.T_MULT, TokenType.T_DIV, TokenType.T_MOD, TokenType.T_PLUS]:\n        node = tokens.pop(0)", 'C07.1'),
    V('c07-minus-right-assoc', _X, "        node.right_child = _parse_e3(line_id, tokens)", "        node.right_child = _parse_e2(line_id, tokens)", 'C07.1'),
    V('c07-minus-is-add', _X, "TokenType.T_MINUS: operator.sub", "TokenType.T_MINUS: operator.add", 'C07.2'),
    V('c07-div-floor', _X, "TokenType.T_DIV: operator.truediv", "TokenType.T_DIV: operator.floordiv", 'C07.2'),
    V('c07-no-final-int', _X, "        return int(calculated_value)", "        return calculated_value", 'C07.3'),
    V('c07-round', _X, "        return int(calculated_value)", "        return round(calculated_value)", 'C07.3'),
    V('c07-H-base10', _U, "        return int(numeric_str[:-1], 16)", "        return int(numeric_str[:-1], 10)", 'C07.5'),
    V('c07-0x-slice', _U, "        return int(numeric_str[2:], 16)", "        return int(numeric_str[1:].replace('x', '0'), 16)", 'C07.5'),
    V('c07-findall', _X, '''    expression_parts = []
    scan_position = 0
    for part_match in re.finditer(EXPRESSION_PARTS_PATTERN, s):
        # anything between recognized parts other than whitespace is not part of a valid expression
        skipped_text = s[scan_position:part_match.start()].strip()
        if skipped_text != '':
            raise SyntaxError(f'ERROR: {line_id} - invalid text in expression: {skipped_text}')
        expression_parts.append(part_match.group(0))
        scan_position = part_match.end()
    if s[scan_position:].strip() != '':
        raise SyntaxError(f'ERROR: {line_id} - invalid text in expression: {s[scan_position:].strip()}')
''', '''    expression_parts = re.findall(EXPRESSION_PARTS_PATTERN, s)
''', 'C07.4'),
    V('c07-no-trailing-check', _X, '''    if s[scan_position:].strip() != '':
        raise SyntaxError(f'ERROR: {line_id} - invalid text in expression: {s[scan_position:].strip()}')
''', '', 'C07.4'),
    V('c07-swapped-children', _X, '''        node.left_child = left_node
        node.right_child = _parse_e3(line_id, tokens)''', '''        node.right_child = left_node
        node.left_child = _parse_e3(line_id, tokens)''', 'C07.1'),
    V('c07-apply-swapped', _X, "            return operation(left_result, right_result)", "            return operation(right_result, left_result)", 'C07.2'),
    V('c07-byte-index', _X, "byte_idx = int(self.value[4])", "byte_idx = int(self.value[3])", 'C07.5'),
    V('c07-byte-big', _X, "arg_value_bytes = masked_arg.to_bytes(byte_count, byteorder='little', signed=False)", "arg_value_bytes = masked_arg.to_bytes(byte_count, byteorder='big', signed=False)", 'C07.5'),
    V('c07-label-before-number', _X, '''        elif is_string_numeric(part):
            token = ExpressionNode(TokenType.T_NUM, value=parse_numeric_string(part))
        elif is_valid_label(part):
            token = ExpressionNode(TokenType.T_LABEL, value=part)''', '''        elif is_valid_label(part):
            token = ExpressionNode(TokenType.T_LABEL, value=part)
        elif is_string_numeric(part):
            token = ExpressionNode(TokenType.T_NUM, value=parse_numeric_string(part))''', 'C07.5'),
    V('c07-int-div', _X, "                        TokenType.T_RIGHT_SHIFT\n                    ]:", "                        TokenType.T_RIGHT_SHIFT,\n                        TokenType.T_DIV\n                    ]:", 'C07.3'),
    V('c07-trailing-tokens-ok', _X, "    ast = _parse_e(line_id, tokens)\n    _match(line_id, tokens, TokenType.T_END)\n", "    ast = _parse_e(line_id, tokens)\n", 'C07.1'),
    V('c07-func-arg-tight', _X, "        node = tokens.pop(0)\n        node.left_child = _parse_e(line_id, tokens)\n        _match(line_id, tokens, TokenType.T_RPAR)", "        node = tokens.pop(0)\n        node.left_child = _parse_e2(line_id, tokens)\n        _match(line_id, tokens, TokenType.T_RPAR)", 'C07.1'),
]
MUTANTS += [
    V('c07-and-level-recursive', _X, '''    while tokens[0].token_type in [TokenType.T_AND, TokenType.T_OR, TokenType.T_XOR]:
        node = tokens.pop(0)
        node.left_child = left_node
        node.right_child = _parse_e1(line_id, tokens)
        left_node = node
    return left_node''', '''    if tokens[0].token_type in [TokenType.T_AND, TokenType.T_OR, TokenType.T_XOR]:
        node = tokens.pop(0)
        node.left_child = left_node
        node.right_child = _parse_e(line_id, tokens)
        return node
    return left_node''', 'C07.1:grammar:left-assoc:_parse_e'),
    V('c07-byte-no-sign-extension', _X, '''            byte_count = max(((abs(arg_value).bit_length() + 7) // 8), byte_idx+1)
            masked_arg = arg_value & (2**(8 * byte_count) - 1)''', '''            value_byte_count = max((abs(arg_value).bit_length() + 7) // 8, 1)
            masked_arg = arg_value & (2**(8 * value_byte_count) - 1)
            byte_count = max(value_byte_count, byte_idx+1)''', 'C07.5'),
    V('c07-byte-multi-digit', _X, "BYTE\\d\\(|", "BYTE\\d+\\(|", 'C07.5'),
    V('c07-byte-count-redefined', _X, '''            byte_count = max(((abs(arg_value).bit_length() + 7) // 8), byte_idx+1)
            masked_arg = arg_value & (2**(8 * byte_count) - 1)''', '''            byte_count = (abs(arg_value).bit_length() + 7) // 8
            masked_arg = arg_value & (2**(8 * byte_count) - 1)
            byte_count = max(byte_count, byte_idx+1)''', 'C07.5'),
    V('c07-floor-final', _X, "        return int(calculated_value)", "        return int(calculated_value // 1)", 'C07.3'),
]
TWINS = [
    V('c07-t-set-literal', _X, "while tokens[0].token_type in [TokenType.T_PLUS, TokenType.T_MINUS]:", "while tokens[0].token_type in (TokenType.T_MINUS, TokenType.T_PLUS):"),
    V('c07-t-int-named', _X, "        return int(calculated_value)", "        result = int(calculated_value)\n        return result"),
    V('c07-t-base-kw', _U, "        return int(numeric_str[1:], 2)", "        return int(numeric_str[1:], base=2)"),
]
MUTANTS += [
    V('c07-integer-fast-path-floordiv', 'expression/__init__.py', """            elif self.token_type in [TokenType.T_DIV, TokenType.T_MOD]:
""", """            elif self.token_type in [TokenType.T_DIV, TokenType.T_MOD]:
                if isinstance(left_result, int) and isinstance(right_result, int) and self.token_type == TokenType.T_DIV:
                    return operator.floordiv(left_result, right_result)
""", 'C07.3'),
    V('c07-octal-branch', 'utilities.py', """    else:
        return int(numeric_str)
""", """    elif len(numeric_str) > 1 and numeric_str[0] == '0' and numeric_str.isdigit():
        return int(numeric_str, 8)
    else:
        return int(numeric_str)
""", 'C07.5'),
]
