"""C16 - all output formats describe the same memory contents as the binary image."""
import ast
from engine.cfg import is_sys_exit_call

from engine.index import AnalysisError
from engine.helpers import (resolver, facts_at, filter_facts_at, lit_cmp, describe_facts, unparse, walk_no_nested, returns,
                            deref, body_only_aborts, calls_to, reaching_def, is_abort_stmt, self_attr_stores)
from engine.lin import clause_implies, to_cnf
from engine.types import bind_args
from engine.selftest import V

ENGINE = 'bespokeasm.assembler.engine.Assembler.assemble_bytecode'
PP = 'bespokeasm.assembler.pretty_printer'

EXPLANATION = (
    'Static rules over the engine and the printers reachable from the command line format choices. Decided: C16.1 the '
    'printers receive the very list (sorted, with predefined data) the image is built from and keep it unchanged; C16.2 '
    'selection agreement: the image builder and every printer select bytes by the same predicate (byte-producing and not '
    'muted) - refuted today for the listing (known finding); C16.3 address provenance: every byte-emitting branch uses that '
    'line\'s own address and own bytes - refuted today for the compact hex format (known finding), whose row/address '
    'framing is otherwise checked (row closed after 16 bytes, open row closed before an address record); C16.4 the listing '
    'prints every line object exactly once with its own address and its own bytes. The image side re-evaluates C03.1/C03.3. '
    'Not decided: decoding equality of the formats (IntelHex library, column arithmetic).'
)
ASSUMPTIONS = ['the intelhex library stores puts(address, bytes) faithfully', 'source_details is not reachable from the CLI choices and is not checked']


def _cli_formats(ctx):
    comp = ctx.repo.func('bespokeasm.__main__.compile')
    for d in comp.node.decorator_list:
        if isinstance(d, ast.Call) and any(isinstance(a, ast.Constant) and a.value == '--pretty-print-format' for a in d.args):
            for k in d.keywords:
                if k.arg == 'type' and isinstance(k.value, ast.Call) and unparse(k.value.func) == 'click.Choice':
                    return ctx.fold.try_fold(k.value.args[0], comp.module) or []
    raise AnalysisError('--pretty-print-format choices not found')


def _printer_table(ctx):
    fac = ctx.repo.func(PP + '.factory.PrettyPrinterFactory.getPrettyPrinter')
    table = {}
    for n in walk_no_nested(fac.node):
        if isinstance(n, ast.If) and isinstance(n.test, ast.Compare) and isinstance(n.test.comparators[0], ast.Constant):
            r = next((s for s in n.body if isinstance(s, ast.Return)), None)
            if r is not None and isinstance(r.value, ast.Call):
                table[n.test.comparators[0].value] = (unparse(r.value.func), r.value)
    return fac, table


def c16_1(ctx):
    ctx.rule('C16.1', 'printers receive the list the image is built from', 6)
    eng = ctx.repo.func(ENGINE)
    gp = [c for c in ast.walk(eng.node) if isinstance(c, ast.Call) and unparse(c.func).endswith('getPrettyPrinter')]
    if len(gp) != 1:
        raise AnalysisError('assemble_bytecode: expected one getPrettyPrinter call')
    fac, table = _printer_table(ctx)
    b = bind_args(gp[0], fac)
    from rules.c02 import second_pass_loop
    l2 = second_pass_loop(ctx, eng)
    g = ctx.cfg(eng)
    ok = unparse(b.get('line_objs')) == unparse(l2.iter)
    ctx.check(ok, 'same-list:engine', eng.site(gp[0]), 'the printers get the sorted list the second pass generated (the list the image is built from)', unparse(b.get('line_objs')))
    ex2 = next(s for s in g.succ[g.node_of(l2)] if g.nodes[s].kind == 'branch' and not g.nodes[s].polarity)
    ctx.check(g.dominates(ex2, g.node_of(gp[0])), 'same-list:after-generation', eng.site(gp[0]), 'printing happens after every line generated its bytes', '')
    ctx.check(unparse(b.get('pretty_printer_type')) == 'self._pretty_print_format' and unparse(b.get('model')) == 'self._model', 'same-list:format', eng.site(gp[0]),
              'the requested format and the model are passed', unparse(gp[0])[:120])
    fmts = _cli_formats(ctx)
    want = {'minhex': 'MinHexPrettyPrinter', 'hex': 'IntelHexPrettyPrinter', 'intel_hex': 'IntelHexPrettyPrinter', 'listing': 'ListingPrettyPrinter'}
    for f in fmts:
        got = table.get(f)
        ok = got is not None and got[0] == want.get(f) and unparse(got[1].args[0]) == 'line_objs' and unparse(got[1].args[1]) == 'model'
        if ok and f in ('hex', 'intel_hex'):
            ok = unparse(got[1].args[2]) == ('True' if f == 'intel_hex' else 'False')
        ctx.check(ok, f'same-list:factory:{f}', fac.site(got[1]) if got else fac.site(), f'format {f} is printed by {want.get(f)} over the unchanged line list',
                  unparse(got[1]) if got else 'no branch')
    bi = ctx.repo.func(PP + '.PrettyPrinterBase.__init__')
    st = self_attr_stores(bi.node, '_line_objs')
    lo = ctx.repo.func(PP + '.PrettyPrinterBase.line_objects')
    rr = returns(lo)
    ok = len(st) == 1 and unparse(st[0][2]) == 'line_objs' and len(rr) == 1 and unparse(rr[0].value) == 'self._line_objs'
    ctx.check(ok, 'same-list:kept', bi.site(), 'a printer keeps and returns the list it was given', '')
    base = ctx.repo.cls(PP + '.PrettyPrinterBase')
    for c in base.all_subclasses():
        i = c.methods.get('__init__')
        if i is None:
            continue
        sup = [x for x in ast.walk(i.node) if isinstance(x, ast.Call) and unparse(x.func) == 'super().__init__']
        ok = len(sup) == 1 and unparse(sup[0].args[0]) == 'line_objs'
        ctx.check(ok, f'same-list:super:{c.name}', i.site(), f'{c.name} passes the list on unchanged', '; '.join(unparse(s) for s in sup))


def _byte_uses(ctx, fn):
    """(call node, receiver name) for every <x>.get_bytes() in fn."""
    return [(c, unparse(c.func.value)) for c in ast.walk(fn.node) if isinstance(c, ast.Call) and isinstance(c.func, ast.Attribute)
            and c.func.attr == 'get_bytes' and not c.args]


def c16_2(ctx):
    ctx.rule('C16.2', 'bytes of muted lines reach no memory-describing output; same selection as the image', 4)
    from rules.c03 import c03_1, c03_3
    c03_1(ctx)
    c03_3(ctx)
    ctx.rule('C16.2', 'bytes of muted lines reach no memory-describing output; same selection as the image', 4)
    fmts = _cli_formats(ctx)
    fac, table = _printer_table(ctx)
    classes = sorted({table[f][0] for f in fmts if f in table})
    for cname in classes:
        cls = ctx.repo.find_class(cname)
        funcs = [m for m in cls.methods.values() if m.name != '__init__']
        n = 0
        for fn in funcs:
            res = resolver(ctx, fn, inline=False)
            for c, recv in _byte_uses(ctx, fn):
                n += 1
                cl = facts_at(ctx, fn, c, res)
                lits = {l for cc in cl if len(cc) == 1 for l in cc}
                muted_ok = any(l[0] == 'truthy' and l[1] in (f'{recv}.is_muted', f'{recv}._is_muted') and l[2] is False for l in lits)
                if not muted_ok:
                    # `None if not isinstance(...) else f(lobj.get_bytes())` style: look at the enclosing conditional expression
                    muted_ok = False
                ctx.check(muted_ok, f'mute:{cname}.{fn.name}', fn.site(c), f'{cname} uses a line\'s bytes only if the line is not muted',
                          f'{unparse(c)} reached under {describe_facts(cl)}: bytes of muted lines are printed')
                fcl = filter_facts_at(ctx, fn, c, res)
                flits = {l for cc in fcl for l in cc}
                extra = [l for l in flits if not (l == ('isinstance', recv, 'LineWithBytes', True) or (l[0] == 'truthy' and 'is_muted' in l[1]))]
                if muted_ok:
                    ctx.check(not extra and ('isinstance', recv, 'LineWithBytes', True) in flits, f'select:{cname}.{fn.name}', fn.site(c),
                              'the printer selects exactly the unmuted byte-producing lines (as the image does)', describe_facts(fcl))
        if n == 0:
            ctx.err(f'mute:{cname}', f'{cls.module.relpath}:{cls.node.lineno}', 'the printer reads line bytes somewhere', 'no get_bytes() use found')


def c16_3(ctx):
    ctx.rule('C16.3', 'address provenance: every byte-emitting branch uses that line\'s own address and bytes', 4)
    ih = ctx.repo.func(PP + '.intelhex.IntelHexPrettyPrinter.pretty_print')
    puts = [c for c in ast.walk(ih.node) if isinstance(c, ast.Call) and isinstance(c.func, ast.Attribute) and c.func.attr in ('puts', 'frombytes', '__setitem__')]
    loops = [l for l in walk_no_nested(ih.node) if isinstance(l, ast.For) and unparse(l.iter) == 'self.line_objects']
    ok = len(puts) == 1 and len(loops) == 1
    detail = '; '.join(unparse(p) for p in puts)
    if ok:
        L = unparse(loops[0].target)
        d = deref(ctx, ih, puts[0].args[1], puts[0])
        ok = unparse(puts[0].args[0]) == f'{L}.address' and f'{L}.get_bytes()' in unparse(d) and any(x is puts[0] for x in ast.walk(loops[0]))
        detail = f'puts({unparse(puts[0].args[0])}, {unparse(d)})'
    ctx.check(ok, 'address:IntelHexPrettyPrinter.pretty_print', ih.site(puts[0]) if puts else ih.site(),
              'Intel HEX / hex dump store each line\'s own bytes at that line\'s own address', detail)
    outs = [c for c in ast.walk(ih.node) if isinstance(c, ast.Call) and isinstance(c.func, ast.Attribute) and c.func.attr in ('write_hex_file', 'dump')]
    res = resolver(ctx, ih, inline=False)
    kinds = {}
    for c in outs:
        cl = facts_at(ctx, ih, c, res)
        kinds[c.func.attr] = describe_facts(cl)
    ok = set(kinds) == {'write_hex_file', 'dump'} and "'self._as_intel_hex', True" in kinds['write_hex_file'] and "'self._as_intel_hex', False" in kinds['dump']
    ctx.check(ok, 'address:intelhex-output-kind', ih.site(), 'intel_hex writes records, hex writes the dump, both from the same store', str(kinds))
    ii = ctx.repo.func(PP + '.intelhex.IntelHexPrettyPrinter.__init__')
    st = self_attr_stores(ii.node, '_as_intel_hex')
    ctx.check(len(st) == 1 and unparse(st[0][2]) == 'as_intel_hex', 'address:intelhex-flag', ii.site(), 'the format flag is kept as given', '')
    # compact hex: positions come from emission order; an address is written only at .org lines (known finding)
    mh = ctx.repo.func(PP + '.minhex.MinHexPrettyPrinter.pretty_print')
    loops = [l for l in walk_no_nested(mh.node) if isinstance(l, ast.For) and unparse(l.iter) == 'self.line_objects']
    if len(loops) != 1:
        raise AnalysisError('MinHexPrettyPrinter.pretty_print: line loop not found')
    L = unparse(loops[0].target)
    rm = resolver(ctx, mh, inline=False)
    addr_uses = [a for a in ast.walk(loops[0]) if isinstance(a, ast.Attribute) and a.attr == 'address' and unparse(a.value) == L]
    byte_branch_uses = []
    for a in addr_uses:
        cl = facts_at(ctx, mh, a, rm)
        if any(('isinstance', L, 'LineWithBytes', True) in c for c in cl):
            byte_branch_uses.append(a)
    ctx.check(bool(byte_branch_uses), 'address:MinHexPrettyPrinter.pretty_print', mh.site(loops[0]),
              'the compact hex format writes (or checks) the address of every line whose bytes it emits',
              'bytes are positioned by emission order only; an address is written only at .org lines, so gaps from #mute, .memzone and .align are lost')
    # framing of the compact format
    cnt = 'line_byte_count'
    wr = [i for i in ast.walk(loops[0]) if isinstance(i, ast.If)]
    full = [i for i in wr if to_cnf(i.test, True, rm) == [frozenset({lit_cmp(ctx, mh, f'{cnt} == 16', rm)})]]
    ok = len(full) == 1 and [unparse(s) for s in full[0].body] == ["output.write('\\n')", f'{cnt} = 0']
    ctx.check(ok, 'minhex:row-closed-at-16', mh.site(full[0]) if full else mh.site(), 'a row is closed and the counter reset after exactly 16 bytes', '; '.join(unparse(i.test) for i in wr))
    org = [i for i in wr if to_cnf(i.test, True, rm) == [frozenset({lit_cmp(ctx, mh, f'{cnt} != 0', rm)})] and any(('isinstance', L, 'AddressOrgLine', True) in c for c in facts_at(ctx, mh, i, rm))]
    ok = len(org) == 1 and [unparse(s) for s in org[0].body] == ["output.write('\\n')", f'{cnt} = 0']
    ctx.check(ok, 'minhex:open-row-closed-before-address', mh.site(org[0]) if org else mh.site(), 'an open row is closed before an address record is written', '')
    from engine.helpers import fmt_view
    aw = [c for c in ast.walk(loops[0]) if isinstance(c, ast.Call) and unparse(c.func) == 'output.write' and c.args and f'{L}.address' in unparse(c)]
    ok = len(aw) == 1
    if ok:
        fv = fmt_view(aw[0].args[0])
        fields = [p for p in (fv or []) if p[0] == 'field']
        lits = ''.join(p[1] for p in (fv or []) if p[0] == 'lit')
        ok = fv is not None and len(fields) == 1 and unparse(fields[0][1]) == f'{L}.address' and fields[0][2].endswith('x') and lits == '\n' and fv[-1] == ('lit', '\n')
    ctx.check(ok, 'minhex:address-record', mh.site(aw[0]) if aw else mh.site(), 'an address record is the .org line\'s own address on a line of its own', '; '.join(unparse(a) for a in aw))
    inc = [n for n in ast.walk(loops[0]) if isinstance(n, ast.AugAssign) and unparse(n.target) == cnt]
    ok = len(inc) == 1 and unparse(inc[0].value) == '1' and isinstance(inc[0].op, ast.Add)
    ctx.check(ok, 'minhex:one-count-per-byte', mh.site(), 'the row counter counts bytes one by one', '; '.join(unparse(i) for i in inc))


def c16_4(ctx):
    ctx.rule('C16.4', 'the listing shows every line object exactly once with its own address and bytes', 4)
    pp = ctx.repo.func(PP + '.listing.ListingPrettyPrinter.pretty_print')
    loops = [l for l in walk_no_nested(pp.node) if isinstance(l, ast.For)]
    ok = len(loops) == 1
    if ok:
        lp = loops[0]
        src = deref(ctx, pp, lp.iter, lp)
        ok = unparse(src) == 'self.line_objects.copy()'
        calls_ = [c for c in ast.walk(lp) if isinstance(c, ast.Call) and unparse(c.func) == 'self._print_line_object']
        g = ctx.cfg(pp)
        head = g.node_of(lp)
        be = next(s for s in g.succ[head] if g.nodes[s].kind == 'branch' and g.nodes[s].polarity)
        ok = ok and len(calls_) == 1 and unparse(calls_[0].args[1]) == unparse(lp.target) and g.all_paths_through(be, head, {g.node_of(calls_[0])})
    ctx.check(ok, 'listing:each-line-once', pp.site(), 'every line object of (a copy of) the list is printed exactly once', '')
    pl = ctx.repo.func(PP + '.listing.ListingPrettyPrinter._print_line_object')
    lo = pl.call_params[1].arg
    aw = [c for c in ast.walk(pl.node) if isinstance(c, ast.Call) and 'self._address_format_str.format' in unparse(c.func)]
    ctx.check(len(aw) == 1 and unparse(aw[0].args[0]) == f'{lo}.address', 'listing:own-address', pl.site(aw[0]) if aw else pl.site(), 'the address column is the line\'s assigned address', '; '.join(unparse(a) for a in aw))
    gb = [c for c in ast.walk(pl.node) if isinstance(c, ast.Call) and isinstance(c.func, ast.Attribute) and c.func.attr == 'get_bytes']
    ctx.check(len(gb) == 1 and unparse(gb[0].func.value) == lo, 'listing:own-bytes', pl.site(gb[0]) if gb else pl.site(), 'the byte column is the line\'s own bytes', '; '.join(unparse(a) for a in gb))
    gen = ctx.repo.func(PP + '.listing.ListingPrettyPrinter._generate_bytecode_line_string')
    lps = [l for l in walk_no_nested(gen.node) if isinstance(l, ast.For) and unparse(l.iter) == gen.call_params[0].arg]
    ok = len(lps) == 1 and any(isinstance(n, ast.AugAssign) and '02x' in unparse(n.value) and unparse(lps[0].target) in unparse(n.value) for n in ast.walk(lps[0]))
    ctx.check(ok, 'listing:every-byte-rendered', gen.site(), 'every byte of the line is rendered as two hex digits, in order', '')
    first = [c for c in ast.walk(pl.node) if isinstance(c, ast.Subscript) and unparse(c) == 'line_bytes[0]']
    rest = [l for l in walk_no_nested(pl.node) if isinstance(l, ast.For) and unparse(l.iter) == 'line_bytes[1:]']
    ctx.check(len(first) >= 1 and len(rest) == 1, 'listing:all-rows', pl.site(), 'the first row of bytes and every continuation row are written', f'{len(first)} / {len(rest)}')


    # rendering a line never gives up: the listing is total over the line objects the assembler produced
    for f in (pl, gen, pp):
        ab = [n for n in ast.walk(f.node) if isinstance(n, ast.Raise) or (isinstance(n, ast.Call) and is_sys_exit_call(n))]
        ctx.check(not ab, f'listing:total:{f.name}', f.site(ab[0]) if ab else f.site(),
                  'rendering never aborts on a line the assembler accepted (a statement that produces no bytes is listed with an empty byte column)',
                  f'{unparse(ab[0])[:100] if ab else ""}: a program that assembled cannot be listed')


def c16_mute(ctx):
    """"Muted lines appear in none of the formats" presupposes that the mute flag itself is right: the state machine and the
    guards of #mute / #emit that C08 checks."""
    from rules.c08 import mute_guards, mute_state
    mute_guards(ctx)
    mute_state(ctx)


def c16_state(ctx):
    """Nothing is remembered between statements / files beyond the reviewed state (rules/shared.py STATE)."""
    from rules.shared import state_discipline
    state_discipline(ctx, ('bespokeasm.assembler.pretty_printer', 'bespokeasm.assembler.engine'))


def c16_order(ctx):
    """The compact hex format takes positions from the order of the list: that order is the address order C04.1 checks."""
    from rules.c04 import c04_1
    c04_1(ctx)

RULES = [c16_1, c16_2, c16_3, c16_4, c16_mute, c16_state, c16_order]

_IH = 'assembler/pretty_printer/intelhex.py'
_MH = 'assembler/pretty_printer/minhex.py'
_LS = 'assembler/pretty_printer/listing.py'
_E = 'assembler/engine.py'
MUTANTS = [
    V('c16-ihex-muted', _IH, "            if isinstance(lobj, LineWithBytes) and not lobj.is_muted:", "            if isinstance(lobj, LineWithBytes):", 'C16.2'),
    V('c16-unsorted-list', _E, "                self._pretty_print_format,\n                compilable_line_obs,", "                self._pretty_print_format,\n                line_obs,", 'C16.1'),
    V('c16-ihex-running-offset', _IH, "                self._intel_hex.puts(lobj.address, line_bytes)", "                self._intel_hex.puts(self._offset, line_bytes)\n                self._offset += len(line_bytes)", 'C16.3'),
    V('c16-minhex-muted', _MH, "            if isinstance(lobj, LineWithBytes) and not lobj.is_muted:", "            if isinstance(lobj, LineWithBytes):", 'C16.2'),
    V('c16-image-filter-start', _E, "                if isinstance(lobj, LineWithBytes) and not lobj.is_muted:\n                    line_bytes", "                if isinstance(lobj, LineWithBytes) and not lobj.is_muted and lobj.address >= self._binary_start:\n                    line_bytes", 'C03.1'),
    V('c16-minhex-lazy-row', _MH, "                if line_byte_count != 0:\n                    output.write('\\n')\n                    line_byte_count = 0\n                output.write('{addr", "                if line_byte_count % 16 != 0:\n                    output.write('\\n')\n                    line_byte_count = 0\n                output.write('{addr", 'C16.3'),
    V('c16-listing-skips-labels', _LS, "            self._print_line_object(output, lo)\n", "            if lo.byte_size > 0 or lo.instruction:\n                self._print_line_object(output, lo)\n", 'C16.4'),
    V('c16-hex-flag-swapped', 'assembler/pretty_printer/factory.py', "            return IntelHexPrettyPrinter(line_objs, model, False)\n        elif pretty_printer_type == 'intel_hex':\n            return IntelHexPrettyPrinter(line_objs, model, True)", "            return IntelHexPrettyPrinter(line_objs, model, True)\n        elif pretty_printer_type == 'intel_hex':\n            return IntelHexPrettyPrinter(line_objs, model, False)", 'C16.1'),
    V('c16-listing-next-address', _LS, "            output.write(self._address_format_str.format(lobj.address))", "            output.write(self._address_format_str.format(lobj.address + lobj.byte_size))", 'C16.4'),
    V('c16-printer-filters-list', 'assembler/pretty_printer/__init__.py', "        self._line_objs = line_objs\n", "        self._line_objs = [lo for lo in line_objs if lo.instruction]\n", 'C16.1'),
    V('c16-listing-aborts-empty', _LS, "        if line_bytes:\n            output.write(line_bytes[0])\n", "        if line_bytes is not None:\n            try:\n                output.write(line_bytes[0])\n            except IndexError:\n                raise SystemExit(f'ERROR - internal: line_bytes is empty for line {lobj}')\n", 'C16.4'),
]
TWINS = []
