"""C02 - address assignment and label values are consistent across both passes."""
import ast

from engine.index import AnalysisError
from engine.helpers import (resolver, facts_at, lit_cmp, describe_facts, self_attr_stores, calls_to, unparse,
                            body_only_aborts, walk_no_nested, deref, reaching_def, returns, parent_map, filter_facts_at)
from engine.lin import to_lin, clause_implies
from engine.types import CallGraph, bind_args
from engine.selftest import V

ENGINE = 'bespokeasm.assembler.engine.Assembler.assemble_bytecode'
LO = 'bespokeasm.assembler.line_object.LineObject'
LWB = 'bespokeasm.assembler.line_object.LineWithBytes'
LABEL = 'bespokeasm.assembler.line_object.label_line.LabelLine'

EXPLANATION = (
    'Static rules over /repo source. Decided: C02.1 in the first pass every path from loop head to latch sets the '
    'line\'s start address from its own zone cursor and then advances that cursor by address + byte_size (setter '
    'ValueError -> exit), over exactly the compilable lines; the address accessors are the reviewed set; C02.2 address '
    'labels are bound after the address is set, through the line\'s own scope, to the line address, and label lines '
    'reserve no bytes; C02.3 no byte generation is reachable from the first pass and it starts only after that pass; '
    'C02.4 constants are registered at parse time with their defining expression value; C02.5 for every byte-producing '
    'line class the size reserved and the multiplicity emitted are the same symbol; C02.6 .align displacement is the '
    'canonical (p - a % p) % p form (or an enumerated equivalent). Not decided: equality of expression values between '
    'passes; numerical equality of reserved and emitted instruction size (C01 arithmetic).'
)
ASSUMPTIONS = [
    'Python ast as parser; own call resolution (statistics in coverage.call_graph)',
    'reviewed table of set_start_address/address overrides: LineObject (identity), AddressOrgLine (origin), PageAlignLine (alignment)',
    'alignment idioms are matched symbolically against an enumerated list; an unknown form is an analysis error, not a verdict',
]


def first_pass_loop(ctx, fn):
    """The for-loop of assemble_bytecode that calls set_start_address."""
    sites = [n for n, c in calls_to(ctx, fn, {LO + '.set_start_address'})]
    loops = [l for l in walk_no_nested(fn.node) if isinstance(l, ast.For)
             and any(any(sub is s for sub in ast.walk(l)) for s in sites)]
    if not loops:
        raise AnalysisError('first pass loop (calling set_start_address) not found in assemble_bytecode')
    return min(loops, key=lambda l: l.end_lineno - l.lineno)


def second_pass_loop(ctx, fn):
    sites = [n for n, c in calls_to(ctx, fn, {LWB + '.generate_bytes'})]
    loops = [l for l in walk_no_nested(fn.node) if isinstance(l, ast.For)
             and any(any(sub is s for sub in ast.walk(l)) for s in sites)]
    if not loops:
        raise AnalysisError('second pass loop (calling generate_bytes) not found in assemble_bytecode')
    return min(loops, key=lambda l: l.end_lineno - l.lineno)


def c02_1(ctx):
    ctx.rule('C02.1', 'first pass: set start address from own zone cursor, then advance that cursor, on every path', 7)
    fn = ctx.repo.func(ENGINE)
    g = ctx.cfg(fn)
    loop = first_pass_loop(ctx, fn)
    if not isinstance(loop.target, ast.Name):
        raise AnalysisError('first pass loop target is not a simple name')
    L = loop.target.id
    # iterable: exactly the compilable lines of what load_line_objects returned
    it = deref(ctx, fn, loop.iter, loop)
    ok = False
    detail = unparse(it)
    if isinstance(it, ast.ListComp) and len(it.generators) == 1:
        gen = it.generators[0]
        v = gen.target.id if isinstance(gen.target, ast.Name) else None
        src = deref(ctx, fn, gen.iter, loop)
        src_ok = isinstance(src, ast.Call) and isinstance(src.func, ast.Attribute) and src.func.attr == 'load_line_objects'
        ok = v is not None and unparse(it.elt) == v and [unparse(c) for c in gen.ifs] == [f'{v}.compilable'] and src_ok
    ctx.check(ok, 'pass1:iterates-compilable-lines', fn.site(loop),
              'the first pass ranges over exactly the lines with .compilable of the loaded file', detail)
    # set_start_address(L.memory_zone.current_address)
    ssa = [n for n, c in calls_to(ctx, fn, {LO + '.set_start_address'}) if any(sub is n for sub in ast.walk(loop))]
    ssa = list({id(n): n for n in ssa}.values())
    res = resolver(ctx, fn, inline=False)
    for c in ssa:
        ok = unparse(c.func.value) == L and len(c.args) == 1 and unparse(c.args[0]) == f'{L}.memory_zone.current_address'
        ctx.check(ok, 'pass1:start=own-zone-cursor', fn.site(c),
                  'each line starts at the cursor of its own memory zone', unparse(c))
    # cursor store
    setter = ctx.repo.func('bespokeasm.assembler.memory_zone.MemoryZone.current_address#setter')
    stores = [e.node for e in ctx.cg.callers(setter) if CallGraph.key(e.caller) == ENGINE and any(sub is e.node for sub in ast.walk(loop))]
    if not stores:
        ctx.refute('pass1:cursor-advanced', fn.site(loop), 'the zone cursor is advanced inside the first pass loop',
                   'no store to <zone>.current_address in the loop')
        return
    head = g.node_of(loop)
    body_entry = next(s for s in g.succ[head] if g.nodes[s].kind == 'branch' and g.nodes[s].polarity)
    store_nodes = {g.node_of(s) for s in stores}
    ssa_nodes = {g.node_of(c) for c in ssa}
    ctx.check(g.all_paths_through(body_entry, head, store_nodes), 'pass1:every-iteration-advances', fn.site(loop),
              'every path from loop head back to the loop head advances the zone cursor',
              'a path skips the cursor update (continue / conditional)')
    for sn in store_nodes:
        ctx.check(g.all_paths_through(body_entry, sn, ssa_nodes), 'pass1:address-set-before-advance', fn.site(g.nodes[sn].stmt),
                  'the start address is set before the cursor is advanced', 'cursor update reachable without set_start_address')
    # ValueError of the setter -> exit
    for s in stores:
        st = next(n for n in walk_no_nested(loop) if isinstance(n, ast.Assign) and any(t is s for t in n.targets))
        tries = [t for t in walk_no_nested(loop) if isinstance(t, ast.Try) and any(sub is st for b in t.body for sub in ast.walk(b))]
        if not tries:
            ctx.ok('pass1:zone-overflow->exit', fn.site(st), 'a cursor outside the zone ends the run', 'ValueError propagates uncaught')
            continue
        ok = True
        for t in tries:
            for h in t.handlers:
                if not body_only_aborts(h.body):
                    ok = False
        ctx.check(ok, 'pass1:zone-overflow->exit', fn.site(st), 'the ValueError of the cursor setter is turned into an exit',
                  'a handler around the cursor update does not abort (error swallowed)')
    # address accessor inventory
    lo = ctx.repo.cls(LO)
    base_set = ctx.repo.func(LO + '.set_start_address')
    sts = self_attr_stores(base_set.node, '_address')
    ok = len(sts) == 1 and isinstance(sts[0][2], ast.Name) and sts[0][2].id == base_set.call_params[0].arg \
        and len([s for s in base_set.node.body if not (isinstance(s, ast.Expr) and isinstance(s.value, ast.Constant))]) == 1
    ctx.check(ok, 'accessor:base-setter-identity', base_set.site(), 'LineObject.set_start_address stores its argument unchanged',
              '; '.join(unparse(s[0]) for s in sts) or 'no store')
    base_get = ctx.repo.func(LO + '.address')
    rets = returns(base_get)
    ctx.check(len(rets) == 1 and unparse(rets[0].value) == 'self._address', 'accessor:base-getter-identity', base_get.site(),
              'LineObject.address returns the stored start address', '; '.join(unparse(r) for r in rets))
    reviewed_set = {LO + '.set_start_address', 'bespokeasm.assembler.line_object.directive_line.address.AddressOrgLine.set_start_address',
                    'bespokeasm.assembler.line_object.directive_line.page_align.PageAlignLine.set_start_address'}
    reviewed_get = {LO + '.address', 'bespokeasm.assembler.line_object.directive_line.address.AddressOrgLine.address'}
    for f in lo.implementations('set_start_address'):
        ctx.check(f.qualname in reviewed_set, f'accessor:override:{ctx.short(f)}', f.site(),
                  'set_start_address is overridden only by the reviewed classes (.org: no-op, .align: alignment)',
                  'new override of the start-address setter (not in the reviewed table)')
    for f in lo.implementations('address'):
        ctx.check(f.qualname in reviewed_get, f'accessor:override:{ctx.short(f)}', f.site(),
                  'address is overridden only by AddressOrgLine', 'new override of the address getter (not in the reviewed table)')
    for f in lo.all_subclasses():
        for fn2 in list(f.methods.values()) + list(f.setters.values()):
            if fn2.qualname in reviewed_set or fn2.name == 'set_start_address':
                continue
            for st, tgt, val in self_attr_stores(fn2.node, '_address'):
                ctx.refute(f'accessor:direct-write:{ctx.short(fn2)}', fn2.site(st),
                           '_address is written only through set_start_address', unparse(st))


def c02_2(ctx):
    ctx.rule('C02.2', 'address labels are bound in the first pass, after the address is set, to the line address', 5)
    fn = ctx.repo.func(ENGINE)
    g = ctx.cfg(fn)
    loop = first_pass_loop(ctx, fn)
    L = loop.target.id
    slv = 'bespokeasm.assembler.label_scope.LabelScope.set_label_value'
    binds = [n for n, c in calls_to(ctx, fn, {slv}) if any(sub is n for sub in ast.walk(loop))]
    binds = list({id(n): n for n in binds}.values())
    if not binds:
        ctx.refute('label:bound-in-pass1', fn.site(loop), 'address labels are bound inside the first pass loop',
                   'no set_label_value call in the loop')
        return
    ssa_nodes = {g.node_of(n) for n, c in calls_to(ctx, fn, {LO + '.set_start_address'}) if any(sub is n for sub in ast.walk(loop))}
    head = g.node_of(loop)
    body_entry = next(s for s in g.succ[head] if g.nodes[s].kind == 'branch' and g.nodes[s].polarity)
    target = ctx.repo.func(slv)
    res = resolver(ctx, fn, inline=False)
    for c in binds:
        b = bind_args(c, target)
        ok = unparse(c.func.value) == f'{L}.label_scope' and unparse(b.get('label')) == f'{L}.get_label()' \
            and unparse(b.get('value')) == f'{L}.get_value()' and 'scope' not in b
        ctx.check(ok, 'label:bound-through-own-scope', fn.site(c),
                  'label bound via the line\'s own scope with its own name and value', unparse(c))
        ctx.check(g.all_paths_through(body_entry, g.node_of(c), ssa_nodes), 'label:after-address-set', fn.site(c),
                  'the label is bound after the line\'s address has been set', 'binding reachable before set_start_address')
        cl = filter_facts_at(ctx, fn, c, res)
        lits = {l for cc in cl if len(cc) == 1 for l in cc}
        ok = ('isinstance', L, 'LabelLine', True) in lits and any(l[0] == 'truthy' and 'is_constant' in l[1] and l[2] is False for l in lits)
        extra = [l for cc in cl for l in cc if not (l == ('isinstance', L, 'LabelLine', True) or (l[0] == 'truthy' and 'is_constant' in l[1]))]
        extra += [cc for cc in cl if len(cc) != 1]
        ctx.check(ok and not extra, 'label:only-address-labels', fn.site(c),
                  'bound here iff the line is a label that is not a constant (no further filter)', describe_facts(cl))
    gv = ctx.repo.func(LABEL + '.get_value')
    res2 = resolver(ctx, gv, inline=False)
    found = False
    for r in returns(gv):
        cl = facts_at(ctx, gv, r, res2)
        v = r.value
        if frozenset({('isnone', 'self._value', True)}) in cl:
            found = True
            ctx.check(unparse(v) == 'self.address', 'label:value=address', gv.site(r),
                      'the value of an address label is the address of its line', unparse(r))
        elif isinstance(v, ast.IfExp) and unparse(v.test) in ('self._value is None', 'self._value is not None'):
            found = True
            a_, c_ = (v.body, v.orelse) if unparse(v.test) == 'self._value is None' else (v.orelse, v.body)
            ctx.check(unparse(a_) == 'self.address' and unparse(c_) == 'self._value', 'label:value=address', gv.site(r),
                      'address label -> line address, constant -> its value', unparse(r))
        elif isinstance(v, ast.BoolOp) and isinstance(v.op, ast.Or) and 'self._value' in unparse(v):
            found = True
            ctx.refute('label:value=address', gv.site(r), 'a constant has the value of its defining expression, an address label its line address, '
                       'decided by whether a value was given (`_value is None`)',
                       f'{unparse(v)} decides by truthiness: a constant whose value is 0 is given the address of its line')
    if not found:
        ctx.err('label:value=address', gv.site(), 'LabelLine.get_value has a branch for `_value is None`', 'shape not recognised')
    ic = ctx.repo.func(LABEL + '.is_constant')
    rr = returns(ic)
    ctx.check(len(rr) == 1 and unparse(rr[0].value) in ('self._value is not None', 'not self._value is None'), 'label:is-constant', ic.site(),
              'a label line is a constant iff a value was given (also when that value is 0)', '; '.join(unparse(r) for r in rr))
    lab = ctx.repo.cls(LABEL)
    own = [c for c in lab.mro() if 'byte_size' in c.methods][0]
    ctx.check(own.qualname == LO, 'label:zero-size', lab.node.lineno and f'{lab.module.relpath}:{lab.node.lineno}',
              'a label line reserves no bytes (inherits byte_size = 0)', f'byte_size defined by {ctx.short(own)}')
    bs = ctx.repo.func(LO + '.byte_size')
    rets = returns(bs)
    ctx.check(len(rets) == 1 and unparse(rets[0].value) == '0', 'label:base-size-0', bs.site(),
              'LineObject.byte_size is 0', '; '.join(unparse(r) for r in rets))


def c02_3(ctx):
    ctx.rule('C02.3', 'phase separation: no byte generation during address assignment', 2)
    fn = ctx.repo.func(ENGINE)
    g = ctx.cfg(fn)
    l1 = first_pass_loop(ctx, fn)
    if not calls_to(ctx, fn, {LWB + '.generate_bytes'}):
        ctx.refute('phase:every-byte-line-generated', fn.site(), 'bytes are generated for every byte-producing line of the list (muted or not): that is where labels are '
                   'resolved and values checked', 'assemble_bytecode never calls generate_bytes: a line whose bytes nobody asks for (muted, zero-sized, or any line when no '
                   'image and no listing is wanted) is never checked, and the run reports success')
        return
    l2 = second_pass_loop(ctx, fn)
    lwb = ctx.repo.cls(LWB)
    gen_keys = {CallGraph.key(f) for f in lwb.implementations('generate_bytes')}
    gen_keys |= {CallGraph.key(f) for f in ctx.repo.cls('bespokeasm.assembler.bytecode.assembled.AssembledInstruction').implementations('get_bytes')}
    roots = [e.callee for e in ctx.cg.callees(fn) if any(sub is e.node for sub in ast.walk(l1))]
    reach = ctx.cg.reachable(roots)
    bad = sorted(k for k in reach if k in gen_keys)
    detail = ''
    if bad:
        for r in roots:
            p = ctx.cg.path(r, set(bad)) if CallGraph.key(r) not in bad else []
            if p is not None:
                detail = ' -> '.join([ctx.short(r)] + [ctx.short(e.callee) for e in p])
                break
    ctx.check(not bad, 'phase:no-generation-in-pass1', fn.site(l1),
              'nothing reachable from the first pass generates bytes (labels may still be unbound)',
              f'call path: {detail}')
    h1, h2 = g.node_of(l1), g.node_of(l2)
    exit1 = next(s for s in g.succ[h1] if g.nodes[s].kind == 'branch' and not g.nodes[s].polarity)
    ctx.check(l1 is not l2 and g.dominates(exit1, h2), 'phase:pass2-after-pass1', fn.site(l2),
              'byte generation starts only after the first pass has finished',
              'the generate_bytes loop is not dominated by the end of the first pass loop')
    res = resolver(ctx, fn, inline=False)
    L = l2.target.id
    for n, _ in calls_to(ctx, fn, {LWB + '.generate_bytes'}):
        fcl = filter_facts_at(ctx, fn, n, res)
        lits = [l for c in fcl for l in c]
        ctx.check(all(len(c) == 1 for c in fcl) and set(lits) == {('isinstance', L, 'LineWithBytes', True)}, 'phase:every-byte-line-generated', fn.site(n),
                  'bytes are generated for every byte-producing line of the list (muted or not): that is where labels are resolved and values checked',
                  f'generate_bytes is called only when {describe_facts(fcl)}')


def c02_4(ctx):
    ctx.rule('C02.4', 'constants are registered at parse time with the value of their defining expression', 3)
    fn = ctx.repo.func('bespokeasm.assembler.assembly_file.AssemblyFile.load_line_objects')
    slv = 'bespokeasm.assembler.label_scope.LabelScope.set_label_value'
    binds = list({id(n): n for n, c in calls_to(ctx, fn, {slv})}.values())
    if not binds:
        ctx.refute('const:registered-at-parse', fn.site(), 'constants are registered while the file is parsed',
                   'no set_label_value call in load_line_objects')
    target = ctx.repo.func(slv)
    res = resolver(ctx, fn, inline=False)
    for c in binds:
        b = bind_args(c, target)
        ok = unparse(c.func.value) == 'lobj.label_scope' and unparse(b.get('label')) == 'lobj.get_label()' \
            and unparse(b.get('value')) == 'lobj.get_value()'
        ctx.check(ok, 'const:bound-through-own-scope', fn.site(c), 'constant registered via the line\'s own scope', unparse(c))
        cl = filter_facts_at(ctx, fn, c, res)
        lits = {l for cc in cl if len(cc) == 1 for l in cc}
        def allowed(l):
            return l == ('isinstance', 'lobj', 'LabelLine', True) or (l[0] == 'truthy' and l[2] and (
                'compilable' in l[1] or 'is_constant' in l[1] or l[1] == 'lobj._value is not None')) \
                or l == ('truthy', 'line_str', True)   # `len(line_str) > 0`: blank lines carry nothing
        ok = ('isinstance', 'lobj', 'LabelLine', True) in lits and any(l[0] == 'truthy' and 'compilable' in l[1] and l[2] for l in lits) \
            and any(l[0] == 'truthy' and 'is_constant' in l[1] and l[2] for l in lits)
        extra = [l for cc in cl for l in cc if not allowed(l)] + [cc for cc in cl if len(cc) != 1]
        extra = [x for x in extra if not _is_include_or_blank(x)]
        ctx.check(ok and not extra, 'const:only-compilable-constants', fn.site(c),
                  'registered iff the line is compilable and is a constant (no further filter)', describe_facts(cl))
    fac = ctx.repo.func(LABEL + '.factory')
    init = ctx.repo.func(LABEL + '.__init__')
    sites = [c for c in ast.walk(fac.node) if isinstance(c, ast.Call) and unparse(c.func) == 'LabelLine']
    found = False
    for c in sites:
        b = bind_args(c, init)
        v = b.get('value')
        if v is None or (isinstance(v, ast.Constant) and v.value is None):
            continue
        found = True
        ok = isinstance(v, ast.Call) and isinstance(v.func, ast.Attribute) and v.func.attr == 'get_value'
        src = deref(ctx, fac, v.func.value, c) if ok else None
        ok = ok and isinstance(src, ast.Call) and unparse(src.func) == 'parse_expression'
        grp = None
        if ok:
            a = src.args[1]
            while isinstance(a, ast.Call) and isinstance(a.func, ast.Attribute) and a.func.attr == 'strip':
                a = a.func.value
            if isinstance(a, ast.Call) and isinstance(a.func, ast.Attribute) and a.func.attr == 'group':
                grp = ctx.fold.try_fold(a.args[0], fac.module)
        ctx.check(ok and grp == 2, 'const:value=defining-expression', fac.site(c),
                  'a constant\'s value is the value of its defining expression (pattern group 2)', unparse(v))
        lab = b.get('label')
        labd = deref(ctx, fac, lab, c)
        while isinstance(labd, ast.Call) and isinstance(labd.func, ast.Attribute) and labd.func.attr == 'strip':
            labd = labd.func.value
        g1 = ctx.fold.try_fold(labd.args[0], fac.module) if isinstance(labd, ast.Call) and labd.args else None
        ctx.check(g1 == 1, 'const:name=group1', fac.site(c), 'a constant\'s name is pattern group 1', unparse(labd))
    if not found:
        ctx.err('const:value=defining-expression', fac.site(), 'LabelLine.factory constructs a constant LabelLine', 'not found')


def _is_include_or_blank(x):
    # the line loop's own dispatch facts: `not line_str.startswith('#include')`, isinstance(lobj, ConditionLine) ...
    if isinstance(x, tuple) and x and x[0] == 'call' and 'startswith' in x[1]:
        return True
    return False


def _ret_expr(ctx, fn):
    rets = returns(fn)
    return rets


def c02_5(ctx):
    ctx.rule('C02.5', 'reserved size and emitted multiplicity are the same symbol for every byte-producing line', 8)
    lwb = ctx.repo.cls(LWB)
    reviewed = {
        'DataLine', 'FillDataLine', 'FillUntilDataLine', 'EmbeddedString', 'PredefinedDataLine', 'InstructionLine',
    }
    for c in lwb.all_subclasses():
        if 'generate_bytes' not in c.methods and 'byte_size' not in c.methods:
            continue
        if c.name not in reviewed:
            ctx.err(f'size:{c.name}', f'{c.module.relpath}:{c.node.lineno}', 'byte-producing line class is in the reviewed table',
                    'new LineWithBytes subclass: add its size/emission agreement to rule C02.5')
    # emission and evaluation happen for every line of the class: they are selected by nothing except the class's own
    # caches (`if self._x is None`), the kind of a listed item, and the reserved size itself
    def _lit_ok(l):
        if l[0] == 'isnone':
            return isinstance(l[1], str) and l[1].startswith('self._')
        if l[0] == 'isinstance':
            return True
        if l[0] == 'truthy' and l[1] == 'self._bytes':     # `len(self._bytes) == 0`: not generated twice
            return True
        if l[0] in ('ge', 'eq', 'le', 'ne', 'gt', 'lt') and isinstance(l[1], tuple):
            try:
                return all(v in ('self.byte_size', 'len(self._bytes)') for v, _ in l[1][0])
            except Exception:
                return False
        return False
    n_sites = 0
    for c in lwb.all_subclasses():
        gb = c.methods.get('generate_bytes')
        if gb is None:
            continue
        res_ = resolver(ctx, gb)
        for n in ast.walk(gb.node):
            if isinstance(n, ast.Call) and isinstance(n.func, ast.Attribute) and n.func.attr in ('extend', '_append_byte', 'get_value', 'get_bytes', 'append'):
                n_sites += 1
                fcl = filter_facts_at(ctx, gb, n, res_)
                bad = [l for cl in fcl for l in cl if not _lit_ok(l)]
                ctx.check(not bad, f'size:{c.name}:emission-unconditional:{n.func.attr}', gb.site(n),
                          'bytes are generated (and their expressions evaluated, labels resolved, values range-checked) for every line of this class, '
                          'whatever its mute state, address or content',
                          f'{unparse(n)[:60]} happens only when {describe_facts(fcl)}: the line reserves space but emits nothing, and its labels and values are never checked')
    if n_sites < 10:
        ctx.err('size:emission-sites', '-', 'at least 10 emission / evaluation sites in generate_bytes implementations', f'{n_sites}')

    # helper: the multiplicity M in  self._bytes.extend([x] * M)  /  the list in extend(<list>)
    def extend_args(fn):
        out = []
        for c in ast.walk(fn.node):
            if isinstance(c, ast.Call) and isinstance(c.func, ast.Attribute) and c.func.attr == 'extend' \
                    and unparse(c.func.value) == 'self._bytes':
                out.append(c)
        return out

    def check_mult(cls_q, key, want_size_text, want_mult_text):
        c = ctx.repo.cls(cls_q)
        bs, gb = c.methods.get('byte_size'), c.methods.get('generate_bytes')
        if bs is None or gb is None:
            raise AnalysisError(f'{cls_q}: byte_size/generate_bytes vanished')
        res_b, res_g = resolver(ctx, bs), resolver(ctx, gb)
        rets = [r for r in returns(bs) if r.value is not None]
        want = to_lin(ast.parse(want_size_text, mode='eval').body, res_b)
        finals = [r for r in rets if to_lin(r.value, res_b).key() == want.key()]
        ctx.check(len(finals) >= 1 and all(to_lin(r.value, res_b).key() == want.key() or to_lin(r.value, res_b).key() == ((), 0) for r in rets),
                  f'size:{key}:reserved', bs.site(), f'byte_size is {want_size_text}', '; '.join(unparse(r) for r in rets))
        ext = extend_args(gb)
        if not ext:
            ctx.refute(f'size:{key}:emitted', gb.site(), 'generate_bytes extends self._bytes', 'no extend call')
            return
        for e in ext:
            a = e.args[0]
            m = None
            if isinstance(a, ast.BinOp) and isinstance(a.op, ast.Mult):
                lst, mult = (a.left, a.right) if isinstance(a.left, ast.List) else (a.right, a.left)
                if isinstance(lst, ast.List) and len(lst.elts) == 1:
                    m = mult
            ok = m is not None and to_lin(m, res_g).key() == to_lin(ast.parse(want_mult_text, mode='eval').body, res_g).key()
            ctx.check(ok, f'size:{key}:emitted', gb.site(e), f'emits exactly {want_mult_text} byte(s), the quantity reserved',
                      unparse(e))

    check_mult('bespokeasm.assembler.line_object.directive_line.fill_data.FillDataLine', 'fill', 'self._count', 'self._count')
    check_mult('bespokeasm.assembler.line_object.predefined_data.PredefinedDataLine', 'predefined', 'self._byte_length', 'self._byte_length')
    # FillDataLine: _count is the value of the count expression in both accessors
    fd = ctx.repo.cls('bespokeasm.assembler.line_object.directive_line.fill_data.FillDataLine')
    for mname in ('byte_size', 'generate_bytes'):
        m = fd.methods[mname]
        sts = self_attr_stores(m.node, '_count')
        ok = bool(sts) and all(unparse(v) == 'self._count_expr.get_value(self.label_scope, self.line_id)' for _, _, v in sts)
        ctx.check(ok, f'size:fill:count-source:{mname}', m.site(), '_count is the value of the count expression in the line\'s own scope',
                  '; '.join(unparse(s) for s, _, _ in sts) or 'no store')
    # a reserved size is never negative (a negative .fill / .zero count would move the address backwards)
    bsf = fd.methods['byte_size']
    rb = resolver(ctx, bsf, inline=False)
    for r in returns(bsf):
        ok = clause_implies(facts_at(ctx, bsf, r, rb), lit_cmp(ctx, bsf, 'self._count >= 0', rb))
        ctx.check(ok, 'size:fill:non-negative', bsf.site(r), 'the space reserved by .fill / .zero is returned only if the count is not negative (else exit)',
                  'no dominating abort on a negative count: the next line is placed below this one')
    # FillUntil: emits self.byte_size bytes
    fu = ctx.repo.cls('bespokeasm.assembler.line_object.directive_line.fill_data.FillUntilDataLine')
    gb = fu.methods['generate_bytes']
    ext = extend_args(gb)
    ok = bool(ext)
    for e in ext:
        a = e.args[0]
        ok = ok and isinstance(a, ast.BinOp) and isinstance(a.op, ast.Mult) and 'self.byte_size' in (unparse(a.left), unparse(a.right))
    ctx.check(ok, 'size:zerountil:emitted', gb.site(), 'emits exactly self.byte_size bytes', '; '.join(unparse(e) for e in ext) or 'no extend')
    # EmbeddedString
    es = ctx.repo.cls('bespokeasm.assembler.line_object.emdedded_string.EmbeddedString')
    rets = returns(es.methods['byte_size'])
    ext = extend_args(es.methods['generate_bytes'])
    ok = len(rets) == 1 and unparse(rets[0].value) == 'len(self._string_bytes)' and len(ext) == 1 and unparse(ext[0].args[0]) == 'self._string_bytes'
    ctx.check(ok, 'size:embedded-string', es.methods['byte_size'].site(), 'reserves len(_string_bytes) and emits _string_bytes',
              f'{[unparse(r) for r in rets]} / {[unparse(e) for e in ext]}')
    # DataLine: len(list) * SIZE[d]  vs  one to_bytes(SIZE[d]) per list element, every byte appended
    dl = ctx.repo.cls('bespokeasm.assembler.line_object.data_line.DataLine')
    bs, gb = dl.methods['byte_size'], dl.methods['generate_bytes']
    res_b = resolver(ctx, bs)
    rets = returns(bs)
    want = 'len(self._arg_value_list) * DataLine.DIRECTIVE_VALUE_BYTE_SIZE[self._directive]'
    ok = len(rets) == 1 and to_lin(rets[0].value, res_b).key() == to_lin(ast.parse(want, mode='eval').body, res_b).key()
    ctx.check(ok, 'size:data:reserved', bs.site(), f'byte_size is {want}', '; '.join(unparse(r) for r in rets))
    loops = [l for l in walk_no_nested(gb.node) if isinstance(l, ast.For) and unparse(l.iter) == 'self._arg_value_list']
    tb = [c for c in ast.walk(gb.node) if isinstance(c, ast.Call) and isinstance(c.func, ast.Attribute) and c.func.attr == 'to_bytes']
    ok = len(loops) == 1 and len(tb) == 1 and any(sub is tb[0] for sub in ast.walk(loops[0])) \
        and unparse(tb[0].args[0] if tb[0].args else next((k.value for k in tb[0].keywords if k.arg == 'length'), ast.Constant(None))) \
        == 'DataLine.DIRECTIVE_VALUE_BYTE_SIZE[self._directive]'
    ctx.check(ok, 'size:data:emitted-width', gb.site(tb[0]) if tb else gb.site(),
              'each listed value is converted to exactly SIZE[directive] bytes, once per list element', unparse(tb[0]) if tb else 'no to_bytes')
    if loops and tb:
        tgt = None
        pm = parent_map(gb.node)
        par = pm.get(id(tb[0]))
        while par is not None and not isinstance(par, ast.Assign):
            par = pm.get(id(par))
        tgt = par.targets[0].id if par is not None and isinstance(par.targets[0], ast.Name) else None
        inner = [l for l in walk_no_nested(loops[0]) if isinstance(l, ast.For) and l is not loops[0] and unparse(l.iter) == tgt]
        ok = len(inner) == 1 and len(inner[0].body) == 1 and unparse(inner[0].body[0]) in (f'self._append_byte({unparse(inner[0].target)})',
                                                                                              f'self._bytes.append({unparse(inner[0].target)})')
        # ... or all of them at once
        whole = [n for n in walk_no_nested(loops[0]) if isinstance(n, (ast.Expr, ast.AugAssign))
                 and unparse(n) in (f'self._bytes.extend({tgt})', f'self._bytes += {tgt}')]
        gg = ctx.cfg(gb)
        if not inner and len(whole) == 1 and par is not None:
            # reached whenever the conversion succeeded: every way from the conversion back to the loop header passes it
            hdr = gg.loop_facts(gg.node_of(whole[0]))[-1][1]
            ok = gg.all_paths_through(gg.node_of(par), hdr, {gg.node_of(whole[0])} | {n.id for n in gg.nodes if n.kind == 'stmt' and n.stmt is not None
                                                                                      and 'sys.exit' in unparse(n.stmt)})
        ctx.check(ok, 'size:data:all-bytes-appended', gb.site(inner[0]) if inner else gb.site(),
                  'every byte of the converted value is appended', unparse(inner[0]) if inner else '; '.join(unparse(w) for w in whole) or 'no inner loop over the converted bytes')
    # InstructionLine
    il = ctx.repo.cls('bespokeasm.assembler.line_object.instruction_line.InstructionLine')
    rets = returns(il.methods['byte_size'])
    ctx.check(len(rets) == 1 and unparse(rets[0].value) == 'self._assembled_instruction.byte_size', 'size:instruction:reserved',
              il.methods['byte_size'].site(), 'reserves the assembled instruction\'s byte size', '; '.join(unparse(r) for r in rets))
    gbi = il.methods['generate_bytes']
    gcalls = [c for c in ast.walk(gbi.node) if isinstance(c, ast.Call) and isinstance(c.func, ast.Attribute) and c.func.attr == 'get_bytes']
    tgt = ctx.repo.func('bespokeasm.assembler.bytecode.assembled.AssembledInstruction.get_bytes')
    ok = len(gcalls) == 1
    if ok:
        b = bind_args(gcalls[0], tgt)
        ok = unparse(b.get('label_scope')) == 'self.label_scope' and unparse(b.get('instruction_address')) == 'self.address' \
            and unparse(b.get('instruction_size')) == 'self.byte_size' and unparse(gcalls[0].func.value) == 'self._assembled_instruction'
    ctx.check(ok, 'size:instruction:emitted', gbi.site(), 'bytes are generated with the line\'s own scope, address and reserved size',
              '; '.join(unparse(c) for c in gcalls) or 'no get_bytes call')


_ALIGN_OK = [
    'A + (P - A % P) % P', 'A + (-A) % P', 'A + (-A % P)', '(A + P - 1) // P * P', '-(-A // P) * P',
    'A + (P - A % P) % P + 0',
]
_ALIGN_BAD = {
    'A + (P - A % P)': 'displacement range is [1, p]: an already aligned address (a % p == 0) is moved a whole page',
    'A - A % P': 'rounds down: the result can be below the current address',
    'A + A % P': 'adds the remainder instead of its complement',
    'A + P - A % P': 'displacement range is [1, p]: an already aligned address (a % p == 0) is moved a whole page',
    'A + (P - A % P) % P + 1': 'off by one',
    'A': 'no alignment performed',
    '(A + P) // P * P': 'an already aligned address is moved a whole page',
    '(A + P - 1) & ~(P - 1)': 'bit-mask rounding is a multiple of p only when p is a power of two (.align 10 at 6 stays at 6)',
    '(A + (P - 1)) & -P': 'bit-mask rounding is a multiple of p only when p is a power of two',
    'A // P * P': 'rounds down',
}


def c02_6(ctx):
    ctx.rule('C02.6', '.align moves the address to the smallest multiple of the page size not below it', 1)
    fn = ctx.repo.func('bespokeasm.assembler.line_object.directive_line.page_align.PageAlignLine.set_start_address')
    a = fn.call_params[0].arg
    res = resolver(ctx, fn, inline=True)
    sts = self_attr_stores(fn.node, '_address')
    if not sts:
        raise AnalysisError('PageAlignLine.set_start_address no longer stores self._address')

    def form(text):
        return to_lin(ast.parse(text.replace('A', a).replace('P', 'self._page_size'), mode='eval').body, res).key()
    ok_forms = {form(t) for t in _ALIGN_OK}
    bad_forms = {form(t): why for t, why in _ALIGN_BAD.items()}
    general = 0
    for st, tgt, val in sts:
        cl = facts_at(ctx, fn, st, res)
        k = to_lin(val, res).key()
        p_is_1 = any(c == frozenset({lit_cmp(ctx, fn, 'self._page_size == 1', res)}) for c in cl)
        m_is_0 = any(c == frozenset({lit_cmp(ctx, fn, f'{a} % self._page_size == 0', res)}) for c in cl)
        m_not_0 = any(c == frozenset({lit_cmp(ctx, fn, f'{a} % self._page_size != 0', res)}) for c in cl)
        if k == form('A') and (p_is_1 or m_is_0):
            ctx.ok('align:identity-branch', fn.site(st), 'address unchanged when the page size is 1 / address already aligned',
                   f'{unparse(st)} under {describe_facts(cl)}')
            if m_is_0:
                general += 1
            continue
        if k in ok_forms or (k == form('A + (P - A % P)') and m_not_0):
            general += 1
            ctx.ok('align:displacement', fn.site(st), 'displacement is (p - a % p) % p, i.e. in [0, p-1] and the result is a multiple of p',
                   unparse(st))
        elif k in bad_forms:
            ctx.refute('align:displacement', fn.site(st), 'displacement is (p - a % p) % p, i.e. in [0, p-1] and the result is a multiple of p',
                       f'{unparse(val)}: {bad_forms[k]}', witness={'a % p': 0})
        else:
            ctx.err('align:displacement', fn.site(st), 'alignment expression is one of the enumerated idioms',
                    f'unrecognised form {unparse(val)}')
    if general == 0:
        ctx.refute('align:displacement', fn.site(), 'a general alignment branch exists', 'only identity stores found')


def c02_macro_sizes(ctx):
    """A macro line reserves what its steps emit (C10.1 re-evaluated as a clause of 'emitted = reserved'), and so does an
    instruction: the size gate of get_bytes (C01.4) and the size computation over the parts (C01.6)."""
    from rules.c10 import c10_1
    from rules.c01 import c01_4, c01_6
    c10_1(ctx)
    c01_4(ctx)
    c01_6(ctx)


def c02_zone_of_line(ctx):
    """A label has the address of the next line only if both live in the same zone: zone provenance (C05.6) re-evaluated."""
    from rules.c05 import zone_provenance
    zone_provenance(ctx)


def c02_predefined(ctx):
    """Constants of the ISA definition have the value written there."""
    from rules.shared import cfg_accessors, cfg_constants
    cfg_accessors(ctx, only=('predefined_constants',))
    cfg_constants(ctx)


def c02_state(ctx):
    """Per-statement / per-lookup properties presuppose that nothing is remembered between statements beyond the reviewed state."""
    from rules.shared import state_discipline
    state_discipline(ctx, ('bespokeasm.assembler.line_object', 'bespokeasm.assembler.label_scope', 'bespokeasm.assembler.memory_zone', 'bespokeasm.assembler.engine', 'bespokeasm.assembler.assembly_file', 'bespokeasm.assembler.bytecode.assembled', 'bespokeasm.assembler.bytecode.parts'))


def c02_file_state(ctx):
    """"Unless an origin, alignment or zone directive intervenes": only directives of selected branches intervene (C05.5 / C08.3)."""
    from rules.c05 import c05_5
    c05_5(ctx)

def c02_label_names(ctx):
    """A label has the value of its address wherever it is referred to - provided a reference to it is read as a label at all (C06.3)."""
    from rules.c06 import c06_3
    c06_3(ctx)


def c02_zone_cursor(ctx):
    """A line is placed at its zone's cursor and the cursor is moved to the line's end: the cursor accessors hand the value through unchanged (C05.1)."""
    from rules.c05 import c05_1
    c05_1(ctx)


def c02_origin(ctx):
    """"Unless an origin directive intervenes" - to the address the directive denotes: absolute, or relative to the zone written on it (C05.4)."""
    from rules.c05 import c05_4
    c05_4(ctx)


RULES = [c02_origin, c02_predefined, c02_1, c02_2, c02_3, c02_4, c02_5, c02_6, c02_macro_sizes, c02_zone_of_line, c02_state, c02_file_state, c02_label_names, c02_zone_cursor]

_E = 'assembler/engine.py'
_FD = 'assembler/line_object/directive_line/fill_data.py'
MUTANTS = [
    V('c02-negative-fill-accepted', 'assembler/line_object/directive_line/fill_data.py', "        if self._count < 0:\n            sys.exit(f'ERROR: {self.line_id} - the fill count {self._count} is negative')\n        return self._count", "        return self._count", 'C02.5'),
    V('c02-predefined-constant-name-as-value', 'assembler/model/__init__.py', "                value: int = predefined_constant['value']", "                value: int = predefined_constant.get('address', predefined_constant['value'])", 'CFG.3'),
    V('c02-bind-before-address', _E, '''            lobj.set_start_address(lobj.memory_zone.current_address)
            if lobj.address is None:''', '''            if isinstance(lobj, LabelLine) and not lobj.is_constant:
                lobj.label_scope.set_label_value(lobj.get_label(), lobj.get_value(), lobj.line_id)
            lobj.set_start_address(lobj.memory_zone.current_address)
            if lobj.address is None:''', 'C02.2'),
    V('c02-global-cursor', _E, 'lobj.set_start_address(lobj.memory_zone.current_address)',
      'lobj.set_start_address(memzone_manager.global_zone.current_address)', 'C02.1'),
    V('c02-muted-instruction-not-generated', 'assembler/line_object/instruction_line.py', '        self._bytes.extend(self._assembled_instruction.get_bytes(', '        if self.is_muted:\n            return\n        self._bytes.extend(self._assembled_instruction.get_bytes(', 'C02.5'),
    V('c02-fill-only-when-addressed', 'assembler/line_object/directive_line/fill_data.py', "        self._bytes.extend([(self._value) & 0xFF]*self._count)", "        if self.address:\n            self._bytes.extend([(self._value) & 0xFF]*self._count)", 'C02.5'),
    V('c02-generate-in-pass1', _E, '''            if isinstance(lobj, LabelLine) and not lobj.is_constant:
                lobj.label_scope''', '''            if isinstance(lobj, LineWithBytes):
                lobj.generate_bytes()
            if isinstance(lobj, LabelLine) and not lobj.is_constant:
                lobj.label_scope''', 'C02.3'),
    V('c02-swallow-zone-error', _E, "            except ValueError as e:\n                sys.exit(f'ERROR: {lobj.line_id} - {str(e)}')",
      "            except ValueError as e:\n                pass", 'C02.1'),
    V('c02-skip-muted-advance', _E, '''            try:
                lobj.memory_zone.current_address''', '''            if lobj.is_muted:
                continue
            try:
                lobj.memory_zone.current_address''', 'C02.1'),
    V('c02-all-lines', _E, 'compilable_line_obs = [lobj for lobj in line_obs if lobj.compilable]',
      'compilable_line_obs = [lobj for lobj in line_obs]', 'C02.1'),
    V('c02-label-global-scope', _E, 'lobj.label_scope.set_label_value(lobj.get_label(), lobj.get_value(), lobj.line_id)',
      'global_label_scope.set_label_value(lobj.get_label(), lobj.get_value(), lobj.line_id)', 'C02.2'),
    V('c02-label-value-next', 'assembler/line_object/label_line.py', '            return self.address\n', '            return self.address + 1\n', 'C02.2'),
    V('c02-base-setter-offset', 'assembler/line_object/__init__.py', '        self._address = address\n', '        self._address = address + 0 if address else address\n', 'C02.1'),
    V('c02-fill-count-twice', _FD, '        self._bytes.extend([(self._value) & 0xFF]*self._count)', '        self._bytes.extend([(self._value) & 0xFF]*(self._count + 1))', 'C02.5'),
    V('c02-filluntil-own-count', _FD, 'self._bytes.extend([self._fill_value & 0xFF]*self.byte_size)',
      'self._bytes.extend([self._fill_value & 0xFF]*(self._fill_until_addr - self.address))', 'C02.5'),
    V('c02-data-size-table', 'assembler/line_object/data_line.py', '''                value_bytes = (arg_val & DataLine.DIRECTIVE_VALUE_MASK[self._directive]).to_bytes(
                    DataLine.DIRECTIVE_VALUE_BYTE_SIZE[self._directive],''', '''                value_bytes = (arg_val & DataLine.DIRECTIVE_VALUE_MASK[self._directive]).to_bytes(
                    max(1, DataLine.DIRECTIVE_VALUE_BYTE_SIZE[self._directive] // 2 * 2),''', 'C02.5'),
    V('c02-instr-size-arg', 'assembler/line_object/instruction_line.py', 'get_bytes(self.label_scope, self.address, self.byte_size)',
      'get_bytes(self.label_scope, self.address, 1)', 'C02.5'),
    V('c02-align-orig', 'assembler/line_object/directive_line/page_align.py',
      'self._address = address + (self._page_size - (address % self._page_size)) % self._page_size',
      'self._address = address + (self._page_size - (address % self._page_size))', 'C02.6'),
    V('c02-align-down', 'assembler/line_object/directive_line/page_align.py',
      'self._address = address + (self._page_size - (address % self._page_size)) % self._page_size',
      'self._address = address - (address % self._page_size)', 'C02.6'),
    V('c02-const-group', 'assembler/line_object/label_line.py', 'value_expr = parse_expression(line_id, constant_match.group(2).strip())',
      'value_expr = parse_expression(line_id, constant_match.group(1).strip())', 'C02.4'),
    V('c02-const-uncompilable', 'assembler/assembly_file.py', '                                if isinstance(lobj, LabelLine) and lobj.is_constant:\n                                    lobj.label_scope.set_label_value',
      '                                if isinstance(lobj, LabelLine) and lobj.is_constant and not lobj.is_muted:\n                                    lobj.label_scope.set_label_value', 'C02.4'),
]
MUTANTS += [
    V('c02-align-bitmask', 'assembler/line_object/directive_line/page_align.py',
      'self._address = address + (self._page_size - (address % self._page_size)) % self._page_size',
      'page_mask = self._page_size - 1\n            self._address = (address + page_mask) & ~page_mask', 'C02.6'),
    V('c02-zero-constant-truthy', 'assembler/line_object/label_line.py', "        return self._value is not None", "        return bool(self._value)", 'C02.2'),
    V('c02-value-or-address', 'assembler/line_object/label_line.py', '''        if self._value is None:
            # this is a Label, return the address for value
            return self.address
        else:
            return self._value''', '''        return self._value or self.address''', 'C02.2'),
]
TWINS = [
    V('c02-t-label-ifexp', 'assembler/line_object/label_line.py', '''        if self._value is None:
            # this is a Label, return the address for value
            return self.address
        else:
            return self._value''', '''        return self.address if self._value is None else self._value'''),
    V('c02-t-align-neg-mod', 'assembler/line_object/directive_line/page_align.py',
      'self._address = address + (self._page_size - (address % self._page_size)) % self._page_size',
      'self._address = address + (-address % self._page_size)'),
    V('c02-t-align-ceil', 'assembler/line_object/directive_line/page_align.py',
      'self._address = address + (self._page_size - (address % self._page_size)) % self._page_size',
      'self._address = (address + self._page_size - 1) // self._page_size * self._page_size'),
    V('c02-t-fill-order', _FD, '        self._bytes.extend([(self._value) & 0xFF]*self._count)', '        self._bytes.extend(self._count * [self._value & 0xFF])'),
    V('c02-t-verbose-print', _E, "            if isinstance(lobj, LabelLine) and not lobj.is_constant:\n                lobj.label_scope",
      "            if self._verbose > 3:\n                print(lobj)\n            if isinstance(lobj, LabelLine) and not lobj.is_constant:\n                lobj.label_scope"),
]
