"""C06 - label references resolve only within their lexical scope."""
import ast

from engine.index import AnalysisError
from engine.helpers import (resolver, facts_at, filter_facts_at, lit_cmp, describe_facts, unparse, walk_no_nested, returns,
                            deref, body_only_aborts, calls_to, attr_writers, reaching_def, self_attr_stores)
from engine.lin import clause_implies
from engine.fold import EnumConst
from engine.types import CallGraph, bind_args
from engine.selftest import V

LS = 'bespokeasm.assembler.label_scope.LabelScope'
LST = 'bespokeasm.assembler.label_scope.LabelScopeType'
AF = 'bespokeasm.assembler.assembly_file.AssemblyFile'
LOAD = AF + '.load_line_objects'
LABEL = 'bespokeasm.assembler.line_object.label_line.LabelLine'
EXPR = 'bespokeasm.expression.ExpressionNode'

EXPLANATION = (
    'Static rules over LabelScope, AssemblyFile, LabelLine and the expression evaluator. Decided: C06.1 lookup consults '
    'the scope\'s own table then its parent chain only and the table is touched only by get/set; C06.2 scope-kind typing: '
    'every LabelScope(T, parent) has kind(parent) = T - 1, an AssemblyFile always receives a GLOBAL-kind scope (including '
    'for included files); C06.3 set_label_value: keyword check first, routing by kind comparison, insertion dominated by '
    'the duplicate check else exit, too-low scope -> exit; C06.4 the file loop opens a new LOCAL scope exactly on '
    'compilable non-constant non-local labels, resets to the file scope exactly on .org/.memzone lines (which are always '
    'built as such), and assigns the current scope to every compilable line; C06.5 every expression of a line object is '
    'evaluated in that line\'s own scope (one reviewed exception); C06.6 unresolved label, register name as label/constant '
    'and register in numeric context are exits; C06.8 the prefix <-> scope-kind tables are inverse and the kinds are '
    'ordered GLOBAL < FILE < LOCAL. C06.7 = C02.2. Not decided: nothing essential beyond expression values (C07).'
)
ASSUMPTIONS = [
    'scope kinds are propagated through constructor arguments, .parent reads and the model\'s global scope property',
    'frozen exception to C06.5: the defining expression of a constant is evaluated at parse time in the scope current at that line',
]

KIND = {'GLOBAL': 0, 'FILE': 1, 'LOCAL': 2}


def _scope_kind_of(ctx, fn, e, depth=0):
    """Abstract kind (0 GLOBAL, 1 FILE, 2 LOCAL) of a scope-valued expression, or None if unknown."""
    if depth > 6:
        return None
    if isinstance(e, ast.Constant) and e.value is None:
        return -1   # "no parent"
    if isinstance(e, ast.Attribute) and e.attr == 'parent':
        k = _scope_kind_of(ctx, fn, e.value, depth + 1)
        return None if k is None else k - 1
    if isinstance(e, ast.Call) and unparse(e.func) in ('LabelScope',) and e.args:
        v = ctx.fold.try_fold(e.args[0], fn.module, fn.cls)
        return KIND.get(v.name) if isinstance(v, EnumConst) else None
    if isinstance(e, ast.Call) and unparse(e.func).endswith('global_scope'):
        return 0
    if isinstance(e, ast.Call) and unparse(e.func) == 'GlobalLabelScope':
        return 0
    if isinstance(e, ast.Attribute) and e.attr in ('label_scope', '_label_scope') and isinstance(e.value, ast.Name) and e.value.id == 'self' \
            and fn.cls is not None and fn.cls.qualname == AF:
        init = ctx.repo.func(AF + '.__init__')
        sts = self_attr_stores(init.node, '_label_scope')
        if len(sts) == 1:
            return _scope_kind_of(ctx, init, sts[0][2], depth + 1)
        return None
    if isinstance(e, ast.Attribute) and e.attr == 'global_label_scope':
        g = ctx.repo.func('bespokeasm.assembler.model.AssemblerModel.global_label_scope')
        sts = self_attr_stores(g.node, '_global_label_scope')
        ks = {_scope_kind_of(ctx, g, v, depth + 1) for _, _, v in sts if not (isinstance(v, ast.Constant) and v.value is None)}
        return ks.pop() if len(ks) == 1 else None
    if isinstance(e, ast.Name):
        d = reaching_def(ctx, fn, e.id, e) if ctx.cfg(fn).has_node(e) else None
        if d is not None:
            return _scope_kind_of(ctx, fn, d, depth + 1)
        # parameter: join over all call sites
        if e.id in fn.param_names:
            kinds = set()
            for edge in ctx.cg.callers(fn):
                if isinstance(edge.node, ast.Call):
                    a = bind_args(edge.node, fn).get(e.id)
                    kinds.add(_scope_kind_of(ctx, edge.caller, a, depth + 1) if a is not None else None)
            return kinds.pop() if len(kinds) == 1 else None
    return None


def c06_1(ctx):
    ctx.rule('C06.1', 'lookup goes through own table then the parent chain only', 5)
    gl = ctx.repo.func(LS + '.get_label_value')
    lab = gl.call_params[0].arg
    res = resolver(ctx, gl, inline=False)
    kinds = {}
    for r in returns(gl):
        v = r.value
        cl = facts_at(ctx, gl, r, res)
        if isinstance(v, ast.Attribute) and v.attr == 'value' and unparse(v.value) == f'self._labels[{lab}]':
            ok = clause_implies(cl, lit_cmp(ctx, gl, f'{lab} in self._labels', res))
            ctx.check(ok, 'lookup:own-table', gl.site(r), 'a label found in the scope\'s own table has the stored value', describe_facts(cl))
            kinds['own'] = True
        elif isinstance(v, ast.Call) and unparse(v.func) == 'self.parent.get_label_value':
            ok = unparse(v.args[0]) == lab and clause_implies(cl, lit_cmp(ctx, gl, f'{lab} not in self._labels', res)) \
                and clause_implies(cl, ('isnone', 'self._parent', False))
            ctx.check(ok, 'lookup:then-parent', gl.site(r), 'otherwise the same name is looked up in the parent scope', f'{unparse(v)} under {describe_facts(cl)}')
            kinds['parent'] = True
        elif isinstance(v, ast.Constant) and v.value is None:
            kinds['none'] = True
            ctx.ok('lookup:else-none', gl.site(r), 'a name found nowhere in the chain yields None', '')
        else:
            ctx.refute('lookup:no-other-source', gl.site(r), 'a label value comes only from the own table or the parent chain',
                       f'returns {unparse(v)}')
    if not ('own' in kinds and 'parent' in kinds and 'none' in kinds):
        ctx.refute('lookup:shape', gl.site(), 'lookup = own table, then parent, else None', f'found branches {sorted(kinds)}')
    allowed = {LS + '.get_label_value', LS + '.set_label_value', LS + '.__init__'}
    for fn in ctx.repo.all_functions():
        for n in ast.walk(fn.node):
            if isinstance(n, ast.Attribute) and n.attr == '_labels':
                ctx.check(fn.qualname in allowed, f'lookup:who-touches-table:{ctx.short(fn)}', fn.site(n),
                          'the label table is touched only by get_label_value / set_label_value', f'{ctx.short(fn)} uses {unparse(n)}')
    # exactly one override of the lookup: the global scope's register check
    impl = ctx.repo.cls(LS).implementations('get_label_value')
    ctx.check({f.qualname for f in impl} == {LS + '.get_label_value', 'bespokeasm.assembler.label_scope.GlobalLabelScope.get_label_value'},
              'lookup:overrides', gl.site(), 'get_label_value is overridden only by GlobalLabelScope (register check)', str([ctx.short(f) for f in impl]))


def c06_2(ctx):
    ctx.rule('C06.2', 'scope-kind typing of every scope construction', 4)
    init = ctx.repo.func(LS + '.__init__')
    for e in ctx.cg.callers(init):
        fn, call = e.caller, e.node
        if e.how == 'super':
            b = bind_args(call, init)
            t = ctx.fold.try_fold(b.get('scope_type'), fn.module, fn.cls)
            ok = isinstance(t, EnumConst) and t.name == 'GLOBAL' and isinstance(b.get('parent'), ast.Constant) and b['parent'].value is None
            ctx.check(ok, f'kind:{ctx.short(fn)}', fn.site(call), 'the global scope has kind GLOBAL and no parent', unparse(call))
            continue
        b = bind_args(call, init)
        t = ctx.fold.try_fold(b.get('scope_type'), fn.module, fn.cls)
        if not isinstance(t, EnumConst):
            ctx.err(f'kind:{ctx.short(fn)}', fn.site(call), 'scope type argument is a constant kind', unparse(b.get('scope_type')))
            continue
        par = b.get('parent')
        names = {v: k for k, v in KIND.items()}
        if isinstance(par, ast.Name) and par.id in fn.param_names and reaching_def(ctx, fn, par.id, call) is None:
            # the parent is a parameter: decide every call site of the enclosing function separately
            sites = [ed for ed in ctx.cg.callers(fn) if isinstance(ed.node, ast.Call)]
            if not sites:
                ctx.err(f'kind:{ctx.short(fn)}:{t.name}', fn.site(call), 'call sites providing the parent scope exist', 'none found')
            for ed in sites:
                a = bind_args(ed.node, fn).get(par.id)
                k = _scope_kind_of(ctx, ed.caller, a) if a is not None else None
                key = f'kind:{t.name}:parent-from:{ctx.short(ed.caller)}'
                if k is None:
                    ctx.err(key, ed.caller.site(ed.node), 'the kind of the scope passed as parent can be derived', unparse(a) if a is not None else 'missing')
                else:
                    ctx.check(k == KIND[t.name] - 1, key, ed.caller.site(ed.node),
                              f'the scope passed as parent of a {t.name} scope has kind {names.get(KIND[t.name] - 1)}',
                              f'{unparse(a)} has kind {names.get(k, k)}'
                              + (': file-scoped labels of the includer become visible in the included file' if t.name == 'FILE' and k == 1 else ''))
            continue
        pk = _scope_kind_of(ctx, fn, par)
        if pk is None:
            ctx.err(f'kind:{ctx.short(fn)}:{t.name}', fn.site(call), 'the kind of the parent argument can be derived', unparse(b.get('parent')))
            continue
        ctx.check(pk == KIND[t.name] - 1, f'kind:{ctx.short(fn)}:{t.name}', fn.site(call),
                  f'a {t.name} scope has a parent of kind {names.get(KIND[t.name] - 1)}',
                  f'parent {unparse(b.get("parent"))} has kind {names.get(pk, pk)}: '
                  + ('file-scoped labels of the includer become visible in the included file' if t.name == 'FILE' else 'wrong nesting'))


def c06_3(ctx):
    ctx.rule('C06.3', 'set_label_value: keyword check, routing by kind, duplicate -> exit, too low -> exit', 6)
    sl = ctx.repo.func(LS + '.set_label_value')
    g = ctx.cfg(sl)
    res = resolver(ctx, sl, inline=False)
    lab = sl.call_params[0].arg
    ins = [n for n in walk_no_nested(sl.node) if isinstance(n, ast.Assign) and isinstance(n.targets[0], ast.Subscript)
           and unparse(n.targets[0].value) == 'self._labels']
    if not ins:
        raise AnalysisError('set_label_value no longer inserts into self._labels')
    kw_lit = None
    for n in walk_no_nested(sl.node):
        if isinstance(n, ast.If) and 'ASSEMBLER_KEYWORD_SET' in unparse(n.test) and body_only_aborts(n.body):
            kw_lit = n
    ctx.check(kw_lit is not None, 'set:keyword-rejected', sl.site(kw_lit) if kw_lit else sl.site(), 'a label that is an assembler keyword is rejected',
              'no aborting keyword check')
    # the keyword set contains the words as the assembler itself spells them (directive names in lower case, functions in upper case)
    kws = ctx.fold.module_const('bespokeasm.assembler.keywords', 'ASSEMBLER_KEYWORD_SET')
    need = {'LSB'} | {f'BYTE{i}' for i in range(10)} | {'org', 'memzone', 'align', 'fill', 'zero', 'zerountil', 'byte', '2byte', '4byte', '8byte', 'cstr', 'asciiz',
                                                          'include', 'require', 'create_memzone', 'define', 'if', 'elif', 'else', 'endif', 'ifdef', 'ifndef', 'mute', 'unmute', 'emit'}
    ctx.check(isinstance(kws, (set, frozenset)) and need <= set(kws), 'set:keyword-set-contents', 'src/bespokeasm/assembler/keywords.py:1',
              'the keyword set holds every directive name and every expression function as spelled by the lexer (LSB, BYTE0..BYTE9)',
              f'missing: {sorted(need - set(kws)) if isinstance(kws, (set, frozenset)) else kws}')
    if kw_lit is not None:
        base = deref(ctx, sl, kw_lit.test.left, kw_lit) if isinstance(kw_lit.test, ast.Compare) else None
        ok = isinstance(base, ast.Subscript) and unparse(base.value) == lab and isinstance(base.slice, ast.Slice) \
            and unparse(base.slice.lower) == 'len(label_scope.label_prefix)' and base.slice.upper is None
        ctx.check(ok, 'set:keyword-compared-without-prefix', sl.site(kw_lit), 'the name is compared with the keywords after removing the scope prefix',
                  unparse(base) if base is not None else unparse(kw_lit.test))
        for n in ins:
            ctx.check(g.dominates(g.node_of(kw_lit), g.node_of(n)), 'set:keyword-check-first', sl.site(n), 'the keyword check precedes the insertion', 'not dominated')
    # a name the expression lexer reads as a number can never be referred to: it is refused where it is defined
    up_ = [c for c in ast.walk(sl.node) if isinstance(c, ast.Call) and unparse(c.func) == 'self.parent.set_label_value']
    for n in list(ins) + up_:
        cl = facts_at(ctx, sl, n, res)
        ok = any(len(c) == 1 and next(iter(c))[0] == 'call' and 'is_string_numeric(' in next(iter(c))[1] and lab in next(iter(c))[1] and next(iter(c))[-1] is False for c in cl)
        ctx.check(ok, 'set:numeric-looking-name-rejected', sl.site(n), 'a label or constant is stored (or passed up) only if its name does not read as a numeric literal',
                  f'{describe_facts(cl)}: `EACH:` is accepted and `jmp EACH` then assembles the number $0EAC')
    for n in ins:
        cl = facts_at(ctx, sl, n, res)
        ok = clause_implies(cl, lit_cmp(ctx, sl, f'{lab} not in self._labels', res)) and unparse(n.targets[0].slice) == lab
        ctx.check(ok, 'set:duplicate-check', sl.site(n), 'a label is inserted under its own name only if it is not yet defined in this scope',
                  f'{unparse(n.targets[0])} under {describe_facts(cl)}')
        same = clause_implies(cl, lit_cmp(ctx, sl, 'label_scope == self.type', res))
        ctx.check(same, 'set:inserted-at-own-kind', sl.site(n), 'a label is stored in the scope whose kind equals the label\'s kind', describe_facts(cl))
        v = n.value
        ok = isinstance(v, ast.Call) and unparse(v.func).endswith('LabelInfo') and [unparse(a) for a in v.args[:2]] == [lab, sl.call_params[1].arg]
        ctx.check(ok, 'set:stores-given-value', sl.site(n), 'the stored value is the value given', unparse(v))
    # duplicate -> exit; too low -> exit; higher kind -> parent
    aborts = [n for n in walk_no_nested(sl.node) if isinstance(n, ast.Expr) and 'sys.exit' in unparse(n)]
    dup = low = False
    for a in aborts:
        cl = facts_at(ctx, sl, a, res)
        if clause_implies(cl, lit_cmp(ctx, sl, f'{lab} in self._labels', res)):
            dup = True
    ctx.check(dup, 'set:duplicate-rejected', sl.site(), 'a name defined twice in one scope is rejected', 'no exit under `label in self._labels`')
    # completing normally means: stored here, or handed to the parent - there is no third way out (e.g. "already there, fine")
    via = {g.node_of(n) for n in ins} | {g.node_of(c) for c in ast.walk(sl.node) if isinstance(c, ast.Call) and unparse(c.func) == 'self.parent.set_label_value'}
    ctx.check(g.all_paths_through(g.entry, g.exit, via), 'set:no-silent-exit', sl.site(),
              'every call that returns normally has stored the label in this scope or passed it to the parent scope',
              'some path returns without storing or delegating: a second definition can be accepted silently')
    up = [c for c in ast.walk(sl.node) if isinstance(c, ast.Call) and unparse(c.func) == 'self.parent.set_label_value']
    ok = len(up) == 1
    if ok:
        cl = facts_at(ctx, sl, up[0], res)
        ok = clause_implies(cl, lit_cmp(ctx, sl, 'label_scope.value < self.type.value', res)) and [unparse(a) for a in up[0].args[:2]] == [lab, sl.call_params[1].arg]
    ctx.check(ok, 'set:routing-upwards', sl.site(up[0]) if up else sl.site(), 'a label of a wider kind is handed to the parent scope unchanged',
              unparse(up[0]) if up else 'no parent call')
    # label too low: an exit reached exactly when the kind is neither wider than nor equal to this scope's (whatever the nesting
    # or guard-clause spelling); that such a label cannot complete normally already follows from the three rules above
    ok = False
    for a in aborts:
        cl = facts_at(ctx, sl, a, res)
        if clause_implies(cl, lit_cmp(ctx, sl, 'label_scope.value >= self.type.value', res)) and clause_implies(cl, lit_cmp(ctx, sl, 'label_scope != self.type', res)) \
                and 'self._labels' not in describe_facts(cl):
            ok = True
    ctx.check(ok, 'set:too-low-rejected', sl.site(), 'a local label with no enclosing non-local label is rejected', 'no exit under `kind neither wider than nor equal to this scope`')


def c06_4(ctx):
    ctx.rule('C06.4', 'file loop: local regions open on non-local address labels, close on .org/.memzone', 7)
    fn = ctx.repo.func(LOAD)
    res = resolver(ctx, fn, inline=False)
    loops = [l for l in walk_no_nested(fn.node) if isinstance(l, ast.For)]
    assigns = [n for n in walk_no_nested(fn.node) if isinstance(n, ast.Assign) and unparse(n.targets[0]) == 'current_scope']
    if not assigns:
        raise AnalysisError('load_line_objects no longer keeps current_scope')
    seen = set()
    for a in assigns:
        in_loop = any(any(x is a for x in ast.walk(l)) for l in loops)
        if not in_loop:
            ctx.check(unparse(a.value) == 'self.label_scope', 'region:starts-at-file-scope', fn.site(a), 'a file starts in its own file scope', unparse(a))
            seen.add('init')
            continue
        fcl = filter_facts_at(ctx, fn, a, res)
        lits = {l for c in fcl for l in c if not (l[0] == 'call' and 'startswith' in l[1]) and l != ('truthy', 'line_str', True)}
        unit = all(len(c) == 1 for c in fcl)
        if isinstance(a.value, ast.Call) and unparse(a.value.func) == 'LabelScope':
            want = {('truthy', 'lobj.compilable', True), ('isinstance', 'lobj', 'LabelLine', True), ('truthy', 'lobj.is_constant', False),
                    lit_cmp(ctx, fn, 'LabelScopeType.get_label_scope(lobj.get_label()) != LabelScopeType.LOCAL', res)}
            ok = unit and lits == want
            args = [unparse(x) for x in a.value.args]
            ok2 = args[1:] == ['self.label_scope', 'lobj.get_label()']
            ctx.check(ok, 'region:opens-on-nonlocal-address-label', fn.site(a),
                      'a new local region opens exactly on a compilable label that is neither a constant nor a local label',
                      f'selected by {describe_facts(fcl)}')
            ctx.check(ok2, 'region:child-of-file-scope', fn.site(a), 'the new local scope is a child of this file\'s scope', str(args))
            seen.add('open')
        elif unparse(a.value) == 'self.label_scope':
            want = {('truthy', 'lobj.compilable', True), ('isinstance', 'lobj', 'LabelLine', False), ('isinstance', 'lobj', 'SetMemoryZoneLine', True)}
            ctx.check(unit and lits == want, 'region:closes-on-org-memzone', fn.site(a),
                      'the local region ends exactly on a compilable .org/.memzone line', f'selected by {describe_facts(fcl)}')
            seen.add('close')
        else:
            ctx.refute('region:other-change', fn.site(a), 'the current scope changes only by opening/closing a local region', unparse(a))
    for k, what in (('init', 'initialised to the file scope'), ('open', 'opened on non-local labels'), ('close', 'closed on .org/.memzone')):
        if k not in seen:
            ctx.refute(f'region:{k}-present', fn.site(), f'the local region is {what}', 'no such assignment')
    sts = [n for n in walk_no_nested(fn.node) if isinstance(n, ast.Assign) and unparse(n.targets[0]) == 'lobj.label_scope']
    ok = len(sts) == 1 and unparse(sts[0].value) == 'current_scope'
    if ok:
        fcl = filter_facts_at(ctx, fn, sts[0], res)
        lits = {l for c in fcl for l in c if not (l[0] == 'call' and 'startswith' in l[1]) and l != ('truthy', 'line_str', True)}
        ok = lits == {('truthy', 'lobj.compilable', True)}
    ctx.check(ok, 'region:every-compilable-line-gets-current-scope', fn.site(sts[0]) if sts else fn.site(),
              'every compilable line is assigned the scope current at that line', '; '.join(unparse(s) for s in sts))
    # the scope handed to the line factory (used to evaluate constants at parse time) is the current one
    target = ctx.repo.func('bespokeasm.assembler.line_object.factory.LineOjectFactory.parse_line')
    for c in [c for c in ast.walk(fn.node) if isinstance(c, ast.Call) and unparse(c.func).endswith('LineOjectFactory.parse_line')]:
        b = bind_args(c, target)
        ctx.check(unparse(b.get('label_scope')) == 'current_scope', 'region:factory-gets-current-scope', fn.site(c),
                  'lines are parsed with the scope current at that line', unparse(b.get('label_scope')))
    # .org / .memzone are always built as SetMemoryZoneLine (the region reset relies on the class)
    fac = ctx.repo.func('bespokeasm.assembler.line_object.directive_line.factory.DirectiveLine.factory')
    rf = resolver(ctx, fac, inline=False)
    want = {'PATTERN_ORG_DIRECTIVE': 'AddressOrgLine', 'PATTERN_SET_MEMZONE_DIRECTIVE': 'SetMemoryZoneLine'}
    for pat, cname in want.items():
        blocks = [i for i in walk_no_nested(fac.node) if isinstance(i, ast.If) and 'line_match' in unparse(i.test)]
        hit = None
        for i in blocks:
            d = reaching_def(ctx, fac, 'line_match', i)
            if d is not None and pat in unparse(d):
                hit = i
        if hit is None:
            ctx.err(f'directive:{cname}', fac.site(), f'{pat} is matched by DirectiveLine.factory', 'block not found')
            continue
        rets = [r for b_ in hit.body for r in ast.walk(b_) if isinstance(r, ast.Return)]
        ok = bool(rets) and all(isinstance(r.value, ast.Call) and unparse(r.value.func) == cname for r in rets) \
            and len([s for s in hit.body if isinstance(s, (ast.If,))]) == 0
        ctx.check(ok, f'directive:{cname}', fac.site(hit), f'every line matching {pat} becomes a {cname} (which ends the local region)',
                  '; '.join(unparse(r.value)[:60] if r.value is not None else 'None' for r in rets))


def c06_5(ctx):
    ctx.rule('C06.5', 'every expression of a line is evaluated in that line\'s own scope', 10)
    gv = ctx.repo.func(EXPR + '.get_value')
    n = 0
    for e in ctx.cg.callers(gv):
        fn = e.caller
        if '.line_object.' not in fn.module.name + '.':
            continue
        b = bind_args(e.node, gv)
        a = unparse(b.get('label_scope'))
        n += 1
        if fn.qualname == LABEL + '.factory':
            ctx.check(a == fn.call_params[4].arg and a == 'label_scope', 'scope:constant-at-parse-time', fn.site(e.node),
                      'a constant\'s defining expression is evaluated in the scope current at its line (reviewed exception)', a)
            continue
        ctx.check(a == 'self.label_scope', f'scope:{ctx.short(fn)}', fn.site(e.node), 'the expression is evaluated in the line\'s own scope', f'scope argument {a}')
    if n < 8:
        ctx.err('scope:sites', '-', 'at least 8 expression evaluation sites in line objects', f'found {n}')
    # byte code parts hand the scope through unchanged
    parts = ctx.repo.cls('bespokeasm.assembler.bytecode.parts.ByteCodePart')
    for f in parts.implementations('get_value'):
        p = f.call_params[0].arg
        for c in ast.walk(f.node):
            if isinstance(c, ast.Call) and isinstance(c.func, ast.Attribute) and c.func.attr == 'get_value' and c.args:
                ctx.check(unparse(c.args[0]) == p, f'scope:part:{ctx.short(f)}', f.site(c), 'byte code parts evaluate in the scope they are given',
                          unparse(c))
    gb = ctx.repo.func('bespokeasm.assembler.bytecode.assembled.AssembledInstruction.get_bytes')
    for c in ast.walk(gb.node):
        if isinstance(c, ast.Call) and isinstance(c.func, ast.Attribute) and c.func.attr == 'get_value':
            ctx.check(unparse(c.args[0]) == gb.call_params[0].arg, 'scope:assembled-instruction', gb.site(c), 'parts are evaluated in the instruction line\'s scope', unparse(c))
    nv = ctx.repo.func(EXPR + '._numeric_value')
    for c in ast.walk(nv.node):
        if isinstance(c, ast.Call) and isinstance(c.func, ast.Attribute) and c.func.attr == 'get_label_value':
            ok = unparse(c.func.value) == nv.call_params[0].arg and unparse(c.args[0]) == 'self.value'
            ctx.check(ok, 'scope:label-looked-up-by-name', nv.site(c), 'a label token is looked up by its own name in the given scope', unparse(c))
    for mname in ('_compute',):
        f = ctx.repo.func(f'{EXPR}.{mname}')
        for c in ast.walk(f.node):
            if isinstance(c, ast.Call) and isinstance(c.func, ast.Attribute) and c.func.attr in ('_compute', '_numeric_value'):
                ctx.check(unparse(c.args[0]) == f.call_params[0].arg, f'scope:{mname}:passes-scope', f.site(c), 'sub-expressions are evaluated in the same scope', unparse(c))


def c06_6(ctx):
    ctx.rule('C06.6', 'unresolved labels, registers as labels and registers in numeric context are exits', 6)
    nv = ctx.repo.func(EXPR + '._numeric_value')
    res = resolver(ctx, nv, inline=False)
    lab_rets = []
    for r in returns(nv):
        if isinstance(r.value, ast.Name):
            d = reaching_def(ctx, nv, r.value.id, r)
            if d is not None and 'get_label_value' in unparse(d):
                cl = facts_at(ctx, nv, r, res)
                lab_rets.append(r)
                ctx.check(clause_implies(cl, ('isnone', r.value.id, False)), 'reject:unresolved-label', nv.site(r),
                          'a label with no visible definition is rejected (exit) instead of being given a value', describe_facts(cl))
    if not lab_rets:
        ctx.refute('reject:unresolved-label', nv.site(), 'a looked-up label value is returned only when it is not None', 'shape not found')
    fac = ctx.repo.func(LABEL + '.factory')
    rf = resolver(ctx, fac, inline=False)
    ctors = [c for c in ast.walk(fac.node) if isinstance(c, ast.Call) and unparse(c.func) == 'LabelLine']
    init = ctx.repo.func(LABEL + '.__init__')
    regs = fac.call_params[3].arg
    for c in ctors:
        b = bind_args(c, init)
        name = unparse(b.get('label'))
        cl = facts_at(ctx, fac, c, rf)
        is_const = not (isinstance(b.get('value'), ast.Constant) and b['value'].value is None)
        key = 'constant' if is_const else 'label'
        from rules.shared import not_a_register
        ctx.check(not_a_register(cl, name, regs), f'reject:register-as-{key}', fac.site(c),
                  f'a {key} named like a register (in any letter case, as register operands match) is rejected', describe_facts(cl))
        spelled = {name}
        try:
            from engine.helpers import deref as _deref
            spelled.add(unparse(_deref(ctx, fac, b.get('label'), c)))     # the text the name was bound to (`label_match.group(2).strip()`)
        except Exception:
            pass
        valid = any(len(cc) == 1 and next(iter(cc))[0] == 'call' and next(iter(cc))[1] in {f'is_valid_label({x})' for x in spelled} and next(iter(cc))[-1] for cc in cl)
        ctx.check(valid, f'reject:invalid-{key}-name', fac.site(c), f'a {key} must have a valid label name', describe_facts(cl))
        if is_const:
            ok = any(len(cc) == 1 and next(iter(cc))[0] == 'call' and 'contains_register_labels' in next(iter(cc))[1] and next(iter(cc))[-1] is False for cc in cl)
            ctx.check(ok, 'reject:register-in-constant-expression', fac.site(c), 'a constant whose expression names a register is rejected', describe_facts(cl))
    gg = ctx.repo.func('bespokeasm.assembler.label_scope.GlobalLabelScope.get_label_value')
    rg = resolver(ctx, gg, inline=False)
    sup = [c for c in ast.walk(gg.node) if isinstance(c, ast.Call) and 'super().get_label_value' in unparse(c.func)]
    ok = len(sup) == 1
    if ok:
        cl = facts_at(ctx, gg, sup[0], rg)
        from rules.shared import not_a_register, register_name_test
        ok = not_a_register(cl, gg.call_params[0].arg, 'self._register_labels')
    ctx.check(ok, 'reject:register-in-numeric-context', gg.site(), 'a register name (in any letter case) used where a number is expected is rejected', 'no dominating register check')
    from rules.shared import register_name_test
    register_name_test(ctx)
    # registers handed to the global scope are the model's registers
    gs = ctx.repo.func('bespokeasm.assembler.model.AssemblerModel.global_label_scope')
    cs = [c for c in ast.walk(gs.node) if isinstance(c, ast.Call) and unparse(c.func).endswith('global_scope')]
    ctx.check(len(cs) == 1 and unparse(cs[0].args[0]) == 'self.registers', 'reject:registers-source', gs.site(), 'the register check uses the ISA\'s registers',
              '; '.join(unparse(c) for c in cs))


def _chain(fn):
    """The function body with guard clauses (`if c: return a` / `return b`) folded back into one if/elif/else chain."""
    import copy
    from engine.normalize import _structure_returns
    body = [s_ for s_ in copy.deepcopy(fn.node.body) if not (isinstance(s_, ast.Expr) and isinstance(s_.value, ast.Constant))]
    return _structure_returns(body) or body


def c06_8(ctx):
    ctx.rule('C06.8', 'prefix <-> scope kind tables are inverse; kinds ordered GLOBAL < FILE < LOCAL', 3)
    vals = {k: ctx.fold.class_const(LST, k) for k in ('GLOBAL', 'FILE', 'LOCAL')}
    ctx.check(vals['GLOBAL'] < vals['FILE'] < vals['LOCAL'], 'kinds:ordered', 'src/bespokeasm/assembler/label_scope/__init__.py:50',
              'GLOBAL < FILE < LOCAL (the routing comparison relies on it)', str(vals))
    gls = ctx.repo.func(LST + '.get_label_scope')
    table = {}
    cur = next((s for s in _chain(gls) if isinstance(s, ast.If)), None)
    while cur is not None:
        t = cur.test
        r = next((s for s in cur.body if isinstance(s, ast.Return)), None)
        if isinstance(t, ast.Call) and isinstance(t.func, ast.Attribute) and t.func.attr == 'startswith' and isinstance(t.args[0], ast.Constant) and r is not None:
            table[t.args[0].value] = unparse(r.value).split('.')[-1]
        if cur.orelse and isinstance(cur.orelse[0], ast.If):
            cur = cur.orelse[0]
        else:
            r = next((s for s in cur.orelse if isinstance(s, ast.Return)), None)
            table[''] = unparse(r.value).split('.')[-1] if r is not None else None
            cur = None
    ctx.check(table == {'.': 'LOCAL', '_': 'FILE', '': 'GLOBAL'}, 'kinds:prefix->kind', gls.site(), "'.' -> LOCAL, '_' -> FILE, otherwise GLOBAL", str(table))
    lp = ctx.repo.func(LST + '.label_prefix')
    inv = {}
    cur = next((s for s in _chain(lp) if isinstance(s, ast.If)), None)
    while cur is not None:
        t = cur.test
        r = next((s for s in cur.body if isinstance(s, ast.Return)), None)
        if isinstance(t, ast.Compare) and r is not None and isinstance(r.value, ast.Constant):
            inv[unparse(t.comparators[0]).split('.')[-1]] = r.value.value
        if cur.orelse and isinstance(cur.orelse[0], ast.If):
            cur = cur.orelse[0]
        else:
            r = next((s for s in cur.orelse if isinstance(s, ast.Return)), None)
            # "otherwise": the GLOBAL kind, unless the chain already named it (then what follows is never reached: three kinds exist)
            if 'GLOBAL' not in inv:
                inv['GLOBAL'] = r.value.value if r is not None and isinstance(r.value, ast.Constant) else None
            cur = None
    ctx.check(inv == {'LOCAL': '.', 'FILE': '_', 'GLOBAL': ''}, 'kinds:kind->prefix', lp.site(), "label_prefix is the inverse table", str(inv))


def c06_9(ctx):
    ctx.rule('C06.9', 'the scope of a line is what the file loop assigned: accessors are identities, nobody else writes it', 5)
    LO = 'bespokeasm.assembler.line_object.LineObject'
    setter = ctx.repo.func(LO + '.label_scope#setter')
    p = setter.call_params[0].arg
    body = [s_ for s_ in setter.node.body if not (isinstance(s_, ast.Expr) and isinstance(s_.value, ast.Constant))]
    ok = len(body) == 1 and isinstance(body[0], ast.Assign) and unparse(body[0]) == f'self._label_scope = {p}'
    ctx.check(ok, 'accessor:scope-setter-identity', setter.site(), 'assigning a line\'s scope stores exactly the given scope, unconditionally',
              '; '.join(unparse(b)[:70] for b in body))
    getter = ctx.repo.func(LO + '.label_scope')
    rr = returns(getter)
    ctx.check(len(rr) == 1 and unparse(rr[0].value) == 'self._label_scope', 'accessor:scope-getter-identity', getter.site(), 'reading a line\'s scope returns what was stored', '; '.join(unparse(r) for r in rr))
    lo = ctx.repo.cls(LO)
    for f in lo.implementations('label_scope') + lo.setter_implementations('label_scope'):
        ctx.check(f.cls.qualname == LO, f'accessor:scope-override:{ctx.short(f)}', f.site(), 'no subclass overrides the scope accessors', ctx.short(f))
    allowed_setter_callers = {LOAD}
    for e in ctx.cg.callers(setter):
        ctx.check(CallGraph.key(e.caller) in allowed_setter_callers, f'who:assigns-scope:{ctx.short(e.caller)}', e.caller.site(e.node),
                  'only the file loop assigns a line\'s scope', f'{ctx.short(e.caller)} assigns {unparse(e.node)}')
    for fn, node in attr_writers(ctx, '_label_scope'):
        ok = fn.qualname in (LO + '.__init__', LO + '.label_scope') or (fn.qualname == AF + '.__init__')
        ctx.check(ok, f'who:writes-_label_scope:{ctx.short(fn)}', fn.site(node), '_label_scope is written only by the constructor and the setter', ctx.short(fn))
    init = ctx.repo.func(LO + '.__init__')
    st = self_attr_stores(init.node, '_label_scope')
    ctx.check(len(st) == 1 and unparse(st[0][2]) == 'None', 'accessor:scope-starts-none', init.site(), 'a new line has no scope until the file loop assigns one', '; '.join(unparse(x[0]) for x in st))
    ic = ctx.repo.func(LABEL + '.is_constant')
    rr = returns(ic)
    ctx.check(len(rr) == 1 and unparse(rr[0].value) in ('self._value is not None', 'not self._value is None'), 'label:is-constant', ic.site(),
              'a label line is a constant iff a value was given (a constant 0 neither opens a local region nor is bound as an address)', '; '.join(unparse(r) for r in rr))
    gl = ctx.repo.func(LABEL + '.get_label')
    rr = returns(gl)
    ctx.check(len(rr) == 1 and unparse(rr[0].value) == 'self._label', 'label:name', gl.site(), 'get_label returns the parsed label name', '; '.join(unparse(r) for r in rr))


def c06_state(ctx):
    """Per-statement / per-lookup properties presuppose that nothing is remembered between statements beyond the reviewed state."""
    from rules.shared import state_discipline
    state_discipline(ctx, ('bespokeasm.assembler.label_scope', 'bespokeasm.assembler.assembly_file', 'bespokeasm.assembler.line_object.label_line', 'bespokeasm.assembler.line_object.__init__', 'bespokeasm.assembler.line_object.factory', 'bespokeasm.expression'))


RULES = [c06_1, c06_2, c06_3, c06_4, c06_5, c06_6, c06_8, c06_9, c06_state]

_L = 'assembler/label_scope/__init__.py'
_A = 'assembler/assembly_file.py'
_LL = 'assembler/line_object/label_line.py'
MUTANTS = [
    V('c06-numeric-looking-label-accepted', 'assembler/label_scope/__init__.py', "        if is_string_numeric(label):\n", "        if False and is_string_numeric(label):\n", 'C06.3'),
    V('c06-same-value-duplicate-accepted', 'assembler/label_scope/__init__.py', "            else:\n                sys.exit(f\"ERROR: {line_id} - Label '{label}' is defined multiple times at scope {self}\")", "            elif self._labels[label].value == value:\n                return\n            else:\n                sys.exit(f\"ERROR: {line_id} - Label '{label}' is defined multiple times at scope {self}\")", 'C06.3'),
    V('c06-include-parent-file-scope', _A, 'file_obj = AssemblyFile(new_filepath, self.label_scope.parent)', 'file_obj = AssemblyFile(new_filepath, self.label_scope)', 'C06.2'),
    V('c06-duplicate-allowed', _L, "            if label not in self._labels:\n                self._labels[label] = LabelScope.LabelInfo(label, value, line_id)\n            else:\n                sys.exit(f\"ERROR: {line_id} - Label '{label}' is defined multiple times at scope {self}\")",
      "            self._labels[label] = LabelScope.LabelInfo(label, value, line_id)", 'C06.3'),
    V('c06-duplicate-equal-ok', _L, "            if label not in self._labels:", "            if label not in self._labels or self._labels[label].value == value:", 'C06.3'),
    V('c06-no-reset-on-memzone', _A, "                                    current_scope = self.label_scope\n                                    current_memzone", "                                    current_memzone", 'C06.4'),
    V('c06-prefix-swap', _L, "        if label.startswith('.'):\n            return LabelScopeType.LOCAL\n        elif label.startswith('_'):\n            return LabelScopeType.FILE",
      "        if label.startswith('_'):\n            return LabelScopeType.LOCAL\n        elif label.startswith('.'):\n            return LabelScopeType.FILE", 'C06.8'),
    V('c06-scope-open-uncompilable', _A, '''                            if lobj.compilable:
                                if isinstance(lobj, LabelLine):
                                    if not lobj.is_constant \\
                                            and LabelScopeType.get_label_scope(lobj.get_label()) != LabelScopeType.LOCAL:
                                        current_scope = LabelScope(LabelScopeType.LOCAL, self.label_scope, lobj.get_label())
''', '''                            if isinstance(lobj, LabelLine):
                                if not lobj.is_constant \\
                                        and LabelScopeType.get_label_scope(lobj.get_label()) != LabelScopeType.LOCAL:
                                    current_scope = LabelScope(LabelScopeType.LOCAL, self.label_scope, lobj.get_label())
                            if lobj.compilable:
                                if isinstance(lobj, LabelLine):
                                    pass
''', 'C06.4'),
    V('c06-constants-open-scope', _A, "                                    if not lobj.is_constant \\\n                                            and LabelScopeType", "                                    if True \\\n                                            and LabelScopeType", 'C06.4'),
    V('c06-local-parent-local', _A, "current_scope = LabelScope(LabelScopeType.LOCAL, self.label_scope, lobj.get_label())", "current_scope = LabelScope(LabelScopeType.LOCAL, current_scope, lobj.get_label())", 'C06.4'),
    V('c06-unresolved-zero', 'expression/__init__.py', "            if val is None:\n                sys.exit(f'ERROR: {line_id} - Label {self.value} resolves to NONE = {self}')\n", "            if val is None:\n                val = 0\n", 'C06.6'),
    V('c06-register-label-ok', _LL, "                if is_register_name(label_val, registers):\n                    sys.exit(f'ERROR: {line_id} - used the register label \"{label_val}\" as a non-register label')\n", "", 'C06.6'),
    V('c06-global-register-check', _L, "        if is_register_name(label, self._register_labels):\n            sys.exit(f'ERROR: {line_id} - register label \"{label}\" used in numeric expression')\n", "", 'C06.6'),
    V('c06-keyword-ok', _L, "        if base_label in ASSEMBLER_KEYWORD_SET:\n", "        if False:\n", 'C06.3'),
    V('c06-fill-global-scope', 'assembler/line_object/directive_line/fill_data.py', "            self._value = self._value_expr.get_value(self.label_scope, self.line_id)", "            self._value = self._value_expr.get_value(self.label_scope.parent, self.line_id)", 'C06.5'),
    V('c06-lookup-siblings', _L, "        elif self.parent is not None:\n            return self.parent.get_label_value(label, line_id)", "        elif self.parent is not None:\n            return self.parent.get_label_value(label.lstrip('.'), line_id)", 'C06.1'),
    V('c06-same-zone-memzone-plain', 'assembler/line_object/directive_line/factory.py', "            name_str = line_match.group(1)\n            return SetMemoryZoneLine(", "            name_str = line_match.group(1)\n            if name_str == current_memzone.name:\n                return LineObject(line_id, line_match.group(0), comment, current_memzone)\n            return SetMemoryZoneLine(", 'C06.4'),
    V('c06-too-low-goes-up', _L, "            sys.exit(f\"ERROR: {line_id} - Label '{label}' is to low of scope for available scopes at this line.\")", "            self._labels[label] = LabelScope.LabelInfo(label, value, line_id)", 'C06.3'),
    V('c06-line-scope-file', _A, "                                lobj.label_scope = current_scope\n", "                                lobj.label_scope = self.label_scope if isinstance(lobj, LabelLine) and lobj.is_constant else current_scope\n", 'C06.4'),
]
MUTANTS += [
    V('c06-scope-setter-once', 'assembler/line_object/__init__.py', "    def label_scope(self, value):\n        self._label_scope = value", "    def label_scope(self, value):\n        if self._label_scope is None:\n            self._label_scope = value", 'C06.9'),
    V('c06-scope-set-in-factory', 'assembler/line_object/factory.py', "                if line_obj is not None:\n                    line_obj_list.append(line_obj)\n                    instruction_str = instruction_str.replace(line_obj.instruction, '', 1).strip()\n                    continue\n\n                # if we are here", "                if line_obj is not None:\n                    line_obj.label_scope = label_scope\n                    line_obj_list.append(line_obj)\n                    instruction_str = instruction_str.replace(line_obj.instruction, '', 1).strip()\n                    continue\n\n                # if we are here", 'C06.9'),
    V('c06-zero-constant-region', _LL, "        return self._value is not None", "        return bool(self._value)", 'C06.9'),
    V('c06-keyword-lowered', _L, "        if base_label in ASSEMBLER_KEYWORD_SET:\n", "        if base_label.lower() in ASSEMBLER_KEYWORD_SET:\n", 'C06.3'),
]
TWINS = [
    V('c06-t-lookup-flip', _L, "        if label in self._labels:\n            return self._labels[label].value\n        elif self.parent is not None:", "        if label in self._labels:\n            return self._labels[label].value\n        elif self._parent is not None:"),
    V('c06-t-dup-order', _L, "            if label not in self._labels:\n                self._labels[label] = LabelScope.LabelInfo(label, value, line_id)\n            else:\n                sys.exit(f\"ERROR: {line_id} - Label '{label}' is defined multiple times at scope {self}\")",
      "            if label in self._labels:\n                sys.exit(f\"ERROR: {line_id} - Label '{label}' is defined multiple times at scope {self}\")\n            self._labels[label] = LabelScope.LabelInfo(label, value, line_id)"),
]
