"""Rules shared by several properties: how the `predefined:` section of the ISA definition reaches the assembler.

CFG.1  each model accessor returns the configuration list it is named after (or nothing)
CFG.2  every predefined data block becomes one byte-producing line with the block's own address, size and value
CFG.3  every predefined constant is registered globally under its own name with its own value
CFG.4  every predefined memory zone is created with its own name, start and end
"""
import ast

from engine.index import AnalysisError
from engine.helpers import (resolver, filter_facts_at, describe_facts, unparse, walk_no_nested, returns, deref)
from engine.types import bind_args

MODEL = 'bespokeasm.assembler.model.AssemblerModel'
ENGINE = 'bespokeasm.assembler.engine.Assembler.assemble_bytecode'

_ACCESSORS = {
    'predefined_constants': 'constants',
    'predefined_data_blocks': 'data',
    'predefined_memory_zones': 'memory_zones',
    'predefined_symbols': 'symbols',
}


def _is_empty_list(e) -> bool:
    return (isinstance(e, ast.List) and not e.elts) or (isinstance(e, ast.Call) and unparse(e.func) == 'list' and not e.args)


def cfg_accessors(ctx, only=None):
    ctx.rule('CFG.1', 'model accessors return the `predefined:` list they are named after', 1)
    for name, key in _ACCESSORS.items():
        if only and name not in only:
            continue
        fn = ctx.repo.func(f'{MODEL}.{name}')
        rr = [r for r in returns(fn) if r.value is not None]
        real = [r for r in rr if not _is_empty_list(r.value)]
        want = (f"self._config['predefined']['{key}']", f"self._config['predefined'].get('{key}', [])", f"self._config.get('predefined', {{}}).get('{key}', [])")
        ok = len(real) >= 1 and all(unparse(r.value) in want for r in real)
        ctx.check(ok, f'accessor:{name}', fn.site(real[0]) if real else fn.site(),
                  f'{name} is the list under predefined.{key} of the ISA definition, or empty',
                  '; '.join(unparse(r.value) for r in rr))


def _field(ctx, fn, e, at, var):
    """`e` (possibly through locals) is var['<key>'] -> key, else None."""
    d = deref(ctx, fn, e, at) if e is not None else None
    if isinstance(d, ast.Subscript) and unparse(d.value) == var and isinstance(d.slice, ast.Constant):
        return d.slice.value
    return None


def cfg_data_blocks(ctx):
    ctx.rule('CFG.2', 'every predefined data block becomes a byte-producing line at its own address, with its own size and value', 5)
    fn = ctx.repo.func(ENGINE)
    loops = [l for l in walk_no_nested(fn.node) if isinstance(l, ast.For) and unparse(l.iter) == 'self._model.predefined_data_blocks']
    if len(loops) != 1:
        raise AnalysisError('assemble_bytecode: expected one loop over self._model.predefined_data_blocks')
    lp = loops[0]
    var = unparse(lp.target)
    init = ctx.repo.func('bespokeasm.assembler.line_object.predefined_data.PredefinedDataLine.__init__')
    ctors = [c for c in ast.walk(lp) if isinstance(c, ast.Call) and unparse(c.func) == 'PredefinedDataLine']
    if len(ctors) != 1:
        raise AnalysisError('predefined data loop: expected one PredefinedDataLine(...)')
    b = bind_args(ctors[0], init)
    for param, key in (('byte_length', 'size'), ('byte_value', 'value'), ('name', 'name')):
        got = _field(ctx, fn, b.get(param), ctors[0], var)
        ctx.check(got == key, f'data-block:{param}', fn.site(ctors[0]), f'the line\'s {param} is the block\'s `{key}`', f'{param} = {unparse(b.get(param)) if b.get(param) is not None else None} (block field {got!r})')
    obj = None
    for n in walk_no_nested(lp):
        if isinstance(n, ast.Assign) and n.value is ctors[0] and isinstance(n.targets[0], ast.Name):
            obj = n.targets[0].id
    sa = [c for c in ast.walk(lp) if isinstance(c, ast.Call) and isinstance(c.func, ast.Attribute) and c.func.attr == 'set_start_address' and unparse(c.func.value) == obj]
    ok = len(sa) == 1 and _field(ctx, fn, sa[0].args[0], sa[0], var) == 'address'
    ctx.check(ok, 'data-block:address', fn.site(sa[0]) if sa else fn.site(lp), 'the line is placed at the block\'s `address`', '; '.join(unparse(c) for c in sa) or 'no set_start_address')
    res = resolver(ctx, fn, inline=False)
    apps = [c for c in ast.walk(lp) if isinstance(c, ast.Call) and isinstance(c.func, ast.Attribute) and c.func.attr == 'append' and c.args and unparse(c.args[0]) == obj]
    ok = len(apps) == 1 and filter_facts_at(ctx, fn, apps[0], res) == []
    ctx.check(ok, 'data-block:every-block-kept', fn.site(apps[0]) if apps else fn.site(lp), 'every block\'s line is added to the predefined line list (no selection)',
              describe_facts(filter_facts_at(ctx, fn, apps[0], res)) if apps else 'no append')
    lab = [c for c in ast.walk(lp) if isinstance(c, ast.Call) and isinstance(c.func, ast.Attribute) and c.func.attr == 'set_label_value']
    ok = len(lab) == 1
    if ok:
        slv = ctx.repo.func('bespokeasm.assembler.label_scope.LabelScope.set_label_value')
        bb = bind_args(lab[0], slv)
        ok = _field(ctx, fn, bb.get('label'), lab[0], var) == 'name' and _field(ctx, fn, bb.get('value'), lab[0], var) == 'address' \
            and filter_facts_at(ctx, fn, lab[0], res) == []
    ctx.check(ok, 'data-block:label', fn.site(lab[0]) if lab else fn.site(lp), 'the block\'s name is a label whose value is the block\'s address', '; '.join(unparse(c)[:100] for c in lab))


def cfg_constants(ctx):
    ctx.rule('CFG.3', 'every predefined constant is registered globally under its own name with its own value', 1)
    fn = ctx.repo.func(f'{MODEL}.global_label_scope')
    loops = [l for l in ast.walk(fn.node) if isinstance(l, ast.For) and unparse(l.iter) == 'self.predefined_constants']
    if len(loops) != 1:
        raise AnalysisError('global_label_scope: expected one loop over self.predefined_constants')
    lp = loops[0]
    var = unparse(lp.target)
    lab = [c for c in ast.walk(lp) if isinstance(c, ast.Call) and isinstance(c.func, ast.Attribute) and c.func.attr == 'set_label_value']
    ok = len(lab) == 1
    if ok:
        slv = ctx.repo.func('bespokeasm.assembler.label_scope.LabelScope.set_label_value')
        bb = bind_args(lab[0], slv)
        res = resolver(ctx, fn, inline=False)
        sel = [l for c in filter_facts_at(ctx, fn, lab[0], res) for l in c if not (l[0] == 'isnone' and l[1] == 'self._global_label_scope')]
        ok = _field(ctx, fn, bb.get('label'), lab[0], var) == 'name' and _field(ctx, fn, bb.get('value'), lab[0], var) == 'value' and not sel \
            and unparse(bb.get('scope')) == 'LabelScopeType.GLOBAL'
    ctx.check(ok, 'constant:registered', fn.site(lab[0]) if lab else fn.site(), 'each predefined constant is set in the global scope as name = value', '; '.join(unparse(c)[:120] for c in lab))


def cfg_zones(ctx):
    ctx.rule('CFG.4', 'every predefined memory zone is created with its own name, start and end', 2)
    fn = ctx.repo.func(ENGINE)
    mm = ctx.repo.func('bespokeasm.assembler.memory_zone.manager.MemoryZoneManager.__init__')
    calls_ = [c for c in ast.walk(fn.node) if isinstance(c, ast.Call) and unparse(c.func) == 'MemoryZoneManager']
    ok = len(calls_) == 1
    if ok:
        b = bind_args(calls_[0], mm)
        pz = mm.param_names[3] if len(mm.param_names) > 3 else 'predefined_zones'
        ok = unparse(b.get(pz)) == 'self._model.predefined_memory_zones' and unparse(b.get(mm.param_names[1])) == 'self._model.address_size'
    ctx.check(ok, 'zones:handed-to-manager', fn.site(calls_[0]) if calls_ else fn.site(), 'the zone manager is built from the model\'s predefined zones and address size', unparse(calls_[0]) if calls_ else '')
    pz = mm.param_names[3] if len(mm.param_names) > 3 else 'predefined_zones'
    comps = [c for c in ast.walk(mm.node) if isinstance(c, (ast.DictComp,)) and unparse(c.generators[0].iter) == pz]
    loops = [l for l in walk_no_nested(mm.node) if isinstance(l, ast.For) and unparse(l.iter) == pz]
    mz = ctx.repo.func('bespokeasm.assembler.memory_zone.MemoryZone.__init__')
    ok = False
    detail = 'no construction over the predefined zones found'
    if len(comps) == 1 and not comps[0].generators[0].ifs:
        c = comps[0]
        v = unparse(c.generators[0].target)
        if isinstance(c.value, ast.Call) and unparse(c.value.func) == 'MemoryZone':
            b = bind_args(c.value, mz)
            names = mz.param_names[1:]
            got = {p: unparse(b.get(p)) for p in names}
            ok = unparse(c.key) == f"{v}['name']" and list(got.values()) == [mm.param_names[1], f"{v}['start']", f"{v}['end']", f"{v}['name']"]
            detail = f'{unparse(c.key)}: {got}'
    elif len(loops) == 1:
        lp = loops[0]
        v = unparse(lp.target)
        cz = [c for c in ast.walk(lp) if isinstance(c, ast.Call) and unparse(c.func) == 'MemoryZone']
        if len(cz) == 1:
            b = bind_args(cz[0], mz)
            got = [unparse(b.get(p)) for p in mz.param_names[1:]]
            ok = got == [mm.param_names[1], f"{v}['start']", f"{v}['end']", f"{v}['name']"]
            detail = str(got)
    ctx.check(ok, 'zones:own-bounds', mm.site(), 'each predefined zone is MemoryZone(address bits, its start, its end, its name), stored under its name, none skipped', detail)
