"""Rules shared by several properties: how the `predefined:` section of the ISA definition reaches the assembler.

CFG.1  each model accessor returns the configuration list it is named after (or nothing)
CFG.2  every predefined data block becomes one byte-producing line with the block's own address, size and value
CFG.3  every predefined constant is registered globally under its own name with its own value
CFG.4  every predefined memory zone is created with its own name, start and end
"""
import ast

from engine.index import AnalysisError
from engine.helpers import (resolver, filter_facts_at, facts_at, describe_facts, unparse, walk_no_nested, returns, deref)
from engine.types import bind_args

MODEL = 'bespokeasm.assembler.model.AssemblerModel'
ENGINE = 'bespokeasm.assembler.engine.Assembler.assemble_bytecode'

_ACCESSORS = {
    'predefined_constants': 'constants',
    'predefined_data_blocks': 'data',
    'predefined_memory_zones': 'memory_zones',
    'predefined_symbols': 'symbols',
}


def _is_empty_list(e) -> bool:
    return (isinstance(e, ast.List) and not e.elts) or (isinstance(e, ast.Call) and unparse(e.func) == 'list' and not e.args)


def cfg_accessors(ctx, only=None):
    ctx.rule('CFG.1', 'model accessors return the `predefined:` list they are named after', 1)
    for name, key in _ACCESSORS.items():
        if only and name not in only:
            continue
        fn = ctx.repo.func(f'{MODEL}.{name}')
        rr = [r for r in returns(fn) if r.value is not None]
        real = [r for r in rr if not _is_empty_list(r.value)]
        want = (f"self._config['predefined']['{key}']", f"self._config['predefined'].get('{key}', [])", f"self._config.get('predefined', {{}}).get('{key}', [])")
        ok = len(real) >= 1 and all(unparse(r.value) in want for r in real)
        ctx.check(ok, f'accessor:{name}', fn.site(real[0]) if real else fn.site(),
                  f'{name} is the list under predefined.{key} of the ISA definition, or empty',
                  '; '.join(unparse(r.value) for r in rr))
        # `predefined:` with nothing under it is an empty section, not an error
        res = resolver(ctx, fn, inline=False)
        guarded = bool(real) and all(any(c == frozenset({('isnone', "self._config['predefined']", False)}) for c in facts_at(ctx, fn, r, res))
                                     or "get('predefined'" in unparse(r.value) for r in real)
        ctx.check(guarded, f'accessor:{name}:empty-section', fn.site(real[0]) if real else fn.site(),
                  f'{name} treats an empty `predefined:` section (YAML null) as having no entries', 'the section is subscripted without a None test')


def _field(ctx, fn, e, at, var):
    """`e` (possibly through locals) is var['<key>'] -> key, else None."""
    d = deref(ctx, fn, e, at) if e is not None else None
    if isinstance(d, ast.Subscript) and unparse(d.value) == var and isinstance(d.slice, ast.Constant):
        return d.slice.value
    return None


def cfg_data_blocks(ctx):
    ctx.rule('CFG.2', 'every predefined data block becomes a byte-producing line at its own address, with its own size and value', 5)
    fn = ctx.repo.func(ENGINE)
    loops = [l for l in walk_no_nested(fn.node) if isinstance(l, ast.For) and unparse(l.iter) == 'self._model.predefined_data_blocks']
    if len(loops) != 1:
        raise AnalysisError('assemble_bytecode: expected one loop over self._model.predefined_data_blocks')
    lp = loops[0]
    var = unparse(lp.target)
    init = ctx.repo.func('bespokeasm.assembler.line_object.predefined_data.PredefinedDataLine.__init__')
    ctors = [c for c in ast.walk(lp) if isinstance(c, ast.Call) and unparse(c.func) == 'PredefinedDataLine']
    if len(ctors) != 1:
        raise AnalysisError('predefined data loop: expected one PredefinedDataLine(...)')
    b = bind_args(ctors[0], init)
    for param, key in (('byte_length', 'size'), ('byte_value', 'value'), ('name', 'name')):
        got = _field(ctx, fn, b.get(param), ctors[0], var)
        ctx.check(got == key, f'data-block:{param}', fn.site(ctors[0]), f'the line\'s {param} is the block\'s `{key}`', f'{param} = {unparse(b.get(param)) if b.get(param) is not None else None} (block field {got!r})')
    obj = None
    for n in walk_no_nested(lp):
        if isinstance(n, ast.Assign) and n.value is ctors[0] and isinstance(n.targets[0], ast.Name):
            obj = n.targets[0].id
    sa = [c for c in ast.walk(lp) if isinstance(c, ast.Call) and isinstance(c.func, ast.Attribute) and c.func.attr == 'set_start_address' and unparse(c.func.value) == obj]
    ok = len(sa) == 1 and _field(ctx, fn, sa[0].args[0], sa[0], var) == 'address'
    ctx.check(ok, 'data-block:address', fn.site(sa[0]) if sa else fn.site(lp), 'the line is placed at the block\'s `address`', '; '.join(unparse(c) for c in sa) or 'no set_start_address')
    res = resolver(ctx, fn, inline=False)
    # the block lies inside GLOBAL (else exit) before its line is created
    from engine.helpers import lit_cmp
    from engine.lin import clause_implies
    cl_ = facts_at(ctx, fn, ctors[0], res)
    a_, n_ = None, None
    for t_ in walk_no_nested(lp):
        if isinstance(t_, (ast.Assign, ast.AnnAssign)) and isinstance(getattr(t_, 'value', None), ast.Subscript) and unparse(t_.value.value) == var and isinstance(t_.value.slice, ast.Constant):
            tn = unparse(t_.targets[0] if isinstance(t_, ast.Assign) else t_.target)
            if t_.value.slice.value == 'address':
                a_ = tn
            if t_.value.slice.value == 'size':
                n_ = tn
    a_ = a_ or f"{var}['address']"      # (the block's fields may also be read in place)
    n_ = n_ or f"{var}['size']"
    ok = True
    if ok:
        gz = ['memzone_manager.global_zone'] + [unparse(t_.targets[0]) for t_ in ast.walk(fn.node) if isinstance(t_, ast.Assign) and unparse(t_.value) == 'memzone_manager.global_zone']
        ok = False
        for g_ in gz:
            lo = lit_cmp(ctx, fn, f'{a_} >= {g_}.start', res)
            hi = lit_cmp(ctx, fn, f'{a_} + {n_} - 1 <= {g_}.end', res)
            ok = ok or (clause_implies(cl_, lo) and clause_implies(cl_, hi))
    ctx.check(ok, 'data-block:inside-GLOBAL', fn.site(ctors[0]), 'a predefined data block is accepted only if all of it lies inside the GLOBAL zone', describe_facts(cl_))
    apps = [c for c in ast.walk(lp) if isinstance(c, ast.Call) and isinstance(c.func, ast.Attribute) and c.func.attr == 'append' and c.args and unparse(c.args[0]) == obj]
    ok = len(apps) == 1 and filter_facts_at(ctx, fn, apps[0], res) == []
    ctx.check(ok, 'data-block:every-block-kept', fn.site(apps[0]) if apps else fn.site(lp), 'every block\'s line is added to the predefined line list (no selection)',
              describe_facts(filter_facts_at(ctx, fn, apps[0], res)) if apps else 'no append')
    lab = [c for c in ast.walk(lp) if isinstance(c, ast.Call) and isinstance(c.func, ast.Attribute) and c.func.attr == 'set_label_value']
    ok = len(lab) == 1
    if ok:
        slv = ctx.repo.func('bespokeasm.assembler.label_scope.LabelScope.set_label_value')
        bb = bind_args(lab[0], slv)
        ok = _field(ctx, fn, bb.get('label'), lab[0], var) == 'name' and _field(ctx, fn, bb.get('value'), lab[0], var) == 'address' \
            and filter_facts_at(ctx, fn, lab[0], res) == []
    ctx.check(ok, 'data-block:label', fn.site(lab[0]) if lab else fn.site(lp), 'the block\'s name is a label whose value is the block\'s address', '; '.join(unparse(c)[:100] for c in lab))


def cfg_constants(ctx):
    ctx.rule('CFG.3', 'every predefined constant is registered globally under its own name with its own value', 1)
    fn = ctx.repo.func(f'{MODEL}.global_label_scope')
    loops = [l for l in ast.walk(fn.node) if isinstance(l, ast.For) and unparse(l.iter) == 'self.predefined_constants']
    if len(loops) != 1:
        raise AnalysisError('global_label_scope: expected one loop over self.predefined_constants')
    lp = loops[0]
    var = unparse(lp.target)
    lab = [c for c in ast.walk(lp) if isinstance(c, ast.Call) and isinstance(c.func, ast.Attribute) and c.func.attr == 'set_label_value']
    ok = len(lab) == 1
    if ok:
        slv = ctx.repo.func('bespokeasm.assembler.label_scope.LabelScope.set_label_value')
        bb = bind_args(lab[0], slv)
        res = resolver(ctx, fn, inline=False)
        sel = [l for c in filter_facts_at(ctx, fn, lab[0], res) for l in c if not (l[0] == 'isnone' and l[1] == 'self._global_label_scope')]
        ok = _field(ctx, fn, bb.get('label'), lab[0], var) == 'name' and _field(ctx, fn, bb.get('value'), lab[0], var) == 'value' and not sel \
            and unparse(bb.get('scope')) == 'LabelScopeType.GLOBAL'
    ctx.check(ok, 'constant:registered', fn.site(lab[0]) if lab else fn.site(), 'each predefined constant is set in the global scope as name = value', '; '.join(unparse(c)[:120] for c in lab))


def cfg_zones(ctx):
    ctx.rule('CFG.4', 'every predefined memory zone is created with its own name, start and end', 2)
    fn = ctx.repo.func(ENGINE)
    mm = ctx.repo.func('bespokeasm.assembler.memory_zone.manager.MemoryZoneManager.__init__')
    calls_ = [c for c in ast.walk(fn.node) if isinstance(c, ast.Call) and unparse(c.func) == 'MemoryZoneManager']
    ok = len(calls_) == 1
    if ok:
        b = bind_args(calls_[0], mm)
        pz = mm.param_names[3] if len(mm.param_names) > 3 else 'predefined_zones'
        ok = unparse(b.get(pz)) == 'self._model.predefined_memory_zones' and unparse(b.get(mm.param_names[1])) == 'self._model.address_size'
    ctx.check(ok, 'zones:handed-to-manager', fn.site(calls_[0]) if calls_ else fn.site(), 'the zone manager is built from the model\'s predefined zones and address size', unparse(calls_[0]) if calls_ else '')
    pz = mm.param_names[3] if len(mm.param_names) > 3 else 'predefined_zones'
    comps = [c for c in ast.walk(mm.node) if isinstance(c, (ast.DictComp,)) and unparse(c.generators[0].iter) == pz]
    loops = [l for l in walk_no_nested(mm.node) if isinstance(l, ast.For) and unparse(l.iter) == pz]
    mz = ctx.repo.func('bespokeasm.assembler.memory_zone.MemoryZone.__init__')
    ok = False
    detail = 'no construction over the predefined zones found'
    if len(comps) == 1 and not comps[0].generators[0].ifs:
        c = comps[0]
        v = unparse(c.generators[0].target)
        if isinstance(c.value, ast.Call) and unparse(c.value.func) == 'MemoryZone':
            b = bind_args(c.value, mz)
            names = mz.param_names[1:]
            got = {p: unparse(b.get(p)) for p in names}
            ok = unparse(c.key) == f"{v}['name']" and list(got.values()) == [mm.param_names[1], f"{v}['start']", f"{v}['end']", f"{v}['name']"]
            detail = f'{unparse(c.key)}: {got}'
    elif len(loops) == 1:
        lp = loops[0]
        v = unparse(lp.target)
        cz = [c for c in ast.walk(lp) if isinstance(c, ast.Call) and unparse(c.func) == 'MemoryZone']
        if len(cz) == 1:
            b = bind_args(cz[0], mz)
            got = [unparse(b.get(p)) for p in mz.param_names[1:]]
            ok = got == [mm.param_names[1], f"{v}['start']", f"{v}['end']", f"{v}['name']"]
            detail = str(got)
    ctx.check(ok, 'zones:own-bounds', mm.site(), 'each predefined zone is MemoryZone(address bits, its start, its end, its name), stored under its name, none skipped', detail)
    # containment in GLOBAL, as for zones created in source
    res = resolver(ctx, mm, inline=False)
    hit = None
    for lp in [l for l in walk_no_nested(mm.node) if isinstance(l, ast.For)]:
        it = unparse(lp.iter)
        if it not in ('self._zones.values()', 'list(self._zones.values())') or not isinstance(lp.target, ast.Name):
            continue
        z = lp.target.id
        for i in [x for x in walk_no_nested(lp) if isinstance(x, ast.If)]:
            from engine.helpers import body_only_aborts
            from engine.lin import to_cnf
            if not body_only_aborts(i.body):
                continue
            got = to_cnf(i.test, True, res)
            want = to_cnf(ast.parse(f'{z}.start < self.global_zone.start or {z}.end > self.global_zone.end', mode='eval').body, True, res)
            if got == want and filter_facts_at(ctx, mm, i, res) == []:
                hit = i
    if hit is None:
        # find-first spelling: `bad = next((z for z in self._zones.values() if <outside>), None)` / `if bad is not None: exit`
        # (or the search loop the normaliser makes of it: the abort follows the loop)
        from engine.helpers import body_only_aborts
        from engine.lin import to_cnf
        found = {}
        for n in ast.walk(mm.node):
            ge = None
            if isinstance(n, ast.Assign) and len(n.targets) == 1 and isinstance(n.targets[0], ast.Name) and isinstance(n.value, ast.Call) \
                    and unparse(n.value.func) == 'next' and len(n.value.args) == 2 and unparse(n.value.args[1]) == 'None' and isinstance(n.value.args[0], ast.GeneratorExp):
                ge = n.value.args[0]
            if ge is not None and len(ge.generators) == 1 and unparse(ge.generators[0].iter) in ('self._zones.values()', 'list(self._zones.values())') \
                    and isinstance(ge.generators[0].target, ast.Name) and unparse(ge.elt) == ge.generators[0].target.id and len(ge.generators[0].ifs) == 1:
                z = ge.generators[0].target.id
                got = to_cnf(ge.generators[0].ifs[0], True, res)
                want = to_cnf(ast.parse(f'{z}.start < self.global_zone.start or {z}.end > self.global_zone.end', mode='eval').body, True, res)
                if got == want:
                    found[n.targets[0].id] = n
        for lp in [l for l in walk_no_nested(mm.node) if isinstance(l, ast.For)]:
            if unparse(lp.iter) not in ('self._zones.values()', 'list(self._zones.values())') or not isinstance(lp.target, ast.Name) or len(lp.body) != 1 \
                    or not isinstance(lp.body[0], ast.If) or lp.body[0].orelse:
                continue
            z, i0 = lp.target.id, lp.body[0]
            want = to_cnf(ast.parse(f'{z}.start < self.global_zone.start or {z}.end > self.global_zone.end', mode='eval').body, True, res)
            if to_cnf(i0.test, True, res) == want and len(i0.body) == 2 and isinstance(i0.body[1], ast.Break) and isinstance(i0.body[0], ast.Assign) \
                    and isinstance(i0.body[0].targets[0], ast.Name) and unparse(i0.body[0].value) == z:
                found[i0.body[0].targets[0].id] = lp
        for i in [x for x in walk_no_nested(mm.node) if isinstance(x, ast.If)]:
            for name in found:
                if unparse(i.test) == f'{name} is not None' and body_only_aborts(i.body) and filter_facts_at(ctx, mm, i, res) == []:
                    hit = i
    ctx.check(hit is not None, 'zones:predefined-inside-GLOBAL', mm.site(hit) if hit is not None else mm.site(),
              'every predefined zone is rejected unless GLOBAL.start <= start and end <= GLOBAL.end',
              'no aborting containment test over all zones in the manager\'s constructor: code can be assembled outside GLOBAL')


# ------------------------------------------------------------------------------------------------ state discipline
# Who may write which piece of mutable state. Every write to an attribute of `self` / `cls` outside __init__, every write
# rooted at a module-level or class-level name, every `global` statement and every mutable default argument found in the
# reviewed tree is listed here with its reason. Anything not listed is new state that survives from one statement (or
# one lookup) to the next - a cache, a memo, a counter - and is refuted: the properties are stated per statement / per
# lookup, and nothing in the reviewed design carries information between them except what is listed.

_MUT = {'append', 'extend', 'add', 'pop', 'remove', 'clear', 'update', 'insert', 'setdefault', 'sort', 'reverse', 'discard', 'popitem', 'appendleft'}

STATE_TABLE = {
    ('AssemblerModel', '_global_label_scope'): {'global_label_scope'},        # lazily built once from the configuration
    ('ConditionStack', '_active'): {'_push', 'process_condition'},
    ('ConditionStack', '_stack'): {'_push', 'process_condition'},
    ('ConditionStack', '_mute_counter'): {'_increment_mute_counter', '_decrement_mute_counter', 'process_condition'},
    ('ElifPreprocessorCondition', '_parent'): {'_check_and_set_parent'},
    ('ElsePreprocessorCondition', '_parent'): {'_check_and_set_parent'},
    ('EndifPreprocessorCondition', '_parent'): {'_check_and_set_parent'},
    ('PreprocessorCondition', '_parent'): {'_check_and_set_parent'},
    ('PreprocessorCondition', '_latched_value'): {'latch'},                   # the branch decision, taken once when the directive is reached
    ('IfPreprocessorCondition', '_lhs_expression'): {'_handle_matching'},     # construction helper called from __init__ only
    ('IfPreprocessorCondition', '_operator'): {'_handle_matching'},
    ('IfPreprocessorCondition', '_rhs_expression'): {'_handle_matching'},
    ('DataLine', '_bytes'): {'generate_bytes'},                                # (today through _append_byte; writing its own bytes is this method's role)
    ('EmbeddedString', '_bytes'): {'generate_bytes'},
    ('FillDataLine', '_bytes'): {'generate_bytes'},
    ('FillUntilDataLine', '_bytes'): {'generate_bytes'},
    ('InstructionLine', '_bytes'): {'generate_bytes'},
    ('PredefinedDataLine', '_bytes'): {'generate_bytes'},
    ('LineWithBytes', '_bytes'): {'_append_byte'},
    ('FillDataLine', '_count'): {'byte_size', 'generate_bytes'},              # value of the count expression, evaluated on first use
    ('FillDataLine', '_value'): {'generate_bytes'},
    ('FillUntilDataLine', '_fill_until_addr'): {'byte_size', 'generate_bytes'},
    ('FillUntilDataLine', '_fill_value'): {'generate_bytes'},
    ('LabelScope', '_global_scope'): {'global_scope'},                        # the process-wide global scope
    ('LabelScope', '_labels'): {'set_label_value'},
    ('LineObject', '_address'): {'set_start_address'},
    ('LineObject', '_compilable'): {'compilable'},
    ('LineObject', '_is_muted'): {'is_muted'},
    ('LineObject', '_label_scope'): {'label_scope'},
    ('MemoryZone', '_current_address'): {'current_address'},
    ('MemoryZoneManager', '_zones'): {'create_zone'},
    ('PackedBits', '_bytes'): {'append_bits'},
    ('PackedBits', '_cur_bit_idx'): {'append_bits'},
    ('PackedBits', '_cur_byte_idx'): {'append_bits'},
    ('PageAlignLine', '_address'): {'set_start_address'},
    ('PageAlignLine', '_page_size'): {'set_start_address'},
    ('Preprocessor', '_symbols'): {'create_symbol'},
}
GLOBAL_STATE_TABLE = {
    # compiled mnemonic pattern, built on first use from the model's mnemonics
    'InstructionLine._INSTRUCTUION_EXTRACTION_PATTERN': {'bespokeasm.assembler.line_object.instruction_line.InstructionLine.factory'},
}
MUTABLE_DEFAULTS = {
    'bespokeasm.assembler.assembly_file.AssemblyFile.load_line_objects', 'bespokeasm.assembler.memory_zone.manager.MemoryZoneManager.__init__',
    'bespokeasm.assembler.preprocessor.Preprocessor.__init__', 'bespokeasm.assembler.preprocessor.Preprocessor.resolve_symbols',
}


def _root(e):
    while isinstance(e, (ast.Attribute, ast.Subscript)):
        e = e.value
    return e


def state_discipline(ctx, prefixes=('bespokeasm.assembler', 'bespokeasm.expression', 'bespokeasm.utilities')):
    ctx.rule('STATE', 'no state outlives a statement except the reviewed writers (no caches, memos or counters added)', 1)
    n_seen = 0
    for q, fi in sorted(ctx.repo.functions.items()):
        if not fi.module.name.startswith(tuple(prefixes)):
            continue
        fn = fi.node
        params = {a.arg for a in fn.args.posonlyargs + fn.args.args + fn.args.kwonlyargs}
        locals_ = {n.id for n in ast.walk(fn) if isinstance(n, ast.Name) and isinstance(n.ctx, ast.Store)} | params
        for a in ([fn.args.vararg] if fn.args.vararg else []) + ([fn.args.kwarg] if fn.args.kwarg else []):
            locals_.add(a.arg)
        for n in ast.walk(fn):
            if isinstance(n, ast.comprehension):
                locals_ |= {x.id for x in ast.walk(n.target) if isinstance(x, ast.Name)}
        writes = []      # (kind, text, attr or None, node)
        for n in ast.walk(fn):
            if isinstance(n, (ast.Global, ast.Nonlocal)):
                writes.append(('global', ', '.join(n.names), None, n))
            tg = n.targets if isinstance(n, ast.Assign) else ([n.target] if isinstance(n, (ast.AugAssign, ast.AnnAssign)) and getattr(n, 'value', True) is not None else [])
            for t in tg:
                for s_ in ([t] if not isinstance(t, (ast.Tuple, ast.List)) else t.elts):
                    if isinstance(s_, (ast.Attribute, ast.Subscript)):
                        writes.append(('store', unparse(s_), s_, n))
            if isinstance(n, ast.Call) and isinstance(n.func, ast.Attribute) and n.func.attr in _MUT and isinstance(n.func.value, (ast.Attribute, ast.Subscript, ast.Name)):
                writes.append(('mutate', unparse(n.func.value), n.func.value, n))
        for kind, text, node, at in writes:
            if kind == 'global':
                ctx.refute(f'state:global:{ctx.short(fi)}:{text}', fi.site(at), 'no function rebinds module-level names', f'{type(at).__name__.lower()} {text}')
                continue
            r = _root(node)
            if not isinstance(r, ast.Name):
                continue
            if r.id in ('self', 'cls') and fi.cls is not None:
                # the attribute of self that is written / whose contents are changed
                cur = node
                while isinstance(cur, (ast.Attribute, ast.Subscript)) and not (isinstance(cur, ast.Attribute) and isinstance(cur.value, ast.Name)):
                    cur = cur.value
                if not isinstance(cur, ast.Attribute):
                    continue
                attr = cur.attr
                if fi.name == '__init__' and r.id == 'self':
                    continue
                n_seen += 1
                owners = [c for c in [fi.cls] + fi.cls.mro()[1:]]
                allowed = set()
                for c in owners:
                    allowed |= STATE_TABLE.get((c.name, attr), set())
                ctx.check(fi.name in allowed, f'state:{fi.cls.name}.{attr}:{fi.name}', fi.site(at),
                          f'{fi.cls.name}.{attr} is written only by its reviewed writers',
                          f'{fi.name} {"assigns" if kind == "store" else "changes the contents of"} {text}: state that survives to the next statement / lookup')
            elif r.id not in locals_:
                n_seen += 1
                allowed = set()
                for k, v in GLOBAL_STATE_TABLE.items():
                    if text == k or text.startswith(k + '[') or text.startswith(k + '.'):
                        allowed |= v
                ctx.check(q in allowed, f'state:global:{ctx.short(fi)}:{text[:40]}', fi.site(at), 'module- and class-level objects are not modified while assembling',
                          f'{unparse(at)[:80]} writes to {text}, which outlives the call')
        for d in list(fn.args.defaults) + [k for k in fn.args.kw_defaults if k is not None]:
            if isinstance(d, (ast.List, ast.Dict, ast.Set)) or (isinstance(d, ast.Call) and unparse(d.func) in ('set', 'list', 'dict', 'bytearray', 'defaultdict', 'collections.defaultdict')):
                n_seen += 1
                ctx.check(q in MUTABLE_DEFAULTS, f'state:mutable-default:{ctx.short(fi)}', fi.site(d), 'no new mutable default argument (one object shared by all calls)', unparse(d))
    # argument-keyed memos (functools.lru_cache / cache): the remembered answer is found again by equality of the arguments, so
    # every argument must be a plain value, or a receiver that compares by identity; and the body may not read state that changes
    for q, fi in sorted(ctx.repo.functions.items()):
        if not fi.module.name.startswith(tuple(prefixes)):
            continue
        memo = [d for d in fi.node.decorator_list
                if unparse(d.func if isinstance(d, ast.Call) else d).split('.')[-1] in ('lru_cache', 'cache', 'memoize', 'memoized')]
        if not memo:
            continue
        n_seen += 1
        why = []
        plain = {'str', 'int', 'bool', 'bytes', 'float'}
        a_ = fi.node.args
        for k_, p_ in enumerate(a_.posonlyargs + a_.args + a_.kwonlyargs):
            if k_ == 0 and fi.cls is not None and fi.kind in ('method', 'classmethod') and p_.arg in ('self', 'cls'):
                eq = [c.name for c in fi.cls.mro() + fi.cls.all_subclasses() if '__eq__' in c.methods or '__hash__' in c.methods]
                if eq:
                    why.append(f'the receiver is found again by the __eq__ / __hash__ of {", ".join(eq)}, not by identity')
                continue
            if p_.annotation is None or unparse(p_.annotation) not in plain:
                why.append(f'argument {p_.arg} is not a plain value')
        if a_.vararg or a_.kwarg:
            why.append('variable arguments')
        if fi.cls is not None:
            changing = {attr for (cn, attr) in STATE_TABLE if any(cn == c.name for c in fi.cls.mro() + fi.cls.all_subclasses())}
            reads = {n.attr for n in ast.walk(fi.node) if isinstance(n, ast.Attribute) and isinstance(n.value, ast.Name) and n.value.id == 'self'}
            if reads & changing:
                why.append(f'reads {", ".join(sorted(reads & changing))}, which changes between calls')
        ctx.check(not why, f'state:memo:{ctx.short(fi)}', fi.site(), 'a memoised function is keyed by plain values or by the identity of its receiver, and reads nothing that changes',
                  f'@{unparse(memo[0])} on {fi.name}: ' + '; '.join(why) + ' - a later call can be answered with what an earlier, different call computed')
    # module-level containers created for the purpose of being filled later
    for m in ctx.repo.modules.values():
        if not m.name.startswith(tuple(prefixes)):
            continue
        for st in m.tree.body:
            v = getattr(st, 'value', None)
            if isinstance(st, (ast.Assign, ast.AnnAssign)) and isinstance(v, ast.Call) and unparse(v.func).split('.')[-1] in (
                    'WeakKeyDictionary', 'WeakValueDictionary', 'defaultdict', 'OrderedDict', 'Counter', 'deque', 'lru_cache', 'cache'):
                n_seen += 1
                ctx.refute(f'state:module-container:{m.name.split("bespokeasm.")[-1]}:{unparse(st)[:40]}', f'{m.relpath}:{st.lineno}',
                           'no module-level container is created to be filled while assembling', unparse(st)[:100])
            if isinstance(st, (ast.Assign, ast.AnnAssign)) and ((isinstance(v, ast.Dict) and not v.keys) or (isinstance(v, (ast.List, ast.Set)) and not v.elts)
                                                                 or (isinstance(v, ast.Call) and unparse(v.func) in ('dict', 'set', 'list') and not v.args)):
                n_seen += 1
                ctx.refute(f'state:module-container:{m.name.split("bespokeasm.")[-1]}:{unparse(st)[:40]}', f'{m.relpath}:{st.lineno}',
                           'no empty module-level container is created to be filled while assembling', unparse(st)[:100])
    ctx.ok('state:scanned', '-', 'functions of the scope were scanned for state that outlives a call', f'{n_seen} writing site(s) in modules {", ".join(x.split("bespokeasm.")[-1] for x in prefixes)}')


def exact_lookup(ctx, qualname: str, table: str, what: str, key: str):
    """The accessor returns the table's entry for exactly the name it was given, or None: no translation of the name, no
    short cut for special names, no fall-back to another entry."""
    from engine.normalize import _structure_returns
    import copy
    fn = ctx.repo.func(qualname)
    p = fn.call_params[0].arg
    body = [s_ for s_ in copy.deepcopy(fn.node.body) if not (isinstance(s_, ast.Expr) and isinstance(s_.value, ast.Constant))]
    body = _structure_returns(body) or body
    direct = (f'self.{table}.get({p}, None)', f'self.{table}.get({p})')
    ok = len(body) == 1 and isinstance(body[0], ast.Return) and unparse(body[0].value) in direct
    if not ok and len(body) == 1 and isinstance(body[0], ast.If):
        i = body[0]
        t = unparse(i.test)
        a = [unparse(x) for x in i.body]
        b = [unparse(x) for x in i.orelse]
        ok = (t == f'{p} in self.{table}' and a == [f'return self.{table}[{p}]'] and b == ['return None']) or \
             (t == f'{p} not in self.{table}' and b == [f'return self.{table}[{p}]'] and a == ['return None'])
    ctx.check(ok, key, fn.site(), f'{what} is looked up under exactly the name given (or is None)', '; '.join(unparse(x)[:80] for x in fn.node.body[:4]))


# ------------------------------------------------------------------------------------------------ pattern is the only judge
_REVIEWED_VETOES = {
    # directive statements start with a dot: anything else is not for this factory
    'bespokeasm.assembler.line_object.directive_line.factory.DirectiveLine.factory': {"call:cleaned_line_str.startswith('.'):False"},
}


def no_pre_pattern_veto(ctx, scope: str):
    """In a matcher that consults a regular expression, "no match" (`return None`) is decided after the pattern has been tried:
    a shortcut that rejects the text beforehand has to agree with the pattern on every input, and the seeded ones never do
    (prefix decorators, tabs next to a keyword)."""
    n = 0
    for q, f in sorted(ctx.repo.functions.items()):
        if not q.startswith(scope) or f.name not in ('parse_operand', 'factory', '_parse_bytecode_parts'):
            continue
        g = ctx.cfg(f)
        rx_nodes = [g.node_of(c) for c in ast.walk(f.node) if isinstance(c, ast.Call) and isinstance(c.func, ast.Attribute) and c.func.attr in ('match', 'search', 'fullmatch')
                    and g.has_node(c) and not (unparse(c.func.value) == 're' and c.args and isinstance(c.args[0], ast.Constant) and len(c.args[0].value) < 16)]
        if not rx_nodes:
            continue
        res = resolver(ctx, f, inline=False)
        for r in returns(f):
            if not (r.value is None or (isinstance(r.value, ast.Constant) and r.value.value is None)):
                continue
            n += 1
            if any(g.dominates(x, g.node_of(r)) for x in rx_nodes):
                ctx.ok(f'veto:after-pattern:{ctx.short(f).split("assembler.")[-1]}:{n}', f.site(r), '"no match" follows the pattern match', '')
                continue
            fcl = filter_facts_at(ctx, f, r, res)
            sig = {f'{l[0]}:{l[1]}:{l[-1]}' for c in fcl for l in c}
            ok = sig <= _REVIEWED_VETOES.get(q, set()) and bool(sig)
            ctx.check(ok, f'veto:before-pattern:{ctx.short(f).split("assembler.")[-1]}', f.site(r),
                      'the text is rejected before its pattern is tried only by the reviewed vetoes',
                      f'`return None` under {describe_facts(fcl)} without consulting the pattern: spellings the pattern accepts (a decorator before the bracket, a tab next to the keyword) are refused')
    if n < 5:
        ctx.err('veto:inventory', '-', 'at least 5 "no match" returns in pattern-based matchers', f'{n}')


# ------------------------------------------------------------------------------------------------ register names
def not_a_register(cl, name: str, regs: str) -> bool:
    """The facts say `name` is not a register name of `regs`, tested without regard to letter case (is_register_name)."""
    want = ('call', f'is_register_name({name}, {regs})', False)
    return any(len(c) == 1 and next(iter(c)) == want for c in cl)


def register_name_test(ctx):
    """is_register_name(name, registers): lower-cased name is among the lower-cased register names."""
    f = ctx.repo.func('bespokeasm.utilities.is_register_name')
    rr = returns(f)
    n, regs = (p.arg for p in f.call_params[:2])
    ok = len(rr) == 1
    if ok:
        v = rr[0].value
        ok = isinstance(v, ast.Compare) and len(v.ops) == 1 and isinstance(v.ops[0], ast.In) and unparse(v.left) in (f'{n}.lower()', f'{n}.casefold()')
        if ok:
            c = v.comparators[0]
            ok = isinstance(c, (ast.SetComp, ast.ListComp, ast.GeneratorExp)) and len(c.generators) == 1 and not c.generators[0].ifs and unparse(c.generators[0].iter) == regs \
                and unparse(c.elt) == f'{unparse(c.generators[0].target)}.{unparse(v.left).split(".")[-1]}'
    ctx.check(ok, 'registers:name-test-ignores-case', f.site(), 'a name is a register name iff its lower-cased spelling is among the lower-cased configured register names',
              '; '.join(unparse(r) for r in rr))


# ------------------------------------------------------------------------------------------------ the #include branch of the line loop

class IncludeRegion:
    """What load_line_objects does with a line it recognises as `#include`: the part of one loop iteration that follows the
    recognising test (read off the flow graph, so nesting and guard-clause spellings are the same thing)."""
    def __init__(self, ctx, load, call: ast.Call):
        g = ctx.cfg(load)
        self.g, self.call = g, call
        n0 = g.node_of(call)
        loops = g.loop_facts(n0)
        if not loops:
            raise AnalysisError('the include call is not inside the line loop')
        self.header = loops[-1][1]
        # the test that recognises the directive: the innermost dominating test on the line text's `#include` prefix
        self.test = None
        self.start = None
        for d in sorted(g.dominators(n0)):
            nd = g.nodes[d]
            if nd.kind == 'branch' and g.nodes[nd.test].kind == 'test':
                t = g.nodes[nd.test].expr
                if isinstance(t, ast.Call) and isinstance(t.func, ast.Attribute) and t.func.attr == 'startswith' and nd.polarity \
                        and len(t.args) == 1 and isinstance(t.args[0], ast.Constant) and str(t.args[0].value).startswith('#include'):
                    self.test, self.start = t, d
        region = g.reachable_from(self.start if self.start is not None else n0, avoiding={self.header}, normal_only=True)
        self.nodes = [g.nodes[i] for i in sorted(region)]
        self.stmts = [n.stmt for n in self.nodes if n.kind == 'stmt' and n.stmt is not None]
        self.tests = [n.expr for n in self.nodes if n.kind == 'test']
        # after the include the iteration is over: nothing but the way back to the loop header follows the splice
        after = g.reachable_from(n0, avoiding={self.header}, normal_only=True) - {n0}
        self.after = [g.nodes[i].stmt for i in sorted(after) if g.nodes[i].kind == 'stmt' and g.nodes[i].stmt is not None]
        self.leaves_loop = g.exit in after

    def assigned(self) -> list[str]:
        out = []
        for s in self.stmts:
            for n in ast.walk(s):
                if isinstance(n, ast.Assign):
                    out += [unparse(t) for t in n.targets]
                elif isinstance(n, (ast.AugAssign, ast.AnnAssign)):
                    out.append(unparse(n.target))
        return out

    def calls(self, pred) -> list[ast.Call]:
        out = []
        for x in self.stmts + self.tests:
            out += [c for c in ast.walk(x) if isinstance(c, ast.Call) and pred(c)]
        return out


# ------------------------------------------------------------------------------------------------ collections handed out by getters

_COLLECTION_MUTATORS = ('add', 'update', 'remove', 'discard', 'pop', 'clear', 'append', 'extend', 'sort', 'insert', 'reverse', 'setdefault', 'popitem',
                        'difference_update', 'intersection_update', 'symmetric_difference_update')


def internal_collection_getters(ctx) -> dict[str, str]:
    """Properties, anywhere in the repository, whose getter hands out an object the instance keeps (`return self._x` or
    `return self._a.b`) and whose return annotation says it is a set, list or dict: {property name: class.attribute path}."""
    out = {}
    for q, f in ctx.repo.functions.items():
        if f.kind not in ('property', 'cached_property') or f.cls is None:
            continue
        body = [s for s in f.node.body if not (isinstance(s, ast.Expr) and isinstance(s.value, ast.Constant))]
        if len(body) != 1 or not isinstance(body[0], ast.Return) or body[0].value is None:
            continue
        v = body[0].value
        cur = v
        while isinstance(cur, ast.Attribute):
            cur = cur.value
        if not (isinstance(v, ast.Attribute) and isinstance(cur, ast.Name) and cur.id == 'self'):
            continue
        ann = unparse(f.node.returns) if f.node.returns is not None else ''
        if any(t in ann for t in ('set', 'list', 'dict', 'Set', 'List', 'Dict')):
            out[f.name] = f'{f.cls.name}: {unparse(v)}'
    return out


def no_getter_alias_mutation(ctx, prefixes, key_prefix='model'):
    """A local that is bound to `<object>.<property>` - where the property hands out the object's own set / list / dict - is an
    alias of that collection: changing it in place (`x |= ..`, `x.update(..)`, `x[k] = v`) changes the object for everyone."""
    getters = internal_collection_getters(ctx)
    n = 0
    for q, f in sorted(ctx.repo.functions.items()):
        if not f.module.name.startswith(tuple(prefixes)):
            continue
        aliases = {}
        for a in ast.walk(f.node):
            if isinstance(a, ast.Assign) and len(a.targets) == 1 and isinstance(a.targets[0], ast.Name) and isinstance(a.value, ast.Attribute) and a.value.attr in getters:
                aliases[a.targets[0].id] = a
        if not aliases:
            continue
        stores = {}
        for x in ast.walk(f.node):
            if isinstance(x, ast.Name) and isinstance(x.ctx, ast.Store):
                stores[x.id] = stores.get(x.id, 0) + 1
        for c in ast.walk(f.node):
            tgt = None
            if isinstance(c, ast.Call) and isinstance(c.func, ast.Attribute) and c.func.attr in _COLLECTION_MUTATORS and isinstance(c.func.value, ast.Name):
                tgt = c.func.value.id
            elif isinstance(c, ast.AugAssign) and isinstance(c.target, ast.Name):
                tgt = c.target.id
            elif isinstance(c, ast.Subscript) and isinstance(c.ctx, (ast.Store, ast.Del)) and isinstance(c.value, ast.Name):
                tgt = c.value.id
            # the alias must still be the getter's object: bound once (the in-place operator itself counts as a store)
            if tgt in aliases and stores.get(tgt, 0) <= (2 if isinstance(c, ast.AugAssign) else 1):
                n += 1
                a = aliases[tgt]
                ctx.refute(f'{key_prefix}:alias-mutated:{ctx.short(f)}:{tgt}', f.site(c), 'collections handed out by a getter are read only',
                           f'{unparse(c)[:80]} changes {tgt}, which is {unparse(a.value)} = {getters[a.value.attr]} itself, not a copy: '
                           f'every later reader of that property sees the change')
    ctx.ok(f'{key_prefix}:aliases-scanned', '-', 'locals bound to collection-returning getters were scanned for in-place changes', f'{n} found; getters: {sorted(getters)}')
